"""C13 — serialization is pure, emits only primitives and honours the per-field hooks."""
from __future__ import annotations

import copy
import json
import random

from coqemit import cbool, cstr
from props import serial_common as sc

ID = "C13"
FACTS = ["Serial", "Bool"]
COQ_HEADER = "From SPV Require Import CorrDefs.CorrC13."
COQ_CASE_TYPE = "case"
RULE = ("C05's random dataclass trees (depth <= 3, thorough 4; Serializable / FrozenSerializable / plain at every level) where each "
        "field independently gets to_dict=False / encoding_fn / decoding_fn / both with probability 0.3, values include OrderedDict "
        "values and tuple-keyed dicts; per case: structure walk of to_dict(x), json.dumps and yaml.safe_dump acceptance, id()-"
        "disjointness and a mutation probe on every mutable node of the instance and of the output (both directions), "
        "from_dict(to_dict(x)) with argument snapshot + aliasing probe, and the output of an == twin whose sets were filled in "
        "the reverse order (plus dedicated Set[int] pairs such as {0,8}/{8,0}). Non-trivial = to_dict returned; distinct by case.")
TRUSTED = ["the probes (id() walk, one mutation per mutable node, deep canonical comparison) are part of the harness",
           "encoding_fn k = lambda v: [k, type(v).__name__], decoding_fn k = lambda p: [k, deepcopy(p)] (CorrDefs/CorrSerial.v)"]
ASSUMPTIONS = ["set iteration order is an input of the model (the observed order is passed in); PYTHONHASHSEED=0",
               "a field with an encoding_fn but no decoding_fn is never of type str / Union containing str (repr of a list is not modelled)"]


def _strip_opt(t):
    return t[1] if t[0] == "opt" else t


def _fix_hooks(T):
    """enc-only hooks on str-like fields would need repr(list) in the model: give them a decoding_fn too"""
    for d in sc.dcs_in(T):
        for f in d[3]:
            t = _strip_opt(f[3])
            strlike = t[0] == "str" or (t[0] == "union" and any(x[0] == "str" for x in t[1]))
            if f[1]["enc"] is not None and f[1]["dec"] is None and strlike:
                f[1]["dec"] = 50 + f[1]["enc"]
    return T


def _sync_meta(T, v):
    """values carry their class's field metadata: refresh after _fix_hooks"""
    if v[0] == "dc":
        byname = {d[2]: d for d in sc.dcs_in(T)}
        d = byname[v[2]]
        for f, tf in zip(v[3], d[3]):
            f[1] = tf[1]
            _sync_meta(T, f[2])
    elif v[0] in ("list", "tup", "set"):
        for x in v[1]:
            _sync_meta(T, x)
    elif v[0] == "dict":
        for a, b in v[2]:
            _sync_meta(T, b)
    return v


def gen(tier, seed):
    rng = random.Random(f"C13-{seed}")
    thorough = tier == "thorough"
    namer = sc.Namer()
    kinds = ["ser", "frozen", "plain"]
    cases = []
    # 1. dedicated equal-set pairs and defect probes
    for pair in ([0, 8], [8, 16], [1, 9], [0, 16, 8], [3, 4], [7, -1]):
        for kind in kinds:
            name = namer.fresh()
            T = ["dc", kind, name, [["f0", dict(sc.PLAIN_META), None, ["set", ["int"]]]]]
            v = ["dc", kind, name, [["f0", dict(sc.PLAIN_META), ["set", [["int", str(z)] for z in pair]]]]]
            cases.append(dict(ty=T, val=v, stream="setorder"))
    for kind in kinds:
        name = namer.fresh()
        T = ["dc", kind, name, [["f0", dict(sc.PLAIN_META), None, ["dict", ["str"], ["int"]]],
                                ["f1", dict(sc.PLAIN_META), None, ["dict", ["tup", [["int"], ["int"]]], ["int"]]]]]
        v = ["dc", kind, name, [["f0", dict(sc.PLAIN_META), ["dict", True, [[["str", "a"], ["int", "1"]]]]],
                                ["f1", dict(sc.PLAIN_META), ["dict", False, [[["tup", [["int", "1"], ["int", "2"]]], ["int", "3"]]]]]]]
        cases.append(dict(ty=T, val=v, stream="defect-probe"))
    # 2. hook-free trees with OrderedDict values / tuple keys
    n_plain = 350 if not thorough else 5000
    for i in range(n_plain):
        depth = rng.choice([1, 2, 2, 3] if not thorough else [1, 2, 3, 3, 4])
        opts = dict(unions=rng.random() < 0.3, kinds=kinds, odict=rng.random() < 0.25, tuple_keys=rng.random() < 0.25)
        T = sc.norm_unions(sc.gen_dc(rng, depth, namer, opts, kind=kinds[i % 3]))
        v = sc.gen_value(rng, T, opts)
        cases.append(dict(ty=T, val=v, stream="tree"))
    # 3. trees with metadata subsets
    n_hook = 750 if not thorough else 12000
    for i in range(n_hook):
        depth = rng.choice([1, 2, 2, 3] if not thorough else [1, 2, 3, 3, 4])
        opts = dict(unions=rng.random() < 0.3, kinds=kinds, hooks=0.3)
        T = _fix_hooks(sc.norm_unions(sc.gen_dc(rng, depth, namer, opts, kind=kinds[i % 3])))
        v = _sync_meta(T, sc.gen_value(rng, T, opts))
        cases.append(dict(ty=T, val=v, stream="hooks"))
    # 4. dicts produced with save_dc_types=True: nested dataclasses, a subclass instance in a base-typed field
    n_typed = 150 if not thorough else 2500
    made = 0
    while made < n_typed:
        c = _typed_case(rng, namer, kinds)
        if '"_type_"' in json.dumps([c["val"], c["ty"]]):
            continue                      # a str value / dict key spelled like DC_TYPE_KEY: strip_key would touch it
        cases.append(c)
        made += 1
    return cases


def _simple_fields(rng, namer, n, prefix, opts):
    out = []
    for i in range(n):
        t = sc.gen_type(rng, rng.choice([0, 1]), namer, dict(opts, kinds=["ser", "frozen", "plain"]))
        while "dc" in sc.kinds_in(t):
            t = sc.gen_scalar_type(rng)
        out.append([f"{prefix}{i}", dict(sc.PLAIN_META), sc.gen_value(rng, t, opts), t])
    return out


def _inst(rng, node, opts):
    return ["dc", node[1], node[2], [[f[0], f[1], sc.gen_value(rng, f[3], opts)] for f in node[3]]]


def _typed_case(rng, namer, kinds):
    """Container(item: Base, opt: Optional[Base], inner: Inner(item: Base2), xs: List[Base]) where the base-typed fields may
    hold an instance of a subclass; static tree = annotations, runtime tree = the classes of the instance"""
    opts = dict(unions=False)
    bk = rng.choice(kinds)

    def family():
        b = ["dc", bk, namer.fresh(), _simple_fields(rng, namer, rng.choice([1, 2]), "a", opts)]
        d = ["dc", bk, namer.fresh(), b[3] + _simple_fields(rng, namer, rng.choice([1, 2]), "b", opts), b[2]]
        return b, d

    def pick(b, d):
        node = d if rng.random() < 0.6 else b
        return node, _inst(rng, node, opts)

    b1, d1 = family()
    b2, d2 = family()
    ck, ik = rng.choice(kinds), rng.choice(kinds)
    n1, v1 = pick(b1, d1)
    n2, v2 = pick(b2, d2)
    inner_name, cont_name = namer.fresh(), namer.fresh()
    other = _simple_fields(rng, namer, 1, "z", opts)[0]
    use_opt = rng.random() < 0.5
    n3, v3 = pick(b1, d1)
    if use_opt and rng.random() < 0.3:
        n3, v3 = b1, ["none"]
    xs_val = ["list", [_inst(rng, b1, opts) for _ in range(rng.choice([0, 1, 2]))]]   # container elements: base class only

    def inner(node):
        return ["dc", ik, inner_name, [["item", dict(sc.PLAIN_META), _inst(rng, b2, opts), node], other]]

    def cont(item_node, opt_node, inner_node):
        fs = [["item", dict(sc.PLAIN_META), _inst(rng, b1, opts), item_node],
              ["inner", dict(sc.PLAIN_META), _inst(rng, inner(b2), opts), inner_node],
              ["xs", dict(sc.PLAIN_META), ["list", []], ["list", b1]]]
        if use_opt:
            fs.append(["opt", dict(sc.PLAIN_META), ["none"], ["opt", opt_node]])
        return ["dc", ck, cont_name, fs]

    static = cont(b1, b1, inner(b2))
    runtime = cont(n1, n3, inner(n2))
    # both trees must carry the same defaults (they describe the same classes)
    for fs, fr in zip(static[3], runtime[3]):
        fr[2] = fs[2]
    runtime[3][1][3][3][0][2] = static[3][1][3][3][0][2]
    inner_val = ["dc", ik, inner_name, [["item", dict(sc.PLAIN_META), v2], [other[0], other[1], sc.gen_value(rng, other[3], opts)]]]
    fields = [["item", dict(sc.PLAIN_META), v1], ["inner", dict(sc.PLAIN_META), inner_val], ["xs", dict(sc.PLAIN_META), xs_val]]
    if use_opt:
        fields.append(["opt", dict(sc.PLAIN_META), v3])
    return dict(ty=static, rty=runtime, val=["dc", ck, cont_name, fields], stream="typed")


# --------------------------------------------------------------------------------------------------
# implementation side

def _mutable_nodes(o, seen=None, out=None):
    """every list / dict / set reachable from o (through dataclass instances and tuples)"""
    import dataclasses

    seen = set() if seen is None else seen
    out = [] if out is None else out
    if id(o) in seen:
        return out
    seen.add(id(o))
    if isinstance(o, (list, tuple)):
        if isinstance(o, list):
            out.append(o)
        for x in o:
            _mutable_nodes(x, seen, out)
    elif isinstance(o, (set, frozenset)):
        if isinstance(o, set):
            out.append(o)
        for x in o:
            _mutable_nodes(x, seen, out)
    elif isinstance(o, dict):
        out.append(o)
        for a, b in o.items():
            _mutable_nodes(a, seen, out)
            _mutable_nodes(b, seen, out)
    elif dataclasses.is_dataclass(o) and not isinstance(o, type):
        for f in dataclasses.fields(o):
            _mutable_nodes(getattr(o, f.name, None), seen, out)
    return out


_SENTINEL = "__c13_probe__"


def _mutate(node):
    if isinstance(node, list):
        node.append(_SENTINEL)
    elif isinstance(node, set):
        node.add(_SENTINEL)
    else:
        node[_SENTINEL] = _SENTINEL


def _unmutate(node):
    if isinstance(node, list):
        node.pop()
    elif isinstance(node, set):
        node.discard(_SENTINEL)
    else:
        del node[_SENTINEL]


def _snap_py(o):
    """type-exact deep snapshot of a structure of Python primitives / objects (for before/after comparison)"""
    import dataclasses

    if isinstance(o, (list, tuple)):
        return (type(o).__name__, [_snap_py(x) for x in o])
    if isinstance(o, (set, frozenset)):
        return (type(o).__name__, sorted(repr(_snap_py(x)) for x in o))
    if isinstance(o, dict):
        return (type(o).__name__, [(_snap_py(a), _snap_py(b)) for a, b in o.items()])
    if dataclasses.is_dataclass(o) and not isinstance(o, type):
        return (type(o).__name__, [(f.name, _snap_py(getattr(o, f.name, None))) for f in dataclasses.fields(o)])
    return (type(o).__name__, repr(o))


def _probe_pair(a, b):
    """a and b share no mutable node, and a mutation of any mutable node of one leaves the other unchanged"""
    na, nb = _mutable_nodes(a), _mutable_nodes(b)
    if {id(x) for x in na} & {id(x) for x in nb}:
        return False
    ok = True
    sb = _snap_py(b)
    for node in na:
        _mutate(node)
        if _snap_py(b) != sb:
            ok = False
        _unmutate(node)
    sa = _snap_py(a)
    for node in nb:
        _mutate(node)
        if _snap_py(a) != sa:
            ok = False
        _unmutate(node)
    return ok


def _reverse_sets(v):
    k = v[0]
    if k in ("list", "tup"):
        return [k, [_reverse_sets(x) for x in v[1]]]
    if k == "set":
        return ["set", list(reversed(v[1]))]
    if k == "dict":
        return ["dict", v[1], [[a, _reverse_sets(b)] for a, b in v[2]]]
    if k == "dc":
        return ["dc", v[1], v[2], [[f[0], f[1], _reverse_sets(f[2])] for f in v[3]]]
    return v


def _strip_enc_only(v, o):
    """remove from the to_dict output `o` (Python object, edited in place) the entries of fields that have an
    encoding_fn but no decoding_fn"""
    k = v[0]
    if k == "dc" and isinstance(o, dict):
        for fn, meta, x in v[3]:
            if fn not in o:
                continue
            if meta["enc"] is not None:
                if meta["dec"] is None:
                    del o[fn]
            else:
                _strip_enc_only(x, o[fn])
    elif k in ("list", "tup") and isinstance(o, list):
        for x, q in zip(v[1], o):
            _strip_enc_only(x, q)
    elif k == "dict" and isinstance(o, dict):
        for (_, x), q in zip(v[2], o.values()):
            _strip_enc_only(x, q)


def _has_big_set(v):
    k = v[0]
    if k in ("list", "tup"):
        return any(_has_big_set(x) for x in v[1])
    if k == "set":
        return len(v[1]) >= 2
    if k == "dict":
        return any(_has_big_set(b) for _, b in v[2])
    if k == "dc":
        return any(_has_big_set(f[2]) for f in v[3])
    return False


def run_impl(cases):
    import json
    import logging
    import warnings

    import yaml
    from implutil import outcome_of
    from simple_parsing.helpers.serialization import serializable as S

    warnings.simplefilter("ignore")
    logging.disable(logging.CRITICAL)
    out = []
    for case in cases:
        T = case["ty"]
        try:
            typed = case.get("rty") is not None
            ns = sc.build(T, (case["rty"],), True) if typed else sc.build(T)
            x = sc.mk(ns, case["val"])
            cls = ns[T[2]]
        except Exception as e:  # noqa: BLE001
            out.append(dict(setup_failed=f"{type(e).__name__}: {e}"[:200]))
            continue
        kind = T[1]

        def to_dict(o, **kw):
            return o.to_dict(**kw) if kind != "plain" else S.to_dict(o, **kw)

        def from_dict(d):
            return cls.from_dict(d) if kind != "plain" else S.from_dict(cls, d)

        before = sc.canon(ns, x, False)
        snap_x = _snap_py(x)
        td = outcome_of(lambda: to_dict(x))
        if td[0] != "ok":
            out.append(dict(setup_failed=None, val=before, todict=["raise", td[1]], json=False, yaml=False, fresh=True,
                            input_ok=_snap_py(x) == snap_x, arg=["none"], frm=["raise", "NoDict"], frm2=["raise", "NoDict"], arg_ok=True, from_fresh=True, twin=None))
            continue
        d = td[1]
        input_ok = _snap_py(x) == snap_x
        j = outcome_of(lambda: json.dumps(d))[0] == "ok"
        y = outcome_of(lambda: yaml.safe_dump(d))[0] == "ok"
        fresh = _probe_pair(x, d)
        d2 = to_dict(x, save_dc_types=True) if typed else to_dict(x)
        _strip_enc_only(before, d2)
        arg = sc.canon_prim(d2)
        snap_d2 = _snap_py(d2)
        r = outcome_of(lambda: from_dict(d2))
        arg_ok = _snap_py(d2) == snap_d2
        r2 = outcome_of(lambda: from_dict(d2))          # the very same dict, a second time
        arg_ok = arg_ok and _snap_py(d2) == snap_d2
        frm2 = ["ok", sc.canon(ns, r2[1], True)] if r2[0] == "ok" else ["raise", r2[1] if r2[0] == "raise" else r2[0]]
        if r[0] == "ok":
            frm = ["ok", sc.canon(ns, r[1], True)]
            from_fresh = _probe_pair(r[1], d2)
        else:
            frm = ["raise", r[1] if r[0] == "raise" else r[0]]
            from_fresh = True
        twin = None
        if _has_big_set(case["val"]):
            x2 = sc.mk(ns, _reverse_sets(case["val"]))
            if x2 == x:
                t2 = outcome_of(lambda: to_dict(x2))
                twin = ["ok", sc.canon_prim(t2[1])] if t2[0] == "ok" else ["raise", t2[1]]
        out.append(dict(setup_failed=None, val=before, todict=["ok", sc.canon_prim(d)], json=j, yaml=y, fresh=fresh,
                        input_ok=input_ok, arg=arg, frm=frm, frm2=frm2, arg_ok=arg_ok, from_fresh=from_fresh, twin=twin))
    return out


# --------------------------------------------------------------------------------------------------
# spec (Python mirror of CorrC13.spec_ok), signatures, emission

def _encf(k, v):
    names = {"none": "NoneType", "bool": "bool", "int": "int", "float": "float", "str": "str", "path": "PosixPath",
             "list": "list", "tup": "tuple", "set": "set"}
    if v[0] == "enum":
        n = v[1]
    elif v[0] == "dc":
        n = v[2]
    elif v[0] == "dict":
        n = "OrderedDict" if v[1] else "dict"
    else:
        n = names[v[0]]
    return ["list", [["int", str(k)], ["str", n]]]


def _raw_value(p):
    k = p[0]
    if k in ("none", "bool", "int", "float", "str"):
        return list(p)
    if k == "list":
        return ["list", [_raw_value(x) for x in p[1]]]
    if k == "tuple":
        return ["tup", [_raw_value(x) for x in p[1]]]
    if k == "dict":
        return ["dict", p[1], [[_raw_value(a), _raw_value(b)] for a, b in p[2]]]
    return ["other", "bad"]


def hooks_violation(v, p, path="$", via_container=False):
    """None, or (kind, path).  The kind says which class kind ignored its metadata AND how the instance was reached:
    `as-field` (to_dict's own recursion) or `in-container` (through encode(), inside a list / tuple / dict)."""
    k = v[0]
    if k == "dc":
        if p[0] != "dict":
            return ("dataclass-not-a-dict", path)
        where = v[1] + (":in-container" if via_container else ":as-field")
        want = [f[0] for f in v[3] if f[1]["incl"]]
        got = [a[1] if a[0] == "str" else None for a, _ in p[2]]
        if got != want:
            extra = [g for g in got if g not in want]
            missing = [w for w in want if w not in got]
            if extra:
                return ("to_dict-False-field-present:" + where, path + "." + str(extra[0]))
            if missing:
                return ("field-missing:" + where, path + "." + missing[0])
            return ("field-order:" + where, path)
        entries = {a[1]: b for a, b in p[2]}
        for fn, meta, x in v[3]:
            if not meta["incl"]:
                continue
            e = entries[fn]
            if meta["enc"] is not None:
                if e != _encf(meta["enc"], x):
                    # evidence of the generic branch: the entry is the plain encoding of the value
                    return ("encoding_fn-not-applied:" + where, path + "." + fn)
            else:
                # a plain dataclass reached through encode() has its own fields encoded by encode() too
                r = hooks_violation(x, e, path + "." + fn, via_container and v[1] == "plain")
                if r:
                    return r
        return None
    if k in ("list", "tup") and p[0] == "list":
        for i, (x, q) in enumerate(zip(v[1], p[1])):
            r = hooks_violation(x, q, f"{path}[{i}]", True)
            if r:
                return r
    if k == "dict" and p[0] == "dict":
        for (_, x), (_, q) in zip(v[2], p[2]):
            r = hooks_violation(x, q, path + "{}", True)
            if r:
                return r
    return None


_SCALARS = ("none", "bool", "int", "float", "str")


def non_primitive(v, p, path="$", parent=None):
    """first non-primitive node of the output p, with the input node v it stands for (None when the alignment is lost):
    (what, path, input kind, evidence) — evidence names the code path that explains it, or None"""
    k = p[0]
    if k in _SCALARS:
        return None
    vk = v[0] if v is not None else None
    if k == "list":
        kids = [None] * len(p[1])
        ctx = None
        if vk in ("list", "tup", "set") and len(v[1]) == len(p[1]):
            kids = list(v[1])
        elif vk == "dict" and len(v[2]) == len(p[1]) and any(a[0] in ("tup", "list", "set", "dict", "dc") for a, _ in v[2]):
            kids = [["__item__", a, b] for a, b in v[2]]      # encode_dict's list of (key, value) pairs
            ctx = "dict-items"
        for i, (x, q) in enumerate(zip(kids, p[1])):
            r = non_primitive(x, q, f"{path}[{i}]", ctx)
            if r:
                return r
        return None
    if k == "tuple":
        if parent == "dict-items" and v is not None and v[0] == "__item__" and len(p[1]) == 2 and p[1][0][0] == "list":
            return ("tuple", path, "dict-with-unhashable-keys", "encode_dict-items")
        return ("tuple", path, vk, None)
    if k == "dict":
        if p[1]:
            return ("OrderedDict", path, vk, "input-is-OrderedDict" if vk == "dict" and v[1] else None)
        vals = {}
        if vk == "dc":
            vals = {f[0]: (f[2] if f[1]["enc"] is None else None) for f in v[3]}
        pairs = list(v[2]) if vk == "dict" and len(v[2]) == len(p[2]) else [None] * len(p[2])
        for (a, b), kv in zip(p[2], pairs):
            if a[0] not in _SCALARS:
                return ("key:" + a[0], path, vk, None)
            child = vals.get(a[1]) if vk == "dc" and a[0] == "str" else (kv[1] if kv is not None else None)
            r = non_primitive(child, b, path + "." + str(a[1] if len(a) > 1 else a[0]), None)
            if r:
                return r
        return None
    return (p[1] if len(p) > 1 else k, path, vk, None)


def same_modulo_set_order(v, p1, p2):
    """the two outputs differ at most in the order of the lists that stand for sets of the instance"""
    if p1 == p2:
        return True
    if p1[0] != p2[0] or v is None:
        return False
    k = p1[0]
    if k == "list":
        if len(p1[1]) != len(p2[1]):
            return False
        if v[0] == "set":
            import json as _j
            return sorted(_j.dumps(x, sort_keys=True) for x in p1[1]) == sorted(_j.dumps(x, sort_keys=True) for x in p2[1])
        kids = list(v[1]) if v[0] in ("list", "tup") and len(v[1]) == len(p1[1]) else [None] * len(p1[1])
        return all(same_modulo_set_order(x, a, b) for x, a, b in zip(kids, p1[1], p2[1]))
    if k == "dict":
        if p1[1] != p2[1] or len(p1[2]) != len(p2[2]):
            return False
        if v[0] == "dc":
            vals = {f[0]: f[2] for f in v[3]}
            return all(a1 == a2 and same_modulo_set_order(vals.get(a1[1]) if a1[0] == "str" else None, b1, b2)
                       for (a1, b1), (a2, b2) in zip(p1[2], p2[2]))
        pairs = list(v[2]) if v[0] == "dict" and len(v[2]) == len(p1[2]) else [None] * len(p1[2])
        return all(a1 == a2 and same_modulo_set_order(kv[1] if kv else None, b1, b2)
                   for (a1, b1), (a2, b2), kv in zip(p1[2], p2[2], pairs))
    return False


def judge(case, obs):
    if obs.get("setup_failed"):
        return ("setup-failed", "case set-up failed: " + obs["setup_failed"])
    td = obs["todict"]
    if td[0] != "ok":
        return (f"to_dict-raised:{td[1]}", f"to_dict raised {td[1]}")
    p = td[1]
    # 1. purity problems first: none of them is a listed finding, and a listed finding in the same case must not hide them
    if not obs["fresh"]:
        return ("output-aliases-input", "to_dict output shares a mutable node with the instance")
    if not obs["input_ok"]:
        return ("to_dict-mutates-input", "to_dict changed the instance")
    if not obs["arg_ok"]:
        return ("from_dict-mutates-argument", "from_dict changed its argument")
    if obs["frm2"] != obs["frm"]:
        return ("from_dict-second-decode-differs", "decoding the same dict a second time gives a different result")
    if not obs["from_fresh"]:
        return ("from_dict-aliases-argument", "the instance built by from_dict shares a mutable node with the argument")
    # 2. only primitives
    np_ = non_primitive(obs["val"], p)
    if np_:
        what, where, vk, ev = np_
        if what == "OrderedDict":
            if ev == "input-is-OrderedDict":
                return ("non-primitive:OrderedDict", f"to_dict output holds an OrderedDict at {where} (the value there is an OrderedDict)")
            return (f"non-primitive:OrderedDict:input-{vk}", f"to_dict output holds an OrderedDict at {where} where the instance holds a {vk}")
        if what == "tuple":
            if ev == "encode_dict-items":
                return ("non-primitive:tuple", f"to_dict output holds a tuple at {where} (dict with unhashable encoded keys -> list of (key, value) tuples)")
            return (f"non-primitive:tuple:input-{vk}", f"to_dict output holds a tuple at {where} where the instance holds a {vk}")
        return (f"non-primitive:{what}", f"to_dict output holds a non-primitive ({what}) at {where}")
    if not obs["json"]:
        return ("json.dumps-rejects", "json.dumps rejects the to_dict output")
    if not obs["yaml"]:
        return ("yaml.safe_dump-rejects", "yaml.safe_dump rejects the to_dict output")
    hv = hooks_violation(obs["val"], p)
    if hv:
        return (hv[0], f"per-field metadata not honoured at {hv[1]}: {hv[0]}")
    if obs["frm"][0] == "ok" and obs["frm"][1][0] == "dc" and obs["arg"][0] == "dict":
        entries = {a[1]: b for a, b in obs["arg"][2] if a[0] == "str"}
        for fn, meta, x in obs["frm"][1][3]:
            if meta["dec"] is not None and fn in entries:
                want = ["list", [["int", str(meta["dec"])], _raw_value(entries[fn])]]
                if x != want:
                    return ("decoding_fn-not-applied", f"field {fn}: from_dict did not store decoding_fn(raw)")
    if obs["twin"] is not None and obs["twin"] != td:
        if obs["twin"][0] == "ok" and same_modulo_set_order(obs["val"], p, obs["twin"][1]):
            return ("equal-sets-different-output", "two == instances (sets filled in a different order) serialise differently: "
                                                   "same elements, the lists standing for sets are ordered differently")
        return ("equal-instances-different-output:not-a-set-order", "two == instances serialise differently, and not only in the order of set elements")
    return None


def py_spec(case, obs):
    j = judge(case, obs)
    return j[1] if j else None


def signature(case, obs, reason):
    j = judge(case, obs)
    return j[0] if j else "coq-spec-only"


def nontrivial(case, obs):
    return not obs.get("setup_failed") and obs["todict"][0] == "ok"


def features(case, obs):
    if obs.get("setup_failed"):
        return {"stream": case["stream"], "outcome": "setup_failed"}
    metas = [f[1] for d in sc.dcs_in(case["ty"]) for f in d[3]]
    ks = sc.kinds_in(case["ty"])
    return {"stream": case["stream"], "kind": case["ty"][1], "depth": sc.depth_of(case["ty"]),
            "skip": sum(1 for m in metas if not m["incl"]), "enc": sum(1 for m in metas if m["enc"] is not None),
            "dec": sum(1 for m in metas if m["dec"] is not None), "twin": obs["twin"] is not None,
            "from": obs["frm"][0] if obs["frm"][0] == "ok" else "raise:" + obs["frm"][1],
            "typed": case.get("rty") is not None, "has_set": "set" in ks, "tuple_keys": "dict[tup]" in ks, "nested_dc": len(sc.dcs_in(case["ty"])) > 1}


def to_coq(case, obs):
    if obs.get("setup_failed"):
        return (f"mkcase {sc.cty(case['ty'])} VNone (Err (Raise \"SetupFailed\")) false false false false PNone None "
                f"(Err (Raise \"SetupFailed\")) (Err (Raise \"SetupFailed\")) false false None")
    typed = "None" if case.get("rty") is None else f"(Some ({cstr(sc.TYPES_MODULE)}, {sc.cty(case['rty'])}))"
    twin = "None" if obs["twin"] is None else f"(Some {sc.cres(obs['twin'], sc.cprim)})"
    return (f"mkcase {sc.cty(case['ty'])} {sc.cvalue(obs['val'])} {sc.cres(obs['todict'], sc.cprim)} {cbool(obs['json'])} "
            f"{cbool(obs['yaml'])} {cbool(obs['fresh'])} {cbool(obs['input_ok'])} {sc.cprim(obs['arg'])} {typed} {sc.cres(obs['frm'], sc.cvalue)} {sc.cres(obs['frm2'], sc.cvalue)} "
            f"{cbool(obs['arg_ok'])} {cbool(obs['from_fresh'])} {twin}")


def shrink(case):
    if case.get("rty") is not None:
        return
    T, v = case["ty"], case["val"]
    n = len(T[3])
    if n > 1:
        for i in range(n):
            yield dict(ty=[T[0], T[1], T[2], [copy.deepcopy(T[3][i])]], val=[v[0], v[1], v[2], [copy.deepcopy(v[3][i])]],
                       stream=case["stream"])
    if n == 1:
        ft, fv = T[3][0][3], v[3][0][2]
        cands = []
        if ft[0] == "list" and fv[0] == "list":
            cands += [(ft, ["list", [x]]) for x in fv[1]] if len(fv[1]) > 1 else []
        if ft[0] == "opt" and fv[0] != "none":
            cands.append((ft[1], fv))
        if ft[0] == "dict" and fv[0] == "dict" and len(fv[2]) > 1:
            cands += [(ft, ["dict", fv[1], [e]]) for e in fv[2]]
        if ft[0] == "tup" and fv[0] == "tup":
            cands += list(zip(ft[1], fv[1]))
        if ft[0] == "dc" and fv[0] == "dc" and T[3][0][1] == sc.PLAIN_META:
            yield dict(ty=ft, val=fv, stream=case["stream"])
        for t2, v2 in cands[:6]:
            f = copy.deepcopy(T[3][0])
            f[3] = t2
            f[2] = None if f[2] is None else v2
            yield dict(ty=[T[0], T[1], T[2], [f]], val=[v[0], v[1], v[2], [[v[3][0][0], v[3][0][1], v2]]], stream=case["stream"])
