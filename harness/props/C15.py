"""C15 — a file written by save() reproduces the instance when it is used as a config file."""
from __future__ import annotations

import os
import random

import leafdsl as L
from coqemit import clist, copt, cpair, cstr, outcome

ID = "C15"
FACTS = ["Bool", "Leaf", "ConfigLoop"]
COQ_HEADER = "From SPV Require Import CorrDefs.CorrC15."
COQ_CASE_TYPE = "case"
RULE = ("corpus/C15 (minimised past failures) first; kw_only dataclasses (1-5 leaves, up to 2 levels of nested dataclasses; nested members declared with default_factory=Class, "
        "default_factory=lambda: Class(leaf=..), without a default, or as `Optional[Class] = None` holding an instance or None) whose leaves range over the intersection of the CLI and the "
        "serialization grammars {int, float (exact short decimals), str, bool, Enum, Path, Optional[T], List[T], Tuple[..] fixed "
        "(homogeneous / heterogeneous) and variadic, Optional of a container}; each leaf has a definition default (or is required) and "
        "an instance value, both from the leafdsl pools (big ints, '', digit-like / 'True' / 'none' strings, non-ASCII, every enum "
        "member, empty containers, None); the instance is written with save() (Serializable.save on Serializable subclasses, or the "
        "module-level save() on plain dataclasses) to .json/.yaml/.yml/.pkl in a scratch directory and read back with an EMPTY "
        "command line through {constructor config_path=, --config_path} x {parse() with the un-rooted layout, ArgumentParser with the "
        "file keyed by the destination}; a fresh parser per parse. A two-step stream saves a second, different instance of the same class "
        "to the SAME path and parses again in the same process (the second result must be the second instance; 32 fixed + sampled, all "
        "formats and routes). Block 1 enumerates every (leaf type shape, pool value) pair as a "
        "single-leaf class over all 16 format x route combinations (rotating); block 2 samples trees from VERIF_SEED. "
        "Non-trivial = the file was written and parsed (any outcome); distinct by full case.")
TRUSTED = [
    "json.load(json.dump(d)) = yaml.safe_load(yaml.dump(d)) = pickle.load(pickle.dump(d)) = d for documents made of dicts with str keys, "
    "lists, ints, exact short-decimal floats, str, bool and None (Model/ConfigLoop.v transport)",
    "argparse (3.12): a default that is a str is passed through the action's type= callable at the end of parsing when the option did "
    "not occur; any other default is used as it is; choices are not checked on defaults",
    "dataclasses: Class(**kwargs) stores the keyword values unchanged; getattr(Class(), f) is f's definition default",
]
ASSUMPTIONS = [
    "field names are distinct within a class; enum classes keep the default truthiness and have no aliases; paths are written in normalised form",
    "floats are finite with short exact decimal representations (repr round-trips through json and yaml)",
    "save_dc_types is left at its default (False)",
]

WORK = os.path.join(os.path.dirname(os.path.dirname(os.path.dirname(os.path.abspath(__file__)))), ".work")
FMTS = ["json", "yaml", "yml", "pkl"]
VIAS = ["ctor", "cli"]
APIS = ["parse", "ap"]
SAVERS = ["method", "function"]
COLOR = {"k": "enum", "name": "Color", "members": L.ENUMS["Color"]}
# Enums with a mixed-in data type are Enums too (members ARE ints / strs, which is what makes them interesting: a falsy member,
# a member that passes isinstance(x, int) / isinstance(x, str) tests meant for plain values)
PRIO = {"k": "enum", "name": "Prio", "members": ["ZERO", "LOW", "HIGH"]}
TAG = {"k": "enum", "name": "Tag", "members": ["EMPTY", "A", "B"]}
MIXIN_PRELUDE = ("from enum import IntEnum\n"
                 "class Prio(IntEnum):\n    ZERO = 0\n    LOW = 1\n    HIGH = 3\n"
                 "class Tag(str, Enum):\n    EMPTY = ''\n    A = 'a'\n    B = 'b'\n")
ITEMS = [{"k": "int"}, {"k": "float"}, {"k": "str"}, {"k": "bool"}, {"k": "path"}, COLOR, PRIO, TAG]


ENUM_ENV_COQ = ('(mkenv [' + clist([cstr(m) for m in TAG["members"]]) + '] [(' + clist([cstr(m) for m in PRIO["members"]]) + ', "ZERO"); ('
                + clist([cstr(m) for m in TAG["members"]]) + ', "EMPTY")])')


def _mixins(rng, t):
    """replace some of the plain Enum types of a sampled type by the IntEnum / str-Enum"""
    if t["k"] == "enum":
        return rng.choice([t, t, PRIO, TAG])
    if t["k"] in ("list", "tupvar", "opt"):
        return dict(t, item=_mixins(rng, t["item"]))
    if t["k"] == "tupfix":
        same = all(x == t["items"][0] for x in t["items"])
        if same:
            it = _mixins(rng, t["items"][0])
            return dict(t, items=[it] * len(t["items"]))
        return dict(t, items=[_mixins(rng, x) for x in t["items"]])
    return t


# --------------------------------------------------------------------------------------------------
# generation


def _pool(t):
    k = t["k"]
    if k == "int":
        return [{"t": "int", "v": x} for x in L.INTS]
    if k == "float":
        return [{"t": "float", "v": repr(float(x))} for x in L.FLOATS + ["-0.0"]]      # the sign of zero must survive (compared by repr)
    if k == "str":
        return [{"t": "str", "v": x} for x in L.STRS]
    if k == "bool":
        return [{"t": "bool", "v": True}, {"t": "bool", "v": False}]
    if k == "path":
        return [{"t": "path", "v": x} for x in L.PATHS]
    if k == "enum":
        return [{"t": "enum", "c": t["name"], "v": m} for m in t["members"]]
    return []


def _leaf(name, t, default, value):
    return {"name": name, "ty": t, "default": default, "value": value}


def _rand_default(rng, t, p_required=0.2):
    if rng.random() < p_required:
        return None
    if t["k"] == "opt" and rng.random() < 0.5:
        return {"t": "none"}
    return L.rand_value(rng, t, allow_none=False)


def _rand_node(rng, counter, depth, all_defaults=False):
    """A class: 1..4 leaves and (depth permitting) 0..2 nested members."""
    cname = f"C{counter[0]}"
    counter[0] += 1
    fields = []
    for _ in range(rng.randint(1, 4)):
        t = _mixins(rng, L.rand_type(rng, allow_lit=False))
        d = _rand_default(rng, t, 0.0 if all_defaults else 0.2)
        fields.append(_leaf(f"f{len(fields)}", t, d, L.rand_value(rng, t)))
    if depth > 0:
        for _ in range(rng.choice([0, 1, 1, 2])):
            mode = rng.choice(["factory", "factory", "factory_kw", "required", "optional", "optional"])
            sub = _rand_node(rng, counter, depth - 1, all_defaults=(mode not in ("required", "optional")))
            kw = {}
            if mode == "factory_kw":
                for f in sub["fields"]:
                    if "ty" in f and rng.random() < 0.6:
                        kw[f["name"]] = L.rand_value(rng, f["ty"], allow_none=False)
            fields.append({"name": f"n{len(fields)}", "cls": sub, "mode": mode, "kw": kw, "present": rng.random() < 0.7})
    if all_defaults:
        # a class built by a default_factory must be constructible without arguments
        for f in fields:
            if "cls" in f and f["mode"] == "required":
                f["mode"] = "factory"
                _force_defaults(rng, f["cls"])
    rng.shuffle(fields)
    return {"cname": cname, "fields": fields}


def _force_defaults(rng, node):
    for f in node["fields"]:
        if "ty" in f:
            if f["default"] is None:
                f["default"] = L.rand_value(rng, f["ty"], allow_none=False)
        else:
            if f["mode"] == "required":
                f["mode"] = "factory"
            _force_defaults(rng, f["cls"])


def _revalue(rng, node, tries=6):
    """the same class tree with another instance (different from the first whenever the pools allow it)"""
    def once(n):
        return {"cname": n["cname"], "fields": [dict(f, value=L.rand_value(rng, f["ty"])) if "ty" in f
                                                else dict(f, cls=once(f["cls"]), present=rng.random() < 0.7)
                                                for f in n["fields"]]}
    for _ in range(tries):
        m = once(node)
        if intended(m) != intended(node):
            return m
    return m


def _routes(i):
    return {"fmt": FMTS[i % 4], "via": VIAS[(i // 4) % 2], "api": APIS[(i // 8) % 2], "saver": SAVERS[(i // 16) % 2]}


def corpus():
    """minimised past failures (corpus/C15/*.json, each {"why": ..., "case": ...}), replayed first on every run"""
    import glob
    import json

    d = os.path.join(os.path.dirname(WORK), "corpus", ID)
    return [json.load(open(f))["case"] for f in sorted(glob.glob(os.path.join(d, "*.json")))]


def gen(tier, seed):
    rng = random.Random(f"C15-{seed}")
    cases = corpus()
    idx = 0
    # block 1: every item type x every pool value, alone and inside each container / Optional; one leaf
    for it in ITEMS:
        for v in _pool(it):
            shapes = [(it, v), ({"k": "opt", "item": it}, v), ({"k": "list", "item": it}, {"t": "list", "v": [v]}),
                      ({"k": "tupvar", "item": it}, {"t": "tuple", "v": [v, v]}),
                      ({"k": "tupfix", "items": [it, {"k": "int"}]}, {"t": "tuple", "v": [v, {"t": "int", "v": "1"}]}),
                      ({"k": "opt", "item": {"k": "list", "item": it}}, {"t": "list", "v": [v]}),
                      ({"k": "opt", "item": {"k": "tupfix", "items": [it, it]}}, {"t": "tuple", "v": [v, v]})]
            for t, val in (shapes if tier == "thorough" else shapes[:5]):
                d = _rand_default(rng, t)
                c = {"schema": {"cname": "C0", "fields": [_leaf("f0", t, d, val)]}}
                c.update(_routes(idx))
                idx += 5          # coprime with 32: every route combination is visited
                cases.append(c)
    # None for every Optional shape, over each kind of definition default (None / a value / required), all 16 routes
    for it in ITEMS:
        for inner in (it, {"k": "list", "item": it}, {"k": "tupfix", "items": [it, it]}, {"k": "tupvar", "item": it}):
            t = {"k": "opt", "item": inner}
            for d in ({"t": "none"}, L.rand_value(rng, t, allow_none=False), None):
                c = {"schema": {"cname": "C0", "fields": [_leaf("f0", t, d, {"t": "none"})]}}
                c.update(_routes(idx))
                idx += 5
                cases.append(c)
    # empty containers
    for it in ITEMS:
        for t in ({"k": "list", "item": it}, {"k": "tupvar", "item": it}):
            empty = {"t": "list" if t["k"] == "list" else "tuple", "v": []}
            c = {"schema": {"cname": "C0", "fields": [_leaf("f0", t, _rand_default(rng, t), empty)]}}
            c.update(_routes(idx))
            idx += 5
            cases.append(c)
    # the full route product on one fixed class that exercises every constructor
    fixed = {"cname": "C0", "fields": [
        _leaf("f0", {"k": "int"}, {"t": "int", "v": "0"}, {"t": "int", "v": "3"}),
        _leaf("f1", COLOR, None, {"t": "enum", "c": "Color", "v": "BLUE"}),
        _leaf("f2", {"k": "opt", "item": {"k": "path"}}, {"t": "none"}, {"t": "path", "v": "a/b"}),
        _leaf("f3", {"k": "tupfix", "items": [{"k": "int"}, {"k": "str"}]}, None, {"t": "tuple", "v": [{"t": "int", "v": "1"}, {"t": "str", "v": "x"}]}),
        {"name": "n4", "mode": "factory", "kw": {}, "cls": {"cname": "C1", "fields": [
            _leaf("f0", {"k": "list", "item": {"k": "float"}}, {"t": "list", "v": []}, {"t": "list", "v": [{"t": "float", "v": "1.5"}]}),
            _leaf("f1", {"k": "bool"}, {"t": "bool", "v": False}, {"t": "bool", "v": True})]}}]}
    for i in range(32):
        c = {"schema": fixed}
        c.update(_routes(i))
        cases.append(c)
    # two-step stream: save x to p, parse; save y != x to the SAME p, parse again in the same process (must give y).
    # all 16 format x route combinations on the fixed class, then sampled trees
    for i in range(32):
        c = {"schema": fixed, "schema2": _revalue(rng, fixed)}
        c.update(_routes(i))
        cases.append(c)
    for _ in range(150 if tier == "quick" else 2000):
        counter = [0]
        sch = _rand_node(rng, counter, rng.choice([0, 0, 1, 2]))
        c = {"schema": sch, "schema2": _revalue(rng, sch)}
        c.update({"fmt": rng.choice(FMTS), "via": rng.choice(VIAS), "api": rng.choice(APIS), "saver": rng.choice(SAVERS)})
        cases.append(c)
    # `m: Optional[Class] = None` members: holding an instance whose leaves are all file-native (int/float/str/bool/list/None, so the
    # value read from the file IS the parsed value), holding an instance with a tuple / Enum / Path leaf, holding None; depth 1 and 2;
    # every format x route
    native = [{"k": "int"}, {"k": "float"}, {"k": "str"}, {"k": "bool"}, {"k": "list", "item": {"k": "int"}}, {"k": "opt", "item": {"k": "str"}},
              {"k": "list", "item": {"k": "str"}}, {"k": "opt", "item": {"k": "int"}}]
    for i in range(96 if tier == "quick" else 640):
        kind = i % 3
        pool = native if kind != 1 else native + [COLOR, {"k": "path"}, {"k": "tupfix", "items": [{"k": "int"}, {"k": "str"}]}]
        leaves = []
        for j in range(rng.randint(1, 3)):
            t = rng.choice(pool)
            d = _rand_default(rng, t, 0.25)
            v = L.rand_value(rng, t) if rng.random() < 0.6 or d is None else d      # often exactly the definition default
            leaves.append(_leaf(f"f{j}", t, d, v))
        member = {"cname": "C2", "fields": leaves}
        if i % 2:
            member = {"cname": "C1", "fields": [_leaf("f0", {"k": "int"}, {"t": "int", "v": "0"}, {"t": "int", "v": rng.choice(L.INTS)}),
                                                {"name": "n1", "cls": member, "mode": "optional", "kw": {}, "present": kind != 2 or rng.random() < 0.5}]}
        root = {"cname": "C0", "fields": [_leaf("f0", {"k": "str"}, {"t": "str", "v": "d"}, {"t": "str", "v": rng.choice(L.STRS)}),
                                          {"name": "n1", "cls": member, "mode": "optional", "kw": {}, "present": kind != 2 or bool(i % 2)}]}
        c = {"schema": root}
        c.update(_routes(idx))
        idx += 5
        cases.append(c)
    # block 2: random trees
    n = 1500 if tier == "quick" else 15000
    for _ in range(n):
        counter = [0]
        c = {"schema": _rand_node(rng, counter, rng.choice([0, 0, 1, 1, 2]))}
        c.update({"fmt": rng.choice(FMTS), "via": rng.choice(VIAS), "api": rng.choice(APIS), "saver": rng.choice(SAVERS)})
        cases.append(c)
    return cases


# --------------------------------------------------------------------------------------------------
# source text of the classes and of the instance


def _classes(node, saver, out):
    for f in node["fields"]:
        if "cls" in f:
            _classes(f["cls"], saver, out)
    base = "(Serializable)" if saver == "method" else ""
    lines = ["@dataclass(kw_only=True)", f"class {node['cname']}{base}:"]
    for f in node["fields"]:
        if "ty" in f:
            ann = L.annotation(f["ty"])
            if f["default"] is None:
                lines.append(f"    {f['name']}: {ann}")
            else:
                lines.append(f"    {f['name']}: {ann} = {L.default_src(f['default'])}")
        else:
            cn = f["cls"]["cname"]
            if f["mode"] == "optional":
                lines.append(f"    {f['name']}: Optional[{cn}] = None")
            elif f["mode"] == "required":
                lines.append(f"    {f['name']}: {cn}")
            elif f["mode"] == "factory":
                lines.append(f"    {f['name']}: {cn} = field(default_factory={cn})")
            else:
                kw = ", ".join(f"{k}={L.value_py(v)}" for k, v in f["kw"].items())
                lines.append(f"    {f['name']}: {cn} = field(default_factory=lambda: {cn}({kw}))")
    out.append("\n".join(lines) + "\n")


def source(case):
    out = [L.PRELUDE, MIXIN_PRELUDE, "from simple_parsing import Serializable\n"]
    _classes(case["schema"], case["saver"], out)
    return "\n".join(out)


def instance_src(node):
    args = []
    for f in node["fields"]:
        if "ty" in f:
            args.append(f"{f['name']}={L.value_py(f['value'])}")
        elif _absent(f):
            args.append(f"{f['name']}=None")
        else:
            args.append(f"{f['name']}={instance_src(f['cls'])}")
    return f"{node['cname']}({', '.join(args)})"


def _absent(f):
    """an `Optional[Class] = None` member that holds None in the instance"""
    return f.get("mode") == "optional" and not f.get("present", True)


def intended(node):
    """the instance as the tree of canonical values the property demands back"""
    return [[f["name"], f["value"] if "ty" in f else ({"t": "none"} if _absent(f) else intended(f["cls"]))] for f in node["fields"]]


def _msg(text):
    """the telling part of a message: for argparse's usage + error output, the error line"""
    lines = [ln for ln in text.strip().splitlines() if ln.strip()]
    err = [ln for ln in lines if ": error: " in ln]
    return (err[-1].split(": error: ", 1)[1] if err else text.strip())[:300]


def _tree_of_obj(v, ns):
    """a dataclass instance -> [[name, canonical value | subtree]]; every nested dataclass must be an instance of the class declared in
    THIS case's namespace (class names repeat from case to case), every path exactly a pathlib.Path"""
    import dataclasses
    import pathlib

    from implutil import canon

    out = []
    for f in dataclasses.fields(v):
        try:
            a = getattr(v, f.name)
        except AttributeError:
            out.append([f.name, {"t": "unset"}])
            continue
        if dataclasses.is_dataclass(a) and not isinstance(a, type):
            if ns.get(type(a).__name__) is not type(a):
                out.append([f.name, {"t": "other", "c": type(a).__name__ + "!not-the-declared-class", "v": ""}])
            else:
                out.append([f.name, _tree_of_obj(a, ns)])
        else:
            c = canon(a)
            out.append([f.name, _mark_paths(a, c)])
    return out


def _mark_paths(a, c):
    import pathlib
    if isinstance(a, pathlib.PurePath) and type(a) is not type(pathlib.Path()):
        return {"t": "other", "c": "path!" + type(a).__name__, "v": str(a)}
    if isinstance(a, (list, tuple)) and isinstance(c.get("v"), list):
        return dict(c, v=[_mark_paths(x, y) for x, y in zip(a, c["v"])])
    return c


def _foreign(c):
    """the canonical value carries a not-the-declared-class mark (on itself or on an item)"""
    if not isinstance(c, dict):
        return False
    if "!" in str(c.get("c", "")) and c.get("t") in ("enum", "other"):
        return True
    return isinstance(c.get("v"), list) and any(_foreign(x) for x in c["v"])


def _read_back(path, fmt):
    """the document in the file -> {"d": {key: sub}} for mappings, implutil.canon for everything else (key order is not kept: yaml.dump sorts)"""
    from implutil import canon

    if fmt == "json":
        import json
        doc = json.load(open(path))
    elif fmt == "pkl":
        import pickle
        doc = pickle.load(open(path, "rb"))
    else:
        import yaml
        doc = yaml.safe_load(open(path))

    def norm(x):
        if isinstance(x, dict):
            return {"d": {str(k): norm(v) for k, v in x.items()}}
        return canon(x)
    return norm(doc)


def _enc(v):
    """the primitive save() is expected to write for a value (Enum -> name, Path -> str, tuple / list -> list)"""
    if v["t"] in ("enum", "path"):
        return {"t": "str", "v": v["v"]}
    if v["t"] in ("list", "tuple"):
        return {"t": "list", "v": [_enc(x) for x in v["v"]]}
    return {k: x for k, x in v.items() if k != "c"}


def expected_doc(node):
    return {"d": {f["name"]: (_enc(f["value"]) if "ty" in f else ({"t": "none"} if _absent(f) else expected_doc(f["cls"])))
                  for f in node["fields"]}}


def _file_at(case, obs, path):
    """what the file holds at a dotted field path: a canonical value, a {"d": ..} section, or "<missing>" """
    doc = obs.get("file")
    if case["api"] == "ap":
        doc = (doc or {}).get("d", {}).get("cfg") if isinstance(doc, dict) else None
    for part in path.split("."):
        if not isinstance(doc, dict) or "d" not in doc or part not in doc["d"]:
            return "<missing>"
        doc = doc["d"][part]
    return doc


def _tree_of(canon_dc):
    """implutil.canon of a dataclass instance -> [[name, canon value | subtree]]"""
    out = []
    for name, v in canon_dc["v"]:
        out.append([name, _tree_of(v) if isinstance(v, dict) and v.get("t") == "dc" else v])
    return out


# --------------------------------------------------------------------------------------------------
# implementation side


def run_impl(cases):
    import shutil

    from implutil import canon, outcome_of, reset_simple_parsing_state, set_current_ns

    scratch = os.path.join(WORK, f"C15-files-{os.getpid()}")
    os.makedirs(scratch, exist_ok=True)
    out = []
    try:
        for ci, case in enumerate(cases):
            reset_simple_parsing_state()
            path = os.path.join(scratch, f"c{ci}.{case['fmt']}")
            ns = {}
            steps = [case["schema"]] + ([case["schema2"]] if case.get("schema2") else [])
            obs_steps = []
            for si, schema in enumerate(steps):
                st = {"stage": "build"}

                def go():
                    from simple_parsing import ArgumentParser, parse
                    from simple_parsing.helpers.serialization import save, to_dict

                    if si == 0:
                        exec(compile(source(case), "<c15>", "exec", dont_inherit=True), ns)
                    set_current_ns(ns)          # canon: an Enum member of a same-named class of another case is not the declared type
                    root = ns[schema["cname"]]
                    x = eval(compile(instance_src(schema), "<c15-inst>", "eval", dont_inherit=True), ns)
                    st["built"] = _tree_of_obj(x, ns)
                    st["stage"] = "save"
                    if case["api"] == "parse":
                        if case["saver"] == "method":
                            x.save(path)
                        else:
                            save(x, path)
                    else:
                        save({"cfg": x.to_dict() if case["saver"] == "method" else to_dict(x)}, path)
                    # what save() wrote, read back by the harness itself (json / yaml / pickle directly, not through the library)
                    st["file"] = _read_back(path, case["fmt"])
                    st["stage"] = "parse"
                    # a fresh parser for every parse
                    if case["api"] == "parse":
                        if case["via"] == "ctor":
                            got = parse(root, config_path=path, args=[])
                        else:
                            got = parse(root, args=["--config_path", path], add_config_path_arg=True)
                    else:
                        if case["via"] == "ctor":
                            p = ArgumentParser(config_path=path)
                            p.add_arguments(root, "cfg")
                            got = p.parse_args([]).cfg
                        else:
                            p = ArgumentParser(add_config_path_arg=True)
                            p.add_arguments(root, "cfg")
                            got = p.parse_args(["--config_path", path]).cfg
                    if type(got) is not root:       # the declared CLASS, not a same-named one
                        c = canon(got)
                        same_name = type(got).__name__ == root.__name__
                        return {"t": "other", "c": str(c.get("c")) + ("!not-the-declared-class" if same_name else ""), "v": str(c)[:200]}
                    st["eq"] = bool(got == x)       # the statement's own notion: the dataclass __eq__
                    return _tree_of_obj(got, ns)

                reset_simple_parsing_state()
                r = outcome_of(go)
                obs_steps.append({"stage": st["stage"], "built_ok": st.get("built") == intended(schema),
                                  "outcome": r[:2] if r[0] != "ok" else ["ok"], "inst": r[1] if r[0] == "ok" else None,
                                  "eq": st.get("eq"), "file": st.get("file"),
                                  "msg": (_msg(r[2]) if len(r) > 2 and isinstance(r[2], str) else "") if r[0] != "ok" else ""})
            try:
                os.remove(path)
            except OSError:
                pass
            o = obs_steps[0]
            if len(obs_steps) > 1:
                o["step2"] = obs_steps[1]       # the SAME path, overwritten by the second save(), parsed again in the same process
            out.append(o)
    finally:
        shutil.rmtree(scratch, ignore_errors=True)
    return out


# --------------------------------------------------------------------------------------------------
# spec (Python mirror of Model/ConfigLoopSpec.v), signatures, Coq emission


def _shape(t):
    k = t["k"]
    if k in ("list", "tupvar", "opt"):
        return f"{k}[{_shape(t['item'])}]"
    if k == "tupfix":
        inner = sorted({_shape(x) for x in t["items"]})
        return "tupfix[" + "+".join(inner) + "]"
    return k


def _diffs(node, got, path=""):
    """[(path, field, got value)] for every leaf whose observed value differs from the saved one"""
    out = []
    if not isinstance(got, list) or [g[0] for g in got] != [f["name"] for f in node["fields"]]:
        return [(path, None, got)]
    for f, (_, g) in zip(node["fields"], got):
        p = path + "." + f["name"] if path else f["name"]
        if "ty" in f:
            if g != f["value"]:
                out.append((p, f, g))
        elif _absent(f):
            if g != {"t": "none"}:
                out.append((p, None, g))
        else:
            out += _diffs(f["cls"], g, p)
    return out


KNOWN_CLASSES = ("null-saved:definition-default-back", "items-stay-str:enum", "items-stay-str:path", "items-stay-str:enum+path")


def _findings_step(case, schema, obs):
    """every way in which one step's observation violates the property: [(signature, reason)], in field order.
    A signature names a CAUSE only when the observation carries the evidence for it; the bare symptom gets a `leaf:` signature."""
    where = f"[{case['fmt']}, {case['via']}, {case['api']}, {case['saver']}]"
    if not obs["built_ok"] and obs["stage"] != "build":
        return [("harness:instance-not-built", "harness: the instance built from the generated source is not the intended one")]
    if obs["outcome"][0] != "ok":
        sig = f"{obs['stage']}:" + ":".join(str(x) for x in obs["outcome"][:2])
        if obs["stage"] == "parse" and obs["outcome"][:2] == ["raise", "TypeError"] and "'NoneType' object is not iterable" in obs["msg"] \
                and _absent_member_with_bare_tuple(schema):
            sig = "none-member:tuple-field-without-default:TypeError"
        used = _defaults_in_use(effective(schema))
        # a member of the (str, Enum) class as the definition default of an Optional[Tag] field that falls back to it (None saved, or the
        # field sits in a member that is None): argparse sends the member (a str) through the by-name converter
        if obs["stage"] == "parse" and obs["outcome"][:2] == ["exit", 2] and "invalid Tag value: <Tag." in obs["msg"] \
                and any(t["k"] == "opt" and t["item"] == TAG and d is not None and d.get("t") == "enum" for t, d in used):
            sig = "str-enum-default:optional-field:exit2"
        # the falsy member of the (str, Enum) class as the definition default of a Tag field of a member that is None: not turned into its
        # name (`if self.default:`), then taken for a str default: Tag[str(member)]
        if obs["stage"] == "parse" and obs["outcome"][:2] == ["raise", "KeyError"] and obs["msg"] == "'Tag.EMPTY'" \
                and any(t == TAG and d == {"t": "enum", "c": "Tag", "v": "EMPTY"} for t, d in used):
            sig = "str-enum-default:falsy-member:KeyError"
        return [(sig, f"{obs['stage']} ended with {obs['outcome']} ({obs['msg']}) {where}")]
    out = []
    for p, f, g in _diffs(effective(schema), obs["inst"]):
        if f is None:
            if g == {"t": "none"}:
                out.append(("optional-member:instance->none",
                            f"member {p} (Optional[Class] = None) was saved holding an instance and came back as None {where}"))
            elif isinstance(g, dict) and "!not-the-declared-class" in str(g.get("c")):
                out.append((("member" if p else "instance") + ":not-the-declared-class",
                            f"{'member ' + p if p else 'the returned object'} is an instance of another class of the same name: {str(g)[:160]} {where}"))
            else:
                out.append(("wrong-shape" if isinstance(g, list) or g.get("t") != "dc" else "optional-member:none->instance",
                            f"returned object has the wrong shape at {p!r}: {str(g)[:200]}"))
            continue
        t, v = f["ty"], f["value"]
        in_file = _file_at(case, obs, p)
        file_ok = in_file == _enc(v)
        reason = (f"field {p}: {L.annotation(t)} (effective definition default {f['default']}) was saved as {v} and came back as {g}; "
                  f"the file holds {in_file} {where}")
        sig = "leaf:" + _shape(t) + ":" + v["t"] + "->" + str(g.get("t"))
        if _foreign(g):
            sig = "leaf:" + _shape(t) + ":not-the-declared-class"
        elif v["t"] == "none" and t["k"] == "opt" and f["default"] is not None and f["default"].get("t") != "none" and g == f["default"]:
            # the unset-sentinel defect: the file DOES hold null for the key, and exactly the (effective) definition default comes back
            sig = "null-saved:definition-default-back" if in_file == {"t": "none"} else \
                "null-saved:definition-default-back:file-holds-" + (in_file if isinstance(in_file, str) else str(in_file.get("t", "section")))
        elif v["t"] in ("list", "tuple") and g.get("t") == v["t"] and len(g["v"]) == len(v["v"]):
            pairs = [(a, b) for a, b in zip(v["v"], g["v"]) if a != b]
            # the items-not-converted defect: the file holds the str encodings, and exactly those come back, in order, in the right container
            if pairs and all(a["t"] in ("enum", "path") and b == {"t": "str", "v": a["v"]} for a, b in pairs):
                sig = "items-stay-str:" + "+".join(sorted({a["t"] for a, _ in pairs})) + ("" if file_ok else ":file-differs")
        out.append((sig, reason))
    if not out and obs.get("eq") is False:
        out.append(("same-canonical-form-but-not-equal", f"the returned instance has the saved instance's canonical form but `==` is False {where}"))
    return out


def _findings(case, obs):
    out = list(_findings_step(case, case["schema"], obs))
    if case.get("schema2"):
        o2 = obs["step2"]
        stale = o2["outcome"][0] == "ok" and o2["inst"] == obs["inst"] and o2["inst"] != intended(case["schema2"])
        for sig, reason in _findings_step(case, case["schema2"], o2):
            reason = "second save() to the same path, parsed again in the same process: " + reason
            if sig in KNOWN_CLASSES:      # the evidence (what the NEW file holds at that key) is part of the signature
                out.append((sig, reason))
            elif stale:
                out.append(("step2:first-instance-back", reason))
            else:
                out.append(("step2:" + sig, reason))
    return out


def _verdict(case, obs):
    """the finding reported for the case: the first one that is not a listed defect class (so that a listed defect in one field cannot
    hide another defect in a later field or in the second step), else the first"""
    fs = _findings(case, obs)
    if not fs:
        return None
    for sig, reason in fs:
        if sig not in KNOWN_CLASSES:
            return sig, reason
    return fs[0]


def py_spec(case, obs):
    v = _verdict(case, obs)
    return v[1] if v else None


def _defaults_in_use(node, absent=False):
    """(type, effective definition default) of every leaf whose value the parser takes from the definition default: None was saved for
    it, or it belongs to an `Optional[Class] = None` member that is None"""
    out = []
    for f in node["fields"]:
        if "ty" in f:
            if absent or f["value"].get("t") == "none":
                out.append((f["ty"], f["default"]))
        else:
            out += _defaults_in_use(f["cls"], absent or _absent(f))
    return out


def _bare_tuple_inside(node):
    for f in node["fields"]:
        if "ty" in f:
            if f["ty"]["k"] in ("tupfix", "tupvar") and (f["default"] is None or f["default"].get("t") == "none"):
                return True
        elif _bare_tuple_inside(f["cls"]):
            return True
    return False


def _absent_member_with_bare_tuple(node):
    """an `Optional[Class] = None` member holding None whose class (at any depth) has a Tuple field without a definition default"""
    for f in node["fields"]:
        if "cls" in f:
            if _absent(f):
                if _bare_tuple_inside(f["cls"]):
                    return True
            elif _absent_member_with_bare_tuple(f["cls"]):
                return True
    return False


def signature(case, obs, reason):
    v = _verdict(case, obs)
    return v[0] if v else "other"


def nontrivial(case, obs):
    return obs["stage"] == "parse"


def _leaves(node):
    for f in node["fields"]:
        if "ty" in f:
            yield f
        else:
            yield from _leaves(f["cls"])


def _depth(node):
    return 1 + max([_depth(f["cls"]) for f in node["fields"] if "cls" in f] or [0])


def features(case, obs):
    leaves = list(_leaves(case["schema"]))
    d = {"fmt": case["fmt"], "via": case["via"], "api": case["api"], "saver": case["saver"], "depth": _depth(case["schema"]),
         "nleaves": min(len(leaves), 8), "outcome": obs["outcome"][0], "steps": 2 if case.get("schema2") else 1, "first_leaf": _shape(leaves[0]["ty"])[:40]}
    return d


def effective(node, under_opt=False):
    """the class tree with every nested leaf's definition default replaced by what FieldWrapper.default falls back to: the attribute
    of the enclosing member's default instance (default_factory=lambda: Class(leaf=..)) when it names the leaf, else the class's own"""
    fs = []
    for f in node["fields"]:
        if "ty" in f:
            fs.append(f)
        else:
            inside = under_opt or f["mode"] == "optional"
            sub = effective(f["cls"], inside)
            if f["mode"] == "factory_kw" and f["kw"] and not under_opt:
                sub = {"cname": sub["cname"], "fields": [dict(g, default=f["kw"][g["name"]]) if ("ty" in g and g["name"] in f["kw"]) else g
                                                         for g in sub["fields"]]}
            fs.append(dict(f, cls=sub))
    return {"cname": node["cname"], "fields": fs}


def _schema_coq(node):
    fs = []
    for f in node["fields"]:
        if "ty" in f:
            fs.append(cpair(cstr(f["name"]), f"(SLeaf {L.ty_coq(f['ty'])} "
                            + (copt(L.value_coq(f["default"])) if f["default"] is not None else "None") + ")"))
        else:
            sub = _schema_coq(f["cls"])
            fs.append(cpair(cstr(f["name"]), f"(SOpt {sub})" if f["mode"] == "optional" else sub))
    return "(SNode " + clist(fs) + ")"


def _inst_coq(tree):
    fs = []
    for name, v in tree:
        if isinstance(v, list):
            fs.append(cpair(cstr(name), _inst_coq(v)))
        else:
            try:
                if _foreign(v):            # an instance / member of a same-named class of another case, or a path of another class
                    raise L.OutOfScope("not the declared class")
                fs.append(cpair(cstr(name), f"(ILeaf {L.value_coq(v)})"))
            except L.OutOfScope:
                fs.append(cpair(cstr(name), f"(IOpaque {cstr(str(v.get('t')) + ':' + str(v.get('c', '')))})"))
    return "(INode " + clist(fs) + ")"


def _obs_coq(obs):
    if obs["outcome"][0] == "ok":
        inst = obs["inst"]
        return "(Ok " + (_inst_coq(inst) if isinstance(inst, list) else f"(IOpaque {cstr('not-an-instance')})") + ")"
    return outcome(obs["outcome"])


def to_coq(case, obs):
    step2 = "None"
    if case.get("schema2"):
        step2 = "(Some " + cpair(_inst_coq(intended(case["schema2"])), _obs_coq(obs["step2"])) + ")"
    via = "RCtor" if case["via"] == "ctor" else "RCli"
    api = "AParse" if case["api"] == "parse" else "AParser"
    return (f"mkcase {ENUM_ENV_COQ} {_schema_coq(effective(case['schema']))} {_inst_coq(intended(case['schema']))} {cstr('.' + case['fmt'])} {via} {api} "
            f"{_obs_coq(obs)} {step2}")


def _both(case, f):
    """apply the same structural edit to the class tree of both steps"""
    c = dict(case, schema=f(case["schema"]))
    if case.get("schema2"):
        c["schema2"] = f(case["schema2"])
    return c


def shrink(case):
    node = case["schema"]
    fs = node["fields"]
    if len(fs) > 1:
        for i in range(len(fs)):
            yield _both(case, lambda n, i=i: {"cname": n["cname"], "fields": n["fields"][:i] + n["fields"][i + 1:]})
    for i, f in enumerate(fs):
        if "cls" in f:
            yield _both(case, lambda n, i=i: n["fields"][i]["cls"])      # hoist the nested class
    if case.get("schema2"):
        yield {k: v for k, v in case.items() if k != "schema2"}
        yield dict({k: v for k, v in case.items() if k != "schema2"}, schema=case["schema2"])
    for k, v in (("fmt", "json"), ("via", "ctor"), ("api", "parse"), ("saver", "function")):
        if case[k] != v:
            yield dict(case, **{k: v})
