"""C07 — a subgroup / sub-command choice selects the type, its defaults and its options."""
from __future__ import annotations

import glob
import itertools
import json
import os
import random

from coqemit import cbool, clist, copt, cpair, cstr, cstrlist, cZ, outcome

ID = "C07"
FACTS = ["Subgroups", "SubgroupsSrc"]
COQ_HEADER = "From SPV Require Import CorrDefs.CorrC07."
COQ_CASE_TYPE = "case"
RULE = ("subgroup trees built from generated source text (`simple_parsing.subgroups`, `functools.partial`, frozen dataclass instances): "
        "1-2 subgroup fields per level, nesting depth <= 2 (thorough <= 3), 2-3 alternatives per field drawn from the three kinds "
        "(type / partial / frozen instance) over classes that share leaf and subgroup field names (so the conflict resolver adds "
        "prefixes; the registered spellings are read from the implementation case by case, never predicted), defaults given as key / "
        "default_factory / frozen instance or absent (required). Per tree: configurations (every key or absence per visible field, "
        "all of them for small trees, sampled otherwise) x subsets of overridden leaves (none, all, sampled) x one foreign option "
        "(leaf or subgroup option of an unselected alternative; when it happens to be a proper prefix of a registered spelling the "
        "specification is silent: argparse's prefix matching is set aside) x unknown keys x missing required keys x repeated options (last wins) "
        "x non-int values x `--o v` / `--o=v`; a stream of sibling subgroup fields resolved in one round (frozen instance first, then "
        "types / partials sharing leaf names with it or having a leaf it lacks, every key combination); a stream of falsy partial keywords / frozen-instance attributes (0, False, '', 0.0, []) on int / bool / str / float / list "
        "fields, as chosen key and as declared default key, at depth 1-3 (falsy values also appear at random in every other tree); a stream of abbreviated spellings; and Union[A, B] sub-command fields (options before / "
        "after the sub-command token, of the chosen / another member, default_factory or required). A fresh ArgumentParser per case. "
        "Non-trivial = at least one option written and the tree has a subgroup or sub-command field; distinct by full case.")
TRUSTED = ["the registered option spellings (FieldWrapper.option_strings per destination) are read from the implementation and given to "
           "the model as its option table; the model decides which destinations are registered, not how they are spelled",
           "argparse: `--o v` and `--o=v` are the same occurrence; unknown options and their values are skipped by parse_known_args; "
           "sub-command token hands the rest of the command line to the member's parser (segmentation not modelled)"]
ASSUMPTIONS = ["leaf fields have defaults; fields named flag / name / ratio / tags are bool / str / float / List[int], their values are "
               "compared through a fixed code book (index of the value, 0 = the falsy one) and their options are never written; all other "
               "leaf fields are `int`; values written are decimal digit strings or lower-case words (no sign, no blanks)",
               "no token written as a value starts with '-'", "only long (`--`) spellings are written on the command line"]
EXHAUSTIVE = {"quick": False, "thorough": False}

ROOT = "c"
LEAFN = ["lr", "x", "mom", "wd", "flag", "name", "ratio", "tags"]
# Leaf fields of other types than int.  The type goes with the field NAME; the model (int leaves) sees the index of the value in
# the type's code book (0 = the falsy value of the type), the generated source text and the observation use the value itself.
# Options of these fields are never written on the command line (their token grammar belongs to C02 / C04 / C12).
LEAF_TYPES = {"flag": "bool", "name": "str", "ratio": "float", "tags": "list"}
CODEBOOK = {"bool": [False, True], "str": ["", "bob", "al", "zed"], "float": [0.0, 2.5, 1.5, 3.5], "list": [[], [1, 2], [3], [4, 5, 6]]}
ANNOT = {"int": "int", "bool": "bool", "str": "str", "float": "float", "list": "List[int]"}


def ltype(name):
    return LEAF_TYPES.get(name, "int")


def is_int_leaf(dest):
    return ltype(dest.rsplit(".", 1)[-1]) == "int"


def lit(name, code):
    t = ltype(name)
    return repr(code) if t == "int" else repr(CODEBOOK[t][code])


def leaf_decl(name, code):
    t = ltype(name)
    if t == "list":
        return f"    {name}: List[int] = field(default_factory=lambda: {lit(name, code)})"
    return f"    {name}: {ANNOT[t]} = {lit(name, code)}"


def decode(name, v):
    """observed value -> the model's int; '?..' when it is not a value of the field's type / code book"""
    t = ltype(name)
    if t == "int":
        return v if isinstance(v, int) and not isinstance(v, bool) else "?" + type(v).__name__
    want = {"bool": bool, "str": str, "float": float, "list": list}[t]
    # exact type and exact repr: -0.0 is not 0.0, [1.0, 2.0] / [True, 2] / (1, 2) are not [1, 2]
    reprs = [repr(x) for x in CODEBOOK[t]]
    if type(v) is not want or repr(v) not in reprs:
        return "?" + repr(v)[:30]
    return reprs.index(repr(v))


def _dflt(rng, name, base):
    """class default: truthy, so that a lost falsy override shows"""
    return base if ltype(name) == "int" else rng.randrange(1, len(CODEBOOK[ltype(name)]))


def _over(rng, name, base, p_falsy=0.4):
    """value of a partial keyword / frozen instance attribute: falsy (0, False, '', 0.0, []) with probability p_falsy"""
    if rng.random() < p_falsy:
        return 0
    return base if ltype(name) == "int" else rng.randrange(0, len(CODEBOOK[ltype(name)]))
SGN = ["model", "opt", "sub", "x"]
KEYS = ["ka", "kb", "kc"]


# --------------------------------------------------------------------------------------------------
# trees  (dc = {"name", "leaves": [[n, d]], "subs": [sg]}, sg = {"f", "default", "dkind", "alts": [[key, alt]]},
#         alt = {"kind": type|partial|inst, "dc": dc, "ov": [[n, v]]})


def _mk_leafclass(rng, counter, names):
    counter[0] += 1
    k = rng.choice([1, 2, 2, 3])
    ns = rng.sample(names, min(k, len(names)))
    return {"name": f"K{counter[0]}", "leaves": [[n, _dflt(rng, n, counter[0] * 10 + i)] for i, n in enumerate(ns)], "subs": []}


def _mk_alt(rng, dc):
    kind = rng.choice(["type", "type", "partial", "inst"])
    if kind == "inst" and dc["subs"] and rng.random() < 0.7:
        kind = rng.choice(["type", "partial"])      # frozen instances of classes that have subgroup fields themselves: rarer
    if kind != "inst" and rng.random() < 0.12:
        # a plain function with a return annotation (`def mk_K(**kw) -> "K"`) instead of the class, also inside the partial
        kind = {"type": "func", "partial": "pfunc"}[kind]
    ov = []
    if kind in ("partial", "pfunc"):
        ov = [[n, _over(rng, n, 500 + d)] for n, d in dc["leaves"] if rng.random() < 0.6]
    elif kind == "inst":
        ov = [[n, _over(rng, n, 700 + d, 0.25)] for n, d in dc["leaves"]]
    alt = {"kind": kind, "dc": dc, "ov": ov}
    if kind in ("func", "pfunc") and rng.random() < 0.5:
        alt["annot"] = "object"     # `-> K` (the class object) instead of `-> "K"`
    return alt


def _depth(dc):
    d = 0
    for sg in dc["subs"]:
        for _, a in sg["alts"]:
            d = max(d, 1 + _depth(a["dc"]))
    return d


def gen_class(rng, depth, counter, pool, nfields=None):
    """a class whose subgroup nesting depth is exactly `depth` (0 = leaf class); classes are reused from `pool`"""
    if depth == 0:
        cands = [c for c in pool if _depth(c) == 0]
        if cands and rng.random() < 0.5:
            return rng.choice(cands)
        c = _mk_leafclass(rng, counter, LEAFN)
        pool.append(c)
        return c
    counter[0] += 1
    me = counter[0]
    nl = rng.choice([0, 1, 1, 2])
    lnames = rng.sample(LEAFN, nl)
    leaves = [[n, _dflt(rng, n, me * 10 + i)] for i, n in enumerate(lnames)]
    nf = nfields or rng.choice([1, 1, 2])
    fnames = rng.sample([n for n in SGN if n not in lnames], nf)
    subs = []
    for fi, f in enumerate(fnames):
        na = rng.choice([2, 2, 3])
        alts = []
        for ai in range(na):
            # the first alternative of the first field carries the depth; the others are anything shallower or equal
            dd = depth - 1 if (fi == 0 and ai == 0) else rng.choice(list(range(depth)))
            alts.append([KEYS[ai], _mk_alt(rng, gen_class(rng, dd, counter, pool))])
        rng.shuffle(alts)
        alts = [[KEYS[i], a] for i, (_, a) in enumerate(alts)]
        default = rng.choice([None, KEYS[0], KEYS[1], KEYS[na - 1]])
        dkind = "key"
        if default is not None:
            vals = [(a["kind"], a["dc"]["name"], repr(a["ov"])) for _, a in alts]
            me_v = vals[KEYS.index(default)]
            unique = vals.count(me_v) == 1
            akind = alts[KEYS.index(default)][1]["kind"]
            r = rng.random()
            if akind == "inst" and r < 0.4:
                dkind = "instance"
            elif akind != "inst" and unique and r < 0.3:
                dkind = "factory"
        subs.append({"f": f, "default": default, "dkind": dkind, "alts": alts})
    subs.sort(key=lambda s: s["default"] is not None)  # required fields first (dataclass field order)
    c = {"name": f"K{me}", "leaves": leaves, "subs": subs}
    pool.append(c)
    return c


def sg_table(sg):
    return dict((k, a) for k, a in sg["alts"])


def all_dests(tree):
    """every destination that can exist: (dest, 'leaf'|'sg', keys that make it exist, [table keys])"""
    out = []

    def walk(dc, path, via):
        for n, _ in dc["leaves"]:
            out.append((path + "." + n, "leaf", dict(via), None))
        for sg in dc["subs"]:
            d = path + "." + sg["f"]
            out.append((d, "sg", dict(via), [k for k, _ in sg["alts"]]))
            for k, a in sg["alts"]:
                walk(a["dc"], d, {**via, d: k})
    walk(tree, ROOT, {})
    return out


def selected(tree, chosen):
    """destinations of the configuration selected by `chosen` (dest -> key; absent -> default): (leaves, sgs, ok).
    ok is False when a visible required subgroup has no key or a key is not in its table."""
    leaves, sgs, ok = [], [], [True]

    def walk(dc, path):
        for n, _ in dc["leaves"]:
            leaves.append(path + "." + n)
        for sg in dc["subs"]:
            d = path + "." + sg["f"]
            sgs.append(d)
            k = chosen.get(d, sg["default"])
            a = sg_table(sg).get(k)
            if a is None:
                ok[0] = False
                continue
            walk(a["dc"], d)
    walk(tree, ROOT)
    return leaves, sgs, ok[0]


def configurations(tree, rng, cap):
    """lists of (dest, key | None) choices: every visible subgroup gets each of its keys or is left to its default"""
    def walk(dc, path):
        parts = [[]]
        for sg in dc["subs"]:
            d = path + "." + sg["f"]
            opts = []
            for k in [None] + [k for k, _ in sg["alts"]]:
                kk = k if k is not None else sg["default"]
                if kk is None:
                    opts.append([(d, None)])  # required and absent: rejected, nothing below
                    continue
                for below in walk(sg_table(sg)[kk]["dc"], d):
                    opts.append([(d, k)] + below)
            parts = [a + b for a in parts for b in opts]
            if len(parts) > 4000:
                parts = rng.sample(parts, 4000)
        return parts
    allc = walk(tree, ROOT)
    if len(allc) > cap:
        allc = rng.sample(allc, cap)
    return allc


def _tok(kind, **kw):
    return dict(k=kind, **kw)


def cases_for_tree(tree, rng, per_tree, stats=None):
    cases = []
    dests = all_dests(tree)
    confs = configurations(tree, rng, per_tree)
    for conf in confs:
        chosen = {d: k for d, k in conf if k is not None}
        leaves, sgs, ok = selected(tree, chosen)
        base = [_tok("choose", dest=d, key=k) for d, k in conf if k is not None]
        variants = []
        leaves = [d for d in leaves if is_int_leaf(d)]     # options of bool / str / float / list leaves are never written
        if not ok:
            variants.append(base)  # a required subgroup is left without a key
        else:
            subsets = [[], list(leaves)]
            if len(leaves) <= 3:
                subsets = [list(s) for r in range(len(leaves) + 1) for s in itertools.combinations(leaves, r)]
                if len(subsets) > 4:
                    subsets = [subsets[0], subsets[-1]] + rng.sample(subsets[1:-1], 2)
            elif leaves:
                subsets.append(rng.sample(leaves, rng.randint(1, len(leaves) - 1)))
            for sub in subsets:
                toks = base + [_tok("set", dest=d, v=("0" if rng.random() < 0.1 else str(300 + rng.randint(0, 99)))) for d in sub]
                variants.append(toks)
            # one foreign option: a leaf or a subgroup option that exists only in an unselected alternative
            foreign = [x for x in dests if x[0] not in leaves and x[0] not in sgs and (x[1] == "sg" or is_int_leaf(x[0]))
                       and x[0] not in selected(tree, chosen)[0]]
            if foreign:
                fd = rng.choice(foreign)
                v = str(400 + rng.randint(0, 99)) if fd[1] == "leaf" else rng.choice(fd[3])
                toks = base + [_tok("set", dest=d, v=str(300 + rng.randint(0, 99))) for d in rng.sample(leaves, min(1, len(leaves)))]
                variants.append(toks + [_tok("foreign", dest=fd[0], v=v, via=fd[2])])
            r = rng.random()
            if r < 0.35 and sgs:      # an unknown key (also: a key of another table), alone or before/after a valid one
                d = rng.choice(sgs)
                bad = rng.choice(["zz", "kc", "kd"])
                tab = [k for k, _ in _sg_decl(tree, d, chosen)["alts"]]
                if bad in tab:
                    bad = "zz"
                pos = rng.choice(["only", "before", "after"])
                toks = [t for t in base if not (pos == "only" and t["dest"] == d)]
                bt = _tok("choose", dest=d, key=bad)
                variants.append([bt] + toks if pos == "before" else toks + [bt])
            elif r < 0.5 and sgs:     # the same subgroup option twice: the last one wins
                d = rng.choice(sgs)
                tab = [k for k, _ in _sg_decl(tree, d, chosen)["alts"]]
                first = rng.choice(tab)
                variants.append([_tok("choose", dest=d, key=first)] + [t for t in base if t.get("dest") != d or True])
            elif r < 0.6 and leaves:  # a leaf twice
                d = rng.choice(leaves)
                variants.append(base + [_tok("set", dest=d, v="311"), _tok("set", dest=d, v="322")])
            elif r < 0.68:
                variants.append(base + [_tok("junk", opt="--nope", v="1")])
            elif r < 0.76 and leaves:
                variants.append(base + [_tok("set", dest=rng.choice(leaves), v="abc")])
        for toks in variants:
            toks = [dict(t, eq=rng.random() < 0.25) for t in toks]
            if rng.random() < 0.5:
                rng.shuffle(toks)
            cases.append({"kind": "sg", "tree": tree, "toks": toks})
    return cases


def abbrev_cases(rng, n):
    """abbreviated spellings: of a subgroup option, of a leaf of the chosen group, and a foreign option that is a prefix
    of a registered one"""
    la = {"name": "Sgd", "leaves": [["lr", 1], ["momentum", 2]], "subs": []}
    lb = {"name": "Adam", "leaves": [["lrd", 10], ["beta", 20]], "subs": []}
    lc = {"name": "Big", "leaves": [["width", 5]], "subs": [
        {"f": "optimizer", "default": "sgd", "dkind": "key", "alts": [["sgd", {"kind": "type", "dc": la, "ov": []}],
                                                                      ["adam", {"kind": "partial", "dc": lb, "ov": [["beta", 0]]}]]}]}
    out = []
    for default in ("small", "big", None):
        tree = {"name": "Cfg", "leaves": [["seed", 0]], "subs": [
            {"f": "model", "default": default, "dkind": "key",
             "alts": [["small", {"kind": "type", "dc": la, "ov": []}], ["big", {"kind": "type", "dc": lc, "ov": []}],
                      ["adamish", {"kind": "inst", "dc": lb, "ov": [["lrd", 11], ["beta", 22]]}]]}]}
        m = "c.model"
        for key in ("small", "big", "adamish"):
            for cut in (1, 2, 3):
                out.append({"kind": "sg", "tree": tree, "toks": [_tok("abbr", dest=m, v=key, cut=cut, via={})]})
                out.append({"kind": "sg", "tree": tree, "toks": [_tok("choose", dest=m, key="big"), _tok("abbr", dest=m, v=key, cut=cut, via={})]})
                out.append({"kind": "sg", "tree": tree, "toks": [_tok("abbr", dest=m, v=key, cut=cut, via={}), _tok("choose", dest=m, key="small")]})
        # an abbreviation that repeats the exact choice, next to a partial with a falsy keyword: nothing wrong here, but any
        # other defect showing up in this neighbourhood must not be taken for the abbreviation finding
        out.append({"kind": "sg", "tree": tree, "toks": [_tok("choose", dest=m, key="big"), _tok("choose", dest=m + ".optimizer", key="adam"),
                                                        _tok("abbr", dest=m, v="big", cut=1, via={})]})
        # abbreviated leaf of the chosen group; abbreviated nested subgroup option
        out.append({"kind": "sg", "tree": tree, "toks": [_tok("choose", dest=m, key="small"), _tok("abbr", dest=m + ".momentum", v="7", cut=4, via={m: "small"})]})
        out.append({"kind": "sg", "tree": tree, "toks": [_tok("choose", dest=m, key="big"), _tok("abbr", dest=m + ".optimizer", v="adam", cut=3, via={m: "big"})]})
        out.append({"kind": "sg", "tree": tree, "toks": [_tok("choose", dest=m, key="big"), _tok("abbr", dest=m + ".optimizer", v="adam", cut=3, via={m: "big"}),
                                                        _tok("foreign", dest=m + ".optimizer.beta", v="3", via={m: "big", m + ".optimizer": "adam"})]})
        # foreign option that is a prefix of a registered one: --lr (Sgd) while Adam's --lrd is registered
        out.append({"kind": "sg", "tree": tree, "toks": [_tok("choose", dest=m, key="adamish"), _tok("foreign", dest=m + ".lr", v="5", via={m: "small"})]})
        out.append({"kind": "sg", "tree": tree, "toks": [_tok("choose", dest=m, key="big"), _tok("choose", dest=m + ".optimizer", key="adam"),
                                                        _tok("foreign", dest=m + ".optimizer.lr", v="5", via={m: "big", m + ".optimizer": "sgd"})]})
        # ... and the other way round: nothing registered starts with --lrd
        out.append({"kind": "sg", "tree": tree, "toks": [_tok("choose", dest=m, key="small"), _tok("foreign", dest=m + ".lrd", v="5", via={m: "adamish"})]})
    out = [dict(c, toks=[dict(t, eq=rng.random() < 0.3) for t in c["toks"]]) for c in out]
    return out[:n] if n else out


def sibling_cases(rng, tier):
    """two or three SIBLING subgroup fields (resolved in the same round, at the top level and one level down); the earlier one
    offers a frozen instance, the later ones types / partials of classes that share leaf names with the instance's class or
    have a leaf it lacks: every key combination (incl. defaults) x no / all / one leaf overridden"""
    A = {"name": "Adam", "leaves": [["lr", 1], ["beta", 2]], "subs": []}
    B = {"name": "Cosine", "leaves": [["lr", 50], ["period", 10]], "subs": []}
    C = {"name": "Step", "leaves": [["lr", 25], ["gamma", 3]], "subs": []}
    E = {"name": "Plain", "leaves": [["wd", 7]], "subs": []}

    def alt(kind, dc, ov=()):
        return {"kind": kind, "dc": dc, "ov": [list(x) for x in ov]}

    def level(name, extra_leaves, third):
        subs = [
            {"f": "optimizer", "default": "adam", "dkind": "key",
             "alts": [["adam", alt("type", A)], ["fast", alt("inst", A, [("lr", 300), ("beta", 5)])]]},
            {"f": "scheduler", "default": "cosine", "dkind": "key",
             "alts": [["cosine", alt("type", B)], ["step", alt("type", C)], ["small", alt("partial", C, [("gamma", 1)])],
                      ["frozen", alt("inst", B, [("lr", 77), ("period", 78)])]]},
        ]
        if third:
            subs.append({"f": "reg", "default": "plain", "dkind": "key",
                         "alts": [["plain", alt("type", E)], ["adamish", alt("partial", A, [("lr", 9)])]]})
        return {"name": name, "leaves": [list(x) for x in extra_leaves], "subs": subs}

    trees = [level("Cfg2", [("seed", 0)], False), level("Cfg3", [], True),
             {"name": "Outer", "leaves": [["seed", 0]], "subs": [
                 {"f": "model", "default": None, "dkind": "key",
                  "alts": [["net", alt("type", level("Net", [("width", 4)], True))], ["flat", alt("type", E)]]}]}]
    out = []
    for tree in trees:
        confs = configurations(tree, rng, 400)
        if tier == "quick" and len(confs) > 40:
            confs = rng.sample(confs, 40)
        for conf in confs:
            chosen = {d: k for d, k in conf if k is not None}
            leaves, sgs, ok = selected(tree, chosen)
            base = [_tok("choose", dest=d, key=k) for d, k in conf if k is not None]
            variants = [base]
            if ok and leaves:
                variants.append(base + [_tok("set", dest=d, v=str(400 + i)) for i, d in enumerate(leaves)])
                variants.append(base + [_tok("set", dest=rng.choice(leaves), v="444")])
            for toks in variants:
                out.append({"kind": "sg", "tree": tree, "toks": [dict(t, eq=False) for t in toks]})
    return out


def falsy_cases(rng, tier):
    """functools.partial alternatives whose keywords are FALSY values (0, False, '', 0.0, []) of int / bool / str / float / list
    fields, next to truthy partials, a frozen instance of falsy values and the plain type: chosen by key, as the declared default
    key, at nesting depth 1, 2 and 3; every key combination x nothing / every int leaf / one int leaf (also `0`) written"""
    A = {"name": "Hyper", "leaves": [["x", 5], ["flag", 1], ["name", 1], ["ratio", 1], ["tags", 1], ["lr", 7]], "subs": []}

    def alt(kind, dc, ov=()):
        return {"kind": kind, "dc": dc, "ov": [list(x) for x in ov]}

    def table():
        return [["zero", alt("partial", A, [("x", 0), ("flag", 0), ("name", 0), ("ratio", 0), ("tags", 0)])],
                ["mixed", alt("partial", A, [("x", 0), ("name", 2), ("tags", 0), ("lr", 9)])],
                ["one", alt("partial", A, [("x", 8), ("flag", 1), ("name", 3), ("ratio", 2), ("tags", 3)])],
                ["izero", alt("inst", A, [("x", 0), ("flag", 0), ("name", 0), ("ratio", 0), ("tags", 0), ("lr", 0)])],
                ["plain", alt("type", A)],
                ["fn", alt("func", A)],
                ["pfn", alt("pfunc", A, [("x", 0), ("flag", 0), ("name", 2), ("lr", 8)])],
                ["ofn", dict(alt("func", A), annot="object")],
                ["opfn", dict(alt("pfunc", A, [("x", 0), ("ratio", 0), ("lr", 6)]), annot="object")]]

    def holder(name, default, leaves, field="hp"):
        return {"name": name, "leaves": [list(x) for x in leaves], "subs": [{"f": field, "default": default, "dkind": "key", "alts": table()}]}

    trees = [holder(f"Top_{d}", d, [("seed", 3)]) for d in (None, "zero", "mixed", "izero", "plain")]
    for d in ("zero", "mixed", None):
        mid = holder(f"Mid_{d}", d, [("lr", 4), ("flag", 1)])
        trees.append({"name": f"Deep2_{d}", "leaves": [], "subs": [
            {"f": "model", "default": "mid", "dkind": "key",
             "alts": [["mid", alt("type", mid)], ["pmid", alt("partial", mid, [("lr", 0), ("flag", 0)])], ["flat", alt("partial", A, [("x", 0)])]]}]})
    mid = holder("Mid_z", "zero", [("lr", 4)])
    mid2 = {"name": "Mid2", "leaves": [["name", 2]], "subs": [
        {"f": "inner", "default": "pz", "dkind": "key", "alts": [["pz", alt("partial", mid, [("lr", 0)])], ["ty", alt("type", mid)]]}]}
    trees.append({"name": "Deep3", "leaves": [["seed", 3]], "subs": [
        {"f": "model", "default": None, "dkind": "key", "alts": [["m2", alt("type", mid2)], ["pm2", alt("partial", mid2, [("name", 0)])]]}]})
    out = []
    for tree in trees:
        confs = configurations(tree, rng, 200)
        if tier == "quick" and len(confs) > 12:
            confs = rng.sample(confs, 12)
        for conf in confs:
            chosen = {d: k for d, k in conf if k is not None}
            leaves, sgs, ok = selected(tree, chosen)
            leaves = [d for d in leaves if is_int_leaf(d)]
            base = [_tok("choose", dest=d, key=k) for d, k in conf if k is not None]
            variants = [base]
            if ok and leaves:
                variants.append(base + [_tok("set", dest=rng.choice(leaves), v=rng.choice(["0", "444"]))])
                if tier != "quick":
                    variants.append(base + [_tok("set", dest=d, v=str(400 + i)) for i, d in enumerate(leaves)])
            for toks in variants:
                out.append({"kind": "sg", "tree": tree, "toks": [dict(t, eq=False) for t in toks]})
    return out


def cmd_cases(rng, n):
    out = []
    pool = [["Alpha", [["lr", 1], ["x", 2]]], ["Beta", [["lr", 10], ["mom", 20]]], ["Gamma", [["wd", 5]]]]
    for _ in range(n):
        members = rng.sample(pool, rng.choice([2, 2, 3]))
        pleaves = [[nm, 90 + i] for i, nm in enumerate(rng.sample(["x", "seed", "lr", "wd"], rng.choice([1, 2])))]
        default = rng.choice([None, None, members[0][0], members[-1][0]])
        names = [m[0].lower() for m in members]
        r = rng.random()
        name = rng.choice(names) if r < 0.8 else (None if r < 0.9 else rng.choice(["delta", "Alpha", "alph"]))
        before, after = [], []
        for nm, _ in pleaves:
            if rng.random() < 0.5:
                before.append(["parent", nm, str(300 + rng.randint(0, 99))])
        if name in names:
            me = members[names.index(name)]
            for nm, _ in me[1]:
                if rng.random() < 0.5:
                    after.append(["member", me[0], nm, str(400 + rng.randint(0, 99))])
            r2 = rng.random()
            other = rng.choice([m for m in members if m[0] != me[0]])
            if r2 < 0.15:     # an option of another member after the token
                after.append(["member", other[0], rng.choice(other[1])[0], "1"])
            elif r2 < 0.3:    # the chosen member's option before the token
                before.append(["member", me[0], rng.choice(me[1])[0], "2"])
            elif r2 < 0.4:    # the parent's option after the token
                after.append(["parent", rng.choice(pleaves)[0], "3"])
            elif r2 < 0.45:
                after.append(["junk", "--nope", "4"])
            elif r2 < 0.5 and after:
                after.append(after[0][:3] + ["abc"])
            elif r2 < 0.6 and after:
                after.append(after[0][:3] + ["455"])
        elif name is None and rng.random() < 0.3:     # no sub-command token: a member's option can only be "before"
            before.append(["member", members[0][0], members[0][1][0][0], "5"])
        out.append({"kind": "cmd", "cname": "Par", "pleaves": pleaves, "field": "cmd", "members": members, "default": default,
                    "before": before, "name": name, "after": after})
    return out


def corpus():
    """minimised past failures (corpus/C07/*.json, each {"case": ...}), replayed first in every run"""
    d = os.path.join(os.path.dirname(os.path.dirname(os.path.dirname(os.path.abspath(__file__)))), "corpus", "C07")
    out = []
    for f in sorted(glob.glob(os.path.join(d, "*.json"))):
        c = json.load(open(f)).get("case")
        if isinstance(c, dict) and c.get("kind") in ("sg", "cmd"):
            out.append(c)
    return out


def gen(tier, seed):
    rng = random.Random(f"C07-{seed}")
    cases = corpus()
    cases += abbrev_cases(rng, 0)
    cases += sibling_cases(rng, tier)
    cases += falsy_cases(rng, tier)
    ntrees, per_tree = (34, 14) if tier == "quick" else (200, 24)
    maxdepth = 2 if tier == "quick" else 3
    for i in range(ntrees):
        counter, pool = [0], []
        depth = 1 if i % 4 == 0 else (2 if (i % 4 != 3 or maxdepth == 2) else 3)
        tree = gen_class(rng, depth, counter, pool, nfields=1 + (i % 2))
        cases += cases_for_tree(tree, rng, per_tree if depth < 3 else per_tree // 2)
    cases += cmd_cases(rng, 200 if tier == "quick" else 1500)
    return cases


# --------------------------------------------------------------------------------------------------
# implementation side: source text, probing the registered spellings, running


def _classes_postorder(dc, out, seen):
    for sg in dc["subs"]:
        for _, alt in sg["alts"]:
            _classes_postorder(alt["dc"], out, seen)
    if dc["name"] not in seen:
        seen.add(dc["name"])
        out.append(dc)


def _inst_expr(dc, lv):
    args = [f"{k}={lit(k, lv.get(k, d))}" for k, d in dc["leaves"]]
    for sg in dc["subs"]:
        key = sg["default"] if sg["default"] is not None else sg["alts"][0][0]
        alt = sg_table(sg)[key]
        args.append(f"{sg['f']}={_inst_expr(alt['dc'], dict(alt['ov']) if alt['kind'] != 'type' else {})}")
    return f"{dc['name']}({', '.join(args)})"


def _alt_expr(alt):
    n = alt["dc"]["name"]
    if alt["kind"] == "type":
        return n
    mk = ("mko_" if alt.get("annot") == "object" else "mk_") + n
    if alt["kind"] == "func":
        return mk
    if alt["kind"] in ("partial", "pfunc"):
        fn = n if alt["kind"] == "partial" else mk
        return f"functools.partial({fn}, " + ", ".join(f"{k}={lit(k, v)}" for k, v in alt["ov"]) + ")"
    return _inst_expr(alt["dc"], dict(alt["ov"]))


def _sg_lines(sg):
    names = sorted({a["dc"]["name"] for _, a in sg["alts"]})
    ann = names[0] if len(names) == 1 else "Union[" + ", ".join(names) + "]"
    items = ", ".join(f"{k!r}: {_alt_expr(a)}" for k, a in sg["alts"])
    dk = sg.get("dkind", "key")
    if sg["default"] is None:
        return [f"    {sg['f']}: {ann} = subgroups({{{items}}})"]
    if dk == "key":
        return [f"    {sg['f']}: {ann} = subgroups({{{items}}}, default={sg['default']!r})"]
    kw = "default_factory" if dk == "factory" else "default"
    return [f"    _t = {{{items}}}", f"    {sg['f']}: {ann} = subgroups(_t, {kw}=_t[{sg['default']!r}])", "    del _t"]


def source(tree):
    out = []
    _classes_postorder(tree, out, set())
    fns = {a["dc"]["name"] for a in _alts(tree) if a["kind"] in ("func", "pfunc") and a.get("annot") != "object"}
    ofns = {a["dc"]["name"] for a in _alts(tree) if a["kind"] in ("func", "pfunc") and a.get("annot") == "object"}
    lines = ["import functools", "from dataclasses import dataclass, field", "from typing import List, Union",
             "from simple_parsing import subgroups", ""]
    for dc in out:
        lines += ["@dataclass(frozen=True)", f"class {dc['name']}:"]
        body = []
        for sg in dc["subs"]:
            if sg["default"] is None:
                body += _sg_lines(sg)
        for k, d in dc["leaves"]:
            body.append(leaf_decl(k, d))
        for sg in dc["subs"]:
            if sg["default"] is not None:
                body += _sg_lines(sg)
        lines += body or ["    pass"]
        lines.append("")
        if dc["name"] in fns:
            # the library reads the dataclass off the (string) return annotation, resolved in the declaring frame's globals
            lines += [f"def mk_{dc['name']}(**kw) -> \"{dc['name']}\":", f"    return {dc['name']}(**kw)", ""]
        if dc["name"] in ofns:
            # annotated with the class object itself (this text has no postponed annotations)
            lines += [f"def mko_{dc['name']}(**kw) -> {dc['name']}:", f"    return {dc['name']}(**kw)", ""]
    return "\n".join(lines)


def cmd_source(case):
    lines = ["from dataclasses import dataclass, field", "from typing import Union", ""]
    for name, leaves in case["members"]:
        lines += ["@dataclass", f"class {name}:"] + [f"    {k}: int = {d}" for k, d in leaves] + [""]
    ann = "Union[" + ", ".join(m[0] for m in case["members"]) + "]"
    lines += ["@dataclass", f"class {case['cname']}:"]
    if case["default"] is None:
        lines.append(f"    {case['field']}: {ann}")
    lines += [f"    {k}: int = {d}" for k, d in case["pleaves"]]
    if case["default"] is not None:
        lines.append(f"    {case['field']}: {ann} = field(default_factory={case['default']})")
    lines.append("")
    return "\n".join(lines)


_CLS = {}


_NS = [None]      # the namespace in which the current case's classes were declared (class IDENTITY is judged against it)


def _build(src, name):
    if src not in _CLS:
        ns = {}
        exec(compile(src, "<c07>", "exec", dont_inherit=True), ns)
        _CLS[src] = ns
    _NS[0] = _CLS[src]
    try:
        from implutil import set_current_ns
        set_current_ns(_CLS[src])
    except ImportError:
        pass
    return _CLS[src][name]


def _cname(obj):
    """the declared class, by identity: a same-named class from anywhere else is not the chosen type"""
    c = type(obj)
    if _NS[0] is not None and _NS[0].get(c.__name__) is c:
        return c.__name__
    return f"?foreign:{c.__module__}.{c.__qualname__}"


def _streams(r):
    """a rejection is argparse's error: status, message on stderr, nothing on stdout"""
    if r[0] != "exit":
        return []
    out = []
    if len(r) > 3 and r[3]:
        out.append("stdout-on-rejection")
    if r[1] != 0 and not (len(r) > 2 and r[2]):
        out.append("rejection-without-message")
    return out


class _Recorder:
    """records, at every call of parsing._get_subgroup_fields, the option strings of the subgroup fields known so far"""

    def __init__(self):
        self.calls = []

    def __enter__(self):
        import simple_parsing.parsing as P
        self.P, self.orig = P, P._get_subgroup_fields

        def hooked(wrappers):
            r = self.orig(wrappers)
            self.calls.append({d: list(f.option_strings) for d, f in r.items()})
            return r
        P._get_subgroup_fields = hooked
        return self

    def __exit__(self, *a):
        self.P._get_subgroup_fields = self.orig


def _fresh(cls):
    from simple_parsing import ArgumentParser
    p = ArgumentParser()
    p.add_arguments(cls, ROOT)
    return p


def _table_of(p):
    t = {}
    for w in p._wrappers:
        for f in w.fields:
            t[f.dest] = list(f.option_strings)
    return t


def _long(opts):
    for o in opts:
        if o.startswith("--"):
            return o
    return None


_PROBES = {}


def _probe(cls, key, argv):
    from implutil import outcome_of
    k = (key, tuple(argv))
    if k not in _PROBES:
        holder = {}

        def setup():
            holder["p"] = _fresh(cls)
            holder["p"]._preprocessing(args=list(argv))
        with _Recorder() as rec:
            r = outcome_of(setup)
        seen = {}
        for c in rec.calls:
            for d, o in c.items():
                seen.setdefault(d, o)
        _PROBES[k] = (r[0] == "ok", seen, _table_of(holder["p"]) if r[0] == "ok" else None)
    return _PROBES[k]


def _sg_decl(tree, dest, chosen):
    parts = dest.split(".")
    dc, path = tree, ROOT
    for i, f in enumerate(parts[1:]):
        sg = next((s for s in dc["subs"] if s["f"] == f), None)
        if sg is None:
            return None
        path += "." + f
        if i == len(parts) - 2:
            return sg
        a = sg_table(sg).get(chosen.get(path, sg["default"]))
        if a is None:
            return None
        dc = a["dc"]
    return None


def name_config(tree, cls, key, want):
    """steer a fresh parser, level by level, into the configuration `want` (dest -> key; the rest: default, or the first key when
    required) and read the registered spellings there.  -> (set-up completed, dest -> option strings)"""
    argv, placed = [], {}
    for _ in range(12):
        ok, seen, table = _probe(cls, key, argv)
        cands = []
        for d, opts in seen.items():
            if d in placed:
                continue
            sg = _sg_decl(tree, d, placed)
            k = want.get(d)
            if sg is not None and k is not None and k not in sg_table(sg):
                k = None
            if k is None and sg is not None and sg["default"] is None:
                k = sg["alts"][0][0]
            if k is not None and _long(opts):
                cands.append((d.count("."), d, _long(opts), k))
        if not cands:
            return ok, (table if ok else seen)
        lvl = min(c[0] for c in cands)
        for c in cands:
            if c[0] == lvl:
                argv += [c[2], c[3]]
                placed[c[1]] = c[3]
    return False, {}


def _value_of(obj):
    import dataclasses
    leaves, subs = [], []
    for f in dataclasses.fields(obj):
        v = getattr(obj, f.name)
        if dataclasses.is_dataclass(v) and not isinstance(v, type):
            subs.append([f.name, _value_of(v)])
        else:
            leaves.append([f.name, decode(f.name, v)])
    return {"c": _cname(obj), "l": leaves, "s": subs}


def _early(kind, r):
    """observation of a case whose class declarations / set-up probing already ended with an exception"""
    base = {"obs": r[:2], "msg": (r[2][-160:] if len(r) > 2 and isinstance(r[2], str) else ""), "argv": [], "stage": "declaration"}
    if kind == "sg":
        base.update({"table": [], "setup_done": False, "stable": True, "toks": [], "skipped": 0, "rounds": 0})
    else:
        base.update({"ptab": [], "stabs": [], "before": [], "after": []})
    return base


def _run_sg(case):
    from implutil import outcome_of
    r = outcome_of(lambda: _run_sg_inner(case))
    if r[0] == "ok":
        return r[1]
    return _early("sg", r)      # class / subgroups() construction or the probing of the spellings raised


def _give_up_naming():
    raise RuntimeError("C07 harness: the spellings of a plain command line do not reach a fixed point")


def _run_sg_inner(case):
    from implutil import outcome_of, reset_simple_parsing_state
    tree = case["tree"]
    src = source(tree)
    cls = _build(src, tree["name"])
    # the configuration the written keys select (last valid one per destination)
    want = {}
    for t in case["toks"]:
        if t["k"] == "choose":
            want[t["dest"]] = t["key"]
    # The spellings are read in the configuration the WHOLE command line selects.  An option meant for another configuration may
    # happen to be a registered spelling of a subgroup field of this one (then it is simply a choice, possibly changing which
    # options exist and how they are spelled): the naming is redone until the choices read off the named tokens are the ones
    # the naming assumed.
    for _attempt in range(5):
        reset_simple_parsing_state()
        ok, names = name_config(tree, cls, src, want)
        toks, skipped = [], 0
        for t in case["toks"]:
            if t["k"] == "junk":
                toks.append(dict(o=t["opt"], v=t["v"], dest=None, k="junk", eq=t["eq"]))
                continue
            d = t["dest"]
            v = t["key"] if t["k"] == "choose" else t["v"]
            table = names
            if d not in table and t["k"] in ("foreign", "abbr"):
                _, table = name_config(tree, cls, src, {**want, **t["via"]})
            o = _long(table.get(d, []))
            if o is None:
                skipped += 1
                continue
            if t["k"] == "abbr":
                o = o[: max(3, len(o) - t["cut"])]
            if any(r != o and r.startswith(o) and not is_int_leaf(dd) and not _is_sg_dest(tree, dd)
                   for dd, rs in names.items() for r in rs) and o not in [r for rs in names.values() for r in rs]:
                skipped += 1      # would be read as an abbreviation of a bool / str / float / list option: their token grammar is not C07's
                continue
            toks.append(dict(o=o, v=v, dest=d, k=t["k"], eq=t["eq"]))
        inv0 = {o_: d for d, os_ in names.items() for o_ in os_}
        eff = {}
        for t in toks:
            d_eff = inv0.get(t["o"])
            if d_eff is not None and _is_sg_dest(tree, d_eff):
                eff[d_eff] = t["v"]
            elif d_eff is None and t["k"] == "choose":
                eff[t["dest"]] = t["v"]
        if eff == want:
            break
        want = eff
    else:
        # no fixed point (the colliding options keep changing the configuration): keep the plain part of the command line only
        case = dict(case, toks=[t for t in case["toks"] if t["k"] in ("choose", "set", "junk")])
        return _run_sg_inner(case) if any(t["k"] in ("foreign", "abbr") for t in toks) else _give_up_naming()
    argv = []
    for t in toks:
        argv += [f"{t['o']}={t['v']}"] if t["eq"] else [t["o"], t["v"]]
    reset_simple_parsing_state()
    holder = {}
    with _Recorder() as rec:
        def go():
            holder["p"] = p = _fresh(cls)
            ns = p.parse_args(list(argv))
            return {"v": _value_of(getattr(ns, ROOT)), "sub": sorted([str(k), v if type(v) is str else "?" + type(v).__name__]
                                                                         for k, v in getattr(ns, "subgroups", {}).items()),
                    "extra": sorted(k for k in vars(ns) if k not in (ROOT, "subgroups"))}
        r = outcome_of(go)
    p = holder.get("p")
    seen, stable = {}, True
    for c in rec.calls:
        for d, o in c.items():
            if d in seen and seen[d] != o:
                stable = False
            seen.setdefault(d, o)
    done = bool(p is not None and p._preprocessing_done)
    if done:
        final = _table_of(p)
        for d, o in seen.items():
            if final.get(d) != o:
                stable = False
        seen = final
    # what each written option denotes: the destination it is a registered spelling of in this run; otherwise what the
    # generator meant (an option of another configuration / an abbreviation); otherwise nothing
    inv = {o: d for d, os_ in seen.items() for o in os_}
    for t in toks:
        t["intent"] = inv.get(t["o"], t["dest"])
    obs = r[:2]
    if obs[0] == "ok" and not isinstance(obs[1], dict):
        obs = ["raise", "NotADict"]
    return {"obs": obs, "stream": _streams(r), "msg": (r[2][-160:] if len(r) > 2 and isinstance(r[2], str) else ""), "table": sorted(seen.items()),
            "setup_done": done, "stable": stable, "toks": toks, "argv": argv, "skipped": skipped, "rounds": len(rec.calls)}


def _run_cmd(case):
    from implutil import outcome_of
    r = outcome_of(lambda: _run_cmd_inner(case))
    if r[0] == "ok":
        return r[1]
    return _early("cmd", r)


def _run_cmd_inner(case):
    import argparse
    from implutil import outcome_of, reset_simple_parsing_state
    src = cmd_source(case)
    cls = _build(src, case["cname"])
    reset_simple_parsing_state()
    p = _fresh(cls)
    p._preprocessing(args=[])
    ptab = {f.name: list(f.option_strings) for w in p._wrappers for f in w.fields if not f.is_subparser}
    stabs = {}
    for a in p._actions:
        if isinstance(a, argparse._SubParsersAction):
            for name, sp in a.choices.items():
                sp._preprocessing(args=[])
                stabs[name] = {f.name: list(f.option_strings) for w in sp._wrappers for f in w.fields}
    lower = {m[0]: m[0].lower() for m in case["members"]}

    def tok(t):
        if t[0] == "junk":
            return t[1], t[2]
        if t[0] == "parent":
            return _long(ptab[t[1]]), t[2]
        return _long(stabs[lower[t[1]]][t[2]]), t[3]

    before = [tok(t) for t in case["before"]]
    after = [tok(t) for t in case["after"]]
    argv = [x for o, v in before for x in (o, v)] + ([case["name"]] if case["name"] is not None else []) + [x for o, v in after for x in (o, v)]
    reset_simple_parsing_state()
    def go():
        p2 = _fresh(cls)
        ns = p2.parse_args(list(argv))
        return {"v": _value_of(getattr(ns, ROOT)), "extra": sorted(k for k in vars(ns) if k != ROOT)}
    r = outcome_of(go)
    pinv = {o: n for n, os_ in ptab.items() for o in os_}
    chosen = stabs.get(case["name"], {}) if case["name"] is not None else {}
    sinv = {o: n for n, os_ in chosen.items() for o in os_}
    return {"obs": r[:2], "stream": _streams(r), "msg": (r[2][-160:] if len(r) > 2 and isinstance(r[2], str) else ""),
            "ptab": sorted([o, n] for o, n in pinv.items()),
            "stabs": sorted([name, sorted([o, n] for n, os_ in t.items() for o in os_)] for name, t in stabs.items()),
            "before": [[o, v, pinv.get(o)] for o, v in before], "after": [[o, v, sinv.get(o)] for o, v in after], "argv": argv}


def run_impl(cases):
    out = []
    for case in cases:
        out.append(_run_sg(case) if case["kind"] == "sg" else _run_cmd(case))
    return out


# --------------------------------------------------------------------------------------------------
# the spec in Python (mirror of Model/SubgroupsSpec.v)


class _Reject(Exception):
    pass


def _isnat(v):
    return v != "" and all(ch in "0123456789" for ch in v)


def spec_sg(tree, intents):
    """intents: [(dest | None, value)] -> ("be", value, chosen) | ("reject", why) | ("nocrash",)"""
    chosen, leafs, soft = [], [], [False]

    def leafval(dest, dflt):
        vs = [v for d, v in intents if d == dest and _isnat(v)]
        allv = [v for d, v in intents if d == dest]
        if allv and _isnat(allv[-1]):
            return int(allv[-1])
        return dflt

    def val(dc, path, alt):
        ov = dict(alt["ov"]) if alt is not None and alt["kind"] != "type" else {}
        inst = alt is not None and alt["kind"] == "inst"
        leaves = []
        for n, d in dc["leaves"]:
            leafs.append(path + "." + n)
            leaves.append([n, leafval(path + "." + n, ov.get(n, d))])
        subs = []
        for sg in dc["subs"]:
            d = path + "." + sg["f"]
            given = [v for dd, v in intents if dd == d]
            tab = sg_table(sg)
            if any(g not in tab for g in given):
                raise _Reject(f"unknown key for {d}")
            if given:
                k = given[-1]
            elif sg["default"] is not None:
                k = sg["default"]
                if inst:
                    soft[0] = True
            else:
                raise _Reject(f"no key for the required subgroup {d}")
            chosen.append([d, k])
            subs.append([sg["f"], val(tab[k]["dc"], d, tab[k])])
        return {"c": dc["name"], "l": leaves, "s": subs}

    try:
        v = val(tree, ROOT, None)
    except _Reject as e:
        return ("reject", str(e))
    sgd = [d for d, _ in chosen]
    for d, x in intents:
        if d is None:
            return ("reject", "an option that denotes nothing")
        if d in sgd:
            continue
        if d not in leafs:
            return ("reject", f"option for {d}, which is not part of the selected configuration")
        if not _isnat(x):
            return ("reject", f"non-int value for {d}")
    if soft[0]:
        return ("nocrash",)
    return ("be", v, sorted(chosen))


def spec_cmd(case, obs):
    pl = dict(case["pleaves"])
    table = {m[0].lower(): m for m in case["members"]}

    def ok(its, leaves):
        return all(n is not None and n in leaves and _isnat(v) for _, v, n in its)

    def vals(its, leaves):
        out = []
        for n, d in leaves:
            vs = [v for _, v, m in its if m == n]
            out.append([n, int(vs[-1]) if vs and _isnat(vs[-1]) else d])
        return out
    if not ok(obs["before"], pl):
        return ("reject", "an option before the sub-command that is not the parent's")
    if case["name"] is not None:
        m = table.get(case["name"])
        if m is None:
            return ("reject", "unknown sub-command")
        if not ok(obs["after"], dict(m[1])):
            return ("reject", "an option after the sub-command that is not the chosen member's")
        sub = {"c": m[0], "l": vals(obs["after"], m[1]), "s": []}
    else:
        if obs["after"] or case["default"] is None:
            return ("reject", "no sub-command")
        m = table[case["default"].lower()]
        sub = {"c": m[0], "l": [list(x) for x in m[1]], "s": []}
    return ("be", {"c": case["cname"], "l": vals(obs["before"], case["pleaves"]), "s": [[case["field"], sub]]}, [])


def _expect(case, obs):
    if case["kind"] == "cmd":
        return spec_cmd(case, obs)
    return spec_sg(case["tree"], [(t["intent"], t["v"]) for t in obs["toks"]])


def _silent(case, obs):
    """argparse's prefix matching on the main parser is set aside by the property: nothing is demanded when a written option
    is not a registered spelling but a proper prefix of a registered spelling of something other than what it denotes"""
    if case["kind"] != "sg":
        return False
    regs = [(o_, d) for d, os_ in obs["table"] for o_ in os_]
    known = {o_ for o_, _ in regs}
    for t in obs["toks"]:
        if t["o"] not in known and any(o_.startswith(t["o"]) and d != t["intent"] for o_, d in regs):
            return True
    return False


def _pretty(v):
    """a value tree with the leaves as Python literals (code-book values decoded)"""
    if not isinstance(v, dict):
        return repr(v)
    parts = [f"{n}={lit(n, x) if isinstance(x, int) else x}" for n, x in v["l"]] + [f"{f}={_pretty(x)}" for f, x in v["s"]]
    return f"{v['c']}({', '.join(parts)})"


def py_spec(case, obs):
    if obs.get("stage") == "declaration":
        return f"declaring the classes / setting up a parser for them ended with {obs['obs']} {obs['msg'][:120]}"
    if obs.get("stream"):
        return f"argv {obs['argv']}: rejected, but not the way argparse rejects: {obs['stream']}"
    if _silent(case, obs):
        return None
    e = _expect(case, obs)
    o = obs["obs"]
    shown = f"argv {obs['argv']}"
    if o[0] == "ok" and o[1].get("extra"):
        return f"{shown}: the namespace keeps extra attributes {o[1]['extra']}"
    if case["kind"] == "sg" and not obs["stable"]:
        return f"{shown}: the spelling of a subgroup option changed between rounds"
    if e[0] == "be":
        if o[0] == "exit" and o[1] != 0 and _loose(case, obs):
            return None     # an abbreviated spelling may also be refused (ambiguous / not understood), but not misread
        if o[0] != "ok":
            return f"{shown}: expected {e[1]} with subgroups {e[2]}, observed {o}"
        if o[1]["v"] != e[1]:
            return f"{shown}: expected value {_pretty(e[1])}, observed {_pretty(o[1]['v'])}"
        if case["kind"] == "sg" and o[1]["sub"] != e[2]:
            return f"{shown}: expected namespace.subgroups {e[2]}, observed {o[1]['sub']}"
        return None
    if e[0] == "reject":
        if not (o[0] == "exit" and o[1] != 0):
            return f"{shown}: must be rejected ({e[1]}), observed {str(o)[:300]}"
        return None
    if o[0] not in ("ok", "exit"):
        return f"{shown}: ended with {o}"
    return None


def _loose(case, obs):
    return case["kind"] == "sg" and any(t["k"] == "abbr" for t in obs["toks"])


def _abbrev_sg_toks(case, obs):
    """written options that are not a registered spelling but a proper prefix of a registered spelling of the subgroup field
    they denote"""
    regs = [(o_, d) for d, os_ in obs["table"] for o_ in os_]
    known = {o_ for o_, _ in regs}
    return [t for t in obs["toks"] if t["o"] not in known and t["intent"] is not None and _is_sg_dest(case["tree"], t["intent"])
            and any(o_.startswith(t["o"]) and d == t["intent"] for o_, d in regs)]


def _abbrev_evidence(case, obs):
    """The listed finding and nothing else: the VALUE is exactly what the specification demands of the command line with the
    abbreviated subgroup options left out (the pre-pass, allow_abbrev=False, did not see them), and `subgroups` reports, for
    those destinations, the last key the main parser read (exact or abbreviated) and the chosen key everywhere else."""
    o = obs["obs"]
    ab = _abbrev_sg_toks(case, obs)
    if not ab or o[0] != "ok":
        return False
    rest = [t for t in obs["toks"] if t not in ab]
    e = spec_sg(case["tree"], [(t["intent"], t["v"]) for t in rest])
    if e[0] != "be" or o[1]["v"] != e[1]:
        return False
    want = dict((d, k) for d, k in e[2])
    for d in {t["intent"] for t in ab}:
        if d not in want:
            return False
        want[d] = [t["v"] for t in obs["toks"] if t["intent"] == d][-1]
    return o[1]["sub"] == sorted([d, k] for d, k in want.items())


def _feature(case, obs):
    o = obs["obs"]
    if o[0] not in ("ok", "exit"):
        cls = o[1] if len(o) > 1 else o[0]
        if case["kind"] == "sg" and cls == "AssertionError" and _has_inst_nested_default(case["tree"]):
            return "AssertionError-frozen-instance-entry-with-defaulted-nested-subgroup"
        return f"raise-{cls}"
    if case["kind"] == "sg":
        regs = [o_ for _, os_ in obs["table"] for o_ in os_]
        sgd = {d for d, os_ in obs["table"]}
        for t in obs["toks"]:
            if t["o"] not in regs and any(r.startswith(t["o"]) for r in regs):
                hit = [d for d, os_ in obs["table"] for r in os_ if r.startswith(t["o"])]
                is_sg = any(_is_sg_dest(case["tree"], d) for d in hit)
                if not is_sg:
                    return "abbreviated-leaf-option"
                # the listed finding only with its own evidence; the same symptom from any other cause is reported
                return "abbreviated-subgroup-option" if _abbrev_evidence(case, obs) else "abbreviated-subgroup-option-unexplained"
    return "plain"


def _is_sg_dest(tree, dest):
    return any(d == dest and k == "sg" for d, k, _, _ in all_dests(tree))


def _has_inst_nested_default(dc):
    for sg in dc["subs"]:
        for _, a in sg["alts"]:
            if a["kind"] == "inst" and any(s["default"] is not None for s in a["dc"]["subs"]):
                return True
            if _has_inst_nested_default(a["dc"]):
                return True
    return False


def signature(case, obs, reason):
    e = _expect(case, obs)
    o = obs["obs"]
    if o[0] not in ("ok", "exit"):
        return f"{case['kind']}:{_feature(case, obs)}"
    ok = o[0] + (str(o[1]) if o[0] == "exit" else "")
    return f"{case['kind']}:{e[0]}:{ok}:{_feature(case, obs)}"


def nontrivial(case, obs):
    if case["kind"] == "cmd":
        return bool(obs["argv"])
    return bool(obs["toks"]) and bool(case["tree"]["subs"])


def features(case, obs):
    o = obs["obs"]
    out = {"kind": case["kind"], "outcome": o[0] + (str(o[1]) if o[0] == "exit" else ""), "expect": _expect(case, obs)[0]}
    if case["kind"] == "sg":
        kinds = sorted({a["kind"] for a in _alts(case["tree"])})
        out.update({"depth": _depth(case["tree"]), "ntoks": min(len(obs["toks"]), 8), "alt-kinds": "+".join(kinds),
                    "tok-kinds": "+".join(sorted({t["k"] for t in obs["toks"]})) or "none", "subgroup-scans": obs["rounds"],
                    "renamed": any("." in o_.lstrip("-") for _, os_ in obs["table"] for o_ in os_), "feature": _feature(case, obs)})
    else:
        out.update({"members": len(case["members"]), "default": case["default"] is not None, "name": "none" if case["name"] is None else
                    ("member" if case["name"] in [m[0].lower() for m in case["members"]] else "unknown")})
    return out


def _alts(dc):
    for sg in dc["subs"]:
        for _, a in sg["alts"]:
            yield a
            yield from _alts(a["dc"])


# --------------------------------------------------------------------------------------------------
# Coq terms


def cpath(dest):
    return cstrlist(dest.split("."))


def cleaves(l):
    return clist([cpair(cstr(n), cZ(v)) for n, v in l])


def cdc(dc):
    return f"(Dc {cstr(dc['name'])} {cleaves(dc['leaves'])} {csubs(dc['subs'])})"


def csubs(subs):
    out = "SNil"
    for sg in reversed(subs):
        out = f"(SUn {cstr(sg['f'])} {copt(cstr(sg['default'])) if sg['default'] is not None else 'None'} {calts(sg['alts'])} {out})"
    return out


def calts(alts):
    out = "ANil"
    for k, a in reversed(alts):
        # a function returning the dataclass stands for the class (the library reads the class off its return annotation)
        src = {"type": "SType", "func": "SType", "partial": f"(SPartial {cleaves(a['ov'])})", "pfunc": f"(SPartial {cleaves(a['ov'])})",
               "inst": f"(SInst {cleaves(a['ov'])})"}[a["kind"]]
        out = f"(ACons {cstr(k)} {src} {cdc(a['dc'])} {out})"
    return out


def cval(v):
    subs = "VNil"
    for f, x in reversed(v["s"]):
        cx = cval(x)
        if cx is None:
            return None
        subs = f"(VCons {cstr(f)} {cx} {subs})"
    leaves = [(n, x) for n, x in v["l"]]
    if any(not isinstance(x, int) or isinstance(x, bool) for _, x in leaves):
        return None
    return f"(V {cstr(v['c'])} {cleaves(leaves)} {subs})"


def _cobs(o, with_sub):
    if o[0] == "ok":
        v = cval(o[1]["v"])
        if v is None:
            return '(Err (Raise "NotAnIntLeaf"))'
        if with_sub:
            return f"(Ok {cpair(v, clist([cpair(cpath(d), cstr(k)) for d, k in o[1]['sub']]))})"
        return f"(Ok {v})"
    return outcome(o)


def to_coq(case, obs):
    o = obs["obs"]
    extra = cstrlist((o[1].get("extra", []) if o[0] == "ok" else []) + obs.get("stream", []))
    if case["kind"] == "sg":
        tb = clist([cpair(cstr(o_), cpath(d)) for d, os_ in obs["table"] for o_ in os_])
        toks = clist([cpair(cpair(cstr(t["o"]), cstr(t["v"])), copt(cpath(t["intent"])) if t["intent"] is not None else "None")
                      for t in obs["toks"]])
        reg = copt(clist([cpath(d) for d, _ in obs["table"]])) if obs["setup_done"] else "None"
        objannot = any(a.get("annot") == "object" for a in _alts(case["tree"]))
        return (f"SgCase {cdc(case['tree'])} {cstr(ROOT)} {tb} {toks} {cbool(_loose(case, obs))} {cbool(objannot)} {_cobs(o, True)} {reg} "
                f"{cbool(obs['stable'])} {extra}")
    table = clist([cpair(cstr(m[0].lower()), cpair(cstr(m[0]), cleaves(m[1]))) for m in case["members"]])
    cf = f"(mkcmd {cstr(case['field'])} {table} {copt(cstr(case['default'].lower())) if case['default'] is not None else 'None'})"
    ptab = clist([cpair(cstr(o_), cstr(n)) for o_, n in obs["ptab"]])
    stabs = clist([cpair(cstr(name), clist([cpair(cstr(o_), cstr(n)) for o_, n in t])) for name, t in obs["stabs"]])

    def ctoks(ts):
        return clist([cpair(cpair(cstr(o_), cstr(v)), copt(cstr(n)) if n is not None else "None") for o_, v, n in ts])
    name = copt(cstr(case["name"])) if case["name"] is not None else "None"
    return (f"CmdCase {cstr(case['cname'])} {cleaves(case['pleaves'])} {cf} {ptab} {stabs} {ctoks(obs['before'])} {name} "
            f"{ctoks(obs['after'])} {_cobs(o, False)} {extra}")


# --------------------------------------------------------------------------------------------------
def _uniq(tree):
    """same class name <=> same structure (two differently pruned copies of one class must not share a name)"""
    seen, count = {}, {}

    def walk(dc):
        subs = [dict(sg, alts=[[k, dict(a, dc=walk(a["dc"]))] for k, a in sg["alts"]]) for sg in dc["subs"]]
        base = dc["name"].rstrip("pq").split("_")[0]
        key = json.dumps([base, dc["leaves"], subs], sort_keys=True)
        if key not in seen:
            n = count.get(base, 0)
            count[base] = n + 1
            seen[key] = base if n == 0 else f"{base}_{n}"
        return dict(dc, name=seen[key], subs=subs)
    return walk(tree)


def shrink(case):
    for c in _shrink(case):
        yield dict(c, tree=_uniq(c["tree"])) if c["kind"] == "sg" else c


def _shrink(case):
    if case["kind"] == "cmd":
        for part in ("before", "after"):
            for i in range(len(case[part])):
                yield dict(case, **{part: case[part][:i] + case[part][i + 1:]})
        return
    toks = case["toks"]
    used0 = {t.get("dest") for t in toks}

    def prune_all(dc, path):
        """dc without every leaf and every alternative that no written option refers to (coarse first step)"""
        leaves = [l for l in dc["leaves"] if path + "." + l[0] in used0]
        subs = []
        for sg in dc["subs"]:
            d = path + "." + sg["f"]
            keep = [[k, a] for k, a in sg["alts"]
                    if k == sg["default"] or any(t.get("dest") == d and t.get("key", t.get("v")) == k for t in toks)
                    or any((t.get("via") or {}).get(d) == k for t in toks)]
            if not keep:
                keep = sg["alts"][:1]
            alts = []
            for k, a in keep:
                sub = prune_all(a["dc"], d)
                alts.append([k, dict(a, dc=sub, ov=[x for x in a["ov"] if x[0] in [l[0] for l in sub["leaves"]]])])
            subs.append(dict(sg, alts=alts, dkind="key"))
        return dict(dc, name=dc["name"] + "q", leaves=leaves, subs=subs)

    def size(dc):
        return len(dc["leaves"]) + sum(1 + size(a["dc"]) for sg in dc["subs"] for _, a in sg["alts"])

    coarse = prune_all(case["tree"], ROOT)
    if size(coarse) < size(case["tree"]):
        yield dict(case, tree=coarse)
    if len(toks) > 3:
        yield dict(case, toks=toks[: len(toks) // 2])
        yield dict(case, toks=toks[len(toks) // 2:])
    for i in range(len(toks)):
        yield dict(case, toks=toks[:i] + toks[i + 1:])
    for i, t in enumerate(toks):
        if t.get("eq"):
            yield dict(case, toks=toks[:i] + [dict(t, eq=False)] + toks[i + 1:])
    used = {t.get("dest") for t in toks}

    def prune(dc, path):
        """variants of dc with one unused leaf or one unused alternative removed (changed classes get a new name)"""
        nm = dc["name"] + "p"
        for i, (n, _) in enumerate(dc["leaves"]):
            if path + "." + n not in used:
                yield dict(dc, name=nm, leaves=dc["leaves"][:i] + dc["leaves"][i + 1:])
        for si, sg in enumerate(dc["subs"]):
            d = path + "." + sg["f"]
            if not any((t.get("dest") or "").startswith(d) for t in toks):
                yield dict(dc, name=nm, subs=dc["subs"][:si] + dc["subs"][si + 1:])     # a whole subgroup field nobody mentions
            for ai, (k, a) in enumerate(sg["alts"]):
                if len(sg["alts"]) > 1 and k != sg["default"] and not any(t.get("dest") == d and t.get("key", t.get("v")) == k for t in toks):
                    sg2 = dict(sg, alts=sg["alts"][:ai] + sg["alts"][ai + 1:], dkind="key")
                    yield dict(dc, name=nm, subs=dc["subs"][:si] + [sg2] + dc["subs"][si + 1:])
                for sub in prune(a["dc"], d):
                    a2 = dict(a, dc=sub, ov=[x for x in a["ov"] if x[0] in [l[0] for l in sub["leaves"]]])
                    sg2 = dict(sg, alts=sg["alts"][:ai] + [[k, a2]] + sg["alts"][ai + 1:], dkind="key")
                    yield dict(dc, name=nm, subs=dc["subs"][:si] + [sg2] + dc["subs"][si + 1:])
    for t2 in prune(case["tree"], ROOT):
        yield dict(case, tree=t2)
