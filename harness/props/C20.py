"""C20 — callable front-ends (decorators.main, helpers.partial.config_for / Partial.__call__) pass exactly the parsed
values to the wrapped callable."""
from __future__ import annotations

import json
import random

from coqemit import cbool, clist, cnat, copt, cpair, cstr, outcome

ID = "C20"
FACTS = ["Front"]
COQ_HEADER = "From SPV Require Import CorrDefs.CorrC20."
COQ_CASE_TYPE = "case"
RULE = ("real functions built from generated source text: 0..6 parameters over int/float/str/bool/List[int]/Optional[int]/"
        "Enum/nested dataclass (mutable and frozen)/unannotated, with and without defaults (immutable, None, and unhashable "
        "list/dataclass-instance defaults), positional-only `/` and keyword-only `*` sections, optional Google-style `Args:` "
        "docstring; wrapped by a recording stub (functools.wraps) that logs the raw args/kwargs and returns the bound "
        "parameters. mode main: `main(f, args=argv)(*extra, **extra)`; mode cf: a session of config_for(f, ignore_args=str|"
        "tuple|list, frozen=, **default overrides) requests (class identity labelled by first occurrence), then "
        "simple_parsing.parse(cfg_class, argv)(*call_args, **call_kwargs). argv: valid options/positionals in shuffled order "
        "mode pair: two different callables (same __name__ or not) derived in mixed order through Partial[f]/config_for(f); "
        "class targets: plain classes whose recorded __init__ has the generated signature, with class-level annotations that "
        "agree with / differ from / replace the parameter annotations (field types and received values both judged); "
        "plus a malformed stream (bad value, unknown option, missing required, --help). Expected values = simple_parsing.parse "
        "of an equivalent hand-written dataclass. Non-trivial = the callable was reached; distinct by full case.")
TRUSTED = ["CPython binds a call to a signature without *args/**kwargs as Model/Front.v bind_call does (every error is a TypeError)",
           "inspect.signature / functools.wraps / functools.lru_cache behave as documented",
           "the hand-written equivalent dataclass of props/C20.py `_eq_source` is the 'equivalent dataclass' of the property"]
ASSUMPTIONS = ["signatures have no *args/**kwargs parameter and no function-valued default",
               "unhashable defaults in generated signatures are lists (copied; dict/set are covered by the regenerated fact and the "
               "theorems only) and instances of a non-frozen dataclass (refused: known finding)",
               "default overrides given to config_for are hashable immutable values",
               "unannotated parameters either are ignored, or carry a bool/int/float/str default or a tuple of such (type inference), or are required "
               "(config_for then skips them with a warning: the property is silent about those)"]

NAMES = ["a", "b", "c", "d", "e", "x", "y", "lr", "flag", "cfg", "opt", "items", "mode", "w", "k_1"]

# type -> (annotation source, immutable default sources, good token groups, bad token groups)
TYPES = {
    "int": ("int", ["3", "0", "12"], [["5"], ["17"], ["0"]], [["x1"]]),
    "float": ("float", ["1.5", "0.25"], [["2.5"], ["1e3"], ["7"]], [["abc"]]),
    "str": ("str", ["'a'", "'hello'"], [["zz"], ["w_1"], ["5"]], []),
    "bool": ("bool", ["False", "True"], [], []),
    "list": ("List[int]", ["None", "(1, 2)"], [["1", "2", "3"], ["4"]], [["1", "x"]]),
    "opt": ("Optional[int]", ["None", "4"], [["7"], ["21"]], [["q"]]),
    "enum": ("Color", ["Color.RED", "Color.BLUE"], [["BLUE"], ["RED"], ["GREEN"]], [["PURPLE"]]),
    "dc": ("Cfg", [], [], []),
    "fdc": ("FCfg", ["FCfg()", "FCfg(m=9)"], [], []),
    "none": (None, ["3", "'k'", "2.5"], [["8"], ["txt"]], []),
}
# un-annotated parameters of a callable given to config_for: the field type is inferred from the default
CF_UNTYPED_DEFAULTS = ["3", "'k'", "2.5", "True", "False", "True", "False", "(True, 2)", "(1, 2.5)", "('a', False)", "(False, True)", "(7,)",
                       "[1, 2]", "['a', 'b']", "[2.5]", "[]", "[True]", "{}", "{}"]
MUTABLE_DEFAULTS = {"list": ["[1, 2]", "[]"], "dc": ["Cfg()", "Cfg(n=5)"]}
ANN_COQ = {"int": "AInt", "float": "AFloat", "str": "AStr", "bool": "ABool", "list": "AList", "opt": "AOpt",
           "enum": "AEnum", "dc": "ADc", "fdc": "ADc", "none": "ANone"}
KIND_COQ = {"po": "PosOnly", "pk": "PosOrKw", "ko": "KwOnly"}
NESTED = {"dc": [("n", "int", ["7", "11"]), ("s", "str", ["q", "rs"])], "fdc": [("m", "int", ["3", "8"]), ("t", "str", ["w", "uv"])]}

PRELUDE = '''
import enum, functools
from dataclasses import dataclass, field
from typing import Any, List, Optional, Tuple
import simple_parsing as sp

class Color(enum.Enum):
    RED = "r"
    GREEN = "g"
    BLUE = "b"

@dataclass
class Cfg:
    n: int = 3
    s: str = "q0"

@dataclass(frozen=True)
class FCfg:
    m: int = 2
    t: str = "z"
'''


# --------------------------------------------------------------------------------------------------
# generation


def _gen_sig(rng, mode, bool_rate):
    n_po = rng.choice([0, 0, 0, 1, 1, 2] if mode == "main" else [0, 0, 0, 0, 0, 1, 2])
    n_pk = rng.choice([0, 1, 1, 2, 2, 3])
    n_ko = rng.choice([0, 0, 1, 1, 2])
    if n_po + n_pk + n_ko == 0 and rng.random() < 0.8:
        n_pk = 1
    names = rng.sample(NAMES, n_po + n_pk + n_ko)
    kinds = ["po"] * n_po + ["pk"] * n_pk + ["ko"] * n_ko
    cut = rng.randint(0, n_po + n_pk)  # positional-capable parameters from `cut` on carry a default
    if rng.random() < 0.25:
        cut = 0
    params = []
    used_nested = set()
    for i, (name, kind) in enumerate(zip(names, kinds)):
        pool = ["int", "int", "float", "str", "str", "enum"]
        if kind != "po":
            pool += ["list", "list", "opt", "opt", "dc", "fdc", "none"]
        elif rng.random() < 0.03:
            pool = ["opt"]  # argparse refuses `required=` on a positional: the plain parse raises TypeError too
        if rng.random() < bool_rate:
            pool = ["bool"]
        ty = rng.choice(pool)
        if ty in ("dc", "fdc"):
            if ty in used_nested:
                ty = "int"
            used_nested.add(ty)
        has_default = (i >= cut) if kind != "ko" else rng.random() < 0.6
        if mode == "cf" and has_default and kind != "po" and ty != "bool" and rng.random() < 0.14:
            ty = "none"
        default, mut = None, False
        if has_default and ty == "dc" and rng.random() < 0.7:
            ty = "fdc" if "fdc" not in used_nested else "int"
            used_nested.add(ty)
        if has_default:
            if ty in MUTABLE_DEFAULTS and (ty == "dc" or rng.random() < 0.3):
                default, mut = rng.choice(MUTABLE_DEFAULTS[ty]), True
            elif ty == "none" and mode == "cf":
                default = rng.choice(CF_UNTYPED_DEFAULTS)
                mut = default.startswith("[") or default.startswith("{")
            else:
                default = rng.choice(TYPES[ty][1])
        params.append(dict(name=name, kind=kind, ty=ty, default=default, mut=mut))
    return params


def _opt_group(rng, p, bad=False):
    """One option occurrence for parameter p (a list of tokens), or the groups of a nested dataclass."""
    name, ty = p["name"], p["ty"]
    ety = p.get("ety")
    if ety is not None and ety != "DBool":
        elem = {"DInt": (["7", "21"], "x1"), "DFloat": (["2.5", "4"], "abc"), "DStr": (["zz", "w_1"], None),
                "DBool": (["true", "false", "1", "no"], "maybe")}
        if isinstance(ety, dict):       # a list: any number of items of the first item's kind (strings for a bare list)
            kinds = [ety["L"][0] if ety["L"] and isinstance(ety["L"][0], str) else "DStr"] * rng.choice([1, 2, 3])
        else:
            kinds = ety if isinstance(ety, list) else [ety]
        toks = [rng.choice(elem[k][0]) for k in kinds]
        if bad and elem[kinds[0]][1]:
            toks[0] = elem[kinds[0]][1]
        return [[f"--{name}"] + toks]
    if ty == "bool" or ety == "DBool":
        return [rng.choice([[f"--{name}"], [f"--no{name}"], [f"--{name}=true"], [f"--{name}=false"], [f"--{name}", "true"],
                            [f"--{name}", "False"]] + ([[f"--{name}=maybe"]] if bad else []))]
    if ty in NESTED:
        out = []
        for fname, _, toks in NESTED[ty]:
            if rng.random() < 0.6:
                out.append([f"--{fname}", rng.choice(toks) if not (bad and fname in ("n", "m")) else "zz"])
        return out
    good, badv = TYPES[ty][2], TYPES[ty][3]
    toks = rng.choice(badv) if (bad and badv) else rng.choice(good)
    if len(toks) == 1 and rng.random() < 0.25:
        return [[f"--{name}={toks[0]}"]]
    return [[f"--{name}"] + toks]


def _gen_argv(rng, params, positional_names, malformed):
    """positional_names: parameters passed as positionals, in the order argparse consumes them."""
    groups = []
    bad_target = None
    kind_of_bad = None
    if malformed:
        kind_of_bad = rng.choice(["badvalue", "unknown", "missing", "help", "badvalue"])
        cands = [p for p in params if p["ty"] != "str" and p["ty"] != "none" and p["ty"] != "fdc"]
        if kind_of_bad == "badvalue" and cands:
            bad_target = rng.choice(cands)["name"]
    for p in params:
        if p["name"] in positional_names or p.get("ety") == "DDictE":
            continue
        required = p["default"] is None
        if required and p["ty"] == "dc":
            required = False  # a nested dataclass without default is built from its own defaults
        give = required or rng.random() < 0.55 or p["name"] == bad_target
        if kind_of_bad == "missing" and required and rng.random() < 0.7:
            give = False
        if give:
            groups += _opt_group(rng, p, bad=(p["name"] == bad_target))
            if p["ty"] == "bool" and rng.random() < 0.15:
                groups += _opt_group(rng, p)  # a second occurrence: last wins
    rng.shuffle(groups)
    pos = []
    pos_params = [p for n in positional_names for p in params if p["name"] == n]
    stop = False
    for p in pos_params:
        required = p["default"] is None
        if stop:
            break
        if required or rng.random() < 0.6:
            if kind_of_bad == "missing" and required and rng.random() < 0.5:
                stop = True
                continue
            if p["ty"] == "bool":
                pos.append("true")
            else:
                good, badv = TYPES[p["ty"]][2], TYPES[p["ty"]][3]
                single = [g for g in good if len(g) == 1]
                pos.append(badv[0][0] if (p["name"] == bad_target and badv) else rng.choice(single)[0])
        else:
            stop = True
    has_list = any(g[0].startswith("--") and len(g) > 2 for g in groups) or any(
        p["ty"] == "list" for p in params)
    front = has_list or rng.random() < 0.75
    argv = []
    if front:
        argv += pos
    for g in groups:
        argv += g
    if not front:
        # a bare bool flag / single-token option directly before positionals would swallow the first one
        if argv and (not argv[-1].startswith("--") or "=" in argv[-1]):
            argv += pos
        else:
            argv = pos + argv
    if kind_of_bad == "unknown":
        argv += ["--zzz", "1"]
    if kind_of_bad == "help":
        argv.insert(rng.randint(0, len(argv)), "--help")
    return argv


def _plain_order(params):
    return [p for p in params if p["default"] is None] + [p for p in params if p["default"] is not None]


def _gen_main(rng, tier, bool_rate=0.025):
    params = _gen_sig(rng, "main", bool_rate)
    po = [p["name"] for p in _plain_order(params) if p["kind"] == "po"]
    argv = _gen_argv(rng, params, po, malformed=rng.random() < 0.12)
    extra_pos, extra_kw = [], []
    if rng.random() < 0.08:
        r = rng.random()
        if r < 0.5 and params:
            extra_kw = [[rng.choice(params)["name"], "99"]]  # shadowed by the parsed value
            if rng.random() < 0.5:
                extra_kw.insert(0, ["unknown_kw", "'u'"])
        elif r < 0.75:
            extra_kw = [["unknown_kw", "1"]]
        else:
            extra_pos = ["55"]
    return dict(mode="main", params=params, doc=rng.random() < 0.5, argv=argv, extra_pos=extra_pos, extra_kw=extra_kw)


def _ignore_form(rng, names):
    if not names:
        return rng.choice([["absent"]] * 6 + [["tuple", []], ["tuple", []], ["list", []], ["tuple", ["zzz"]]])
    if len(names) == 1 and rng.random() < 0.5:
        return ["str", names[0]]
    return [rng.choice(["tuple"] * 9 + ["list"]), list(names)]


# class targets: a class-level annotation for an attribute named like an __init__ parameter, of another type
CANN_DIFFERENT = {"int": "List[int]", "float": "str", "str": "List[str]", "bool": "str", "list": "List[str]", "opt": "str",
                  "enum": "str"}
CANN_TAG = {"int": "AInt", "str": "AStr", "float": "AFloat"}


def _assign_class_annotations(rng, params):
    """cann = source of the class-level annotation (None: no such attribute); cann_kind = same | different | only
    (only: the __init__ parameter itself is un-annotated, the class annotation is what types the field)."""
    for p in params:
        p["cann"], p["cann_kind"] = None, None
        if p["ty"] in ("dc", "fdc"):
            continue
        if p["ty"] == "none":
            if rng.random() < 0.6:
                p["cann"], p["cann_kind"] = rng.choice(["int", "str", "float"]), "only"
                if p["default"] is not None:
                    p["default"], p["mut"] = {"int": "3", "str": "'k'", "float": "2.5"}[p["cann"]], False
            continue
        r = rng.random()
        if r < 0.3:
            continue
        if r < 0.55:
            p["cann"], p["cann_kind"] = TYPES[p["ty"]][0], "same"
        else:
            p["cann"], p["cann_kind"] = CANN_DIFFERENT[p["ty"]], "different"


def _ety(p, over):
    if p["ty"] != "none":
        return None
    if p.get("cann"):
        return {"int": "DInt", "str": "DStr", "float": "DFloat"}[p["cann"]]
    return _dkind(_eff_default_src(p, over))


def _gen_cf(rng, tier, klass=False):
    params = _gen_sig(rng, "cf", 0.1)
    # the typical use: a leading unannotated parameter the caller supplies ("params" of an optimizer)
    if rng.random() < 0.35 and params and params[0]["default"] is None and params[0]["kind"] != "ko":
        params[0]["ty"] = "none"
    if klass:
        _assign_class_annotations(rng, params)
    ignored = [p["name"] for p in params if (p["ty"] == "none" and p["default"] is None and not p.get("cann")
                                             and rng.random() < 0.93)
               or rng.random() < 0.15]
    over = []
    if rng.random() < 0.2:
        cands = [p for p in params if p["ty"] in ("int", "str", "float")]
        if cands:
            p = rng.choice(cands)
            over = [[p["name"], {"int": "77", "str": "'ov'", "float": "9.5"}[p["ty"]]]]
    frozen = rng.choice([None, None, None, True, False])
    r0 = dict(ignore=_ignore_form(rng, ignored), frozen=frozen, over=over)
    # session: the request used for parsing first, then variants and exact repeats
    variants = [dict(r0)]
    alt = dict(r0)
    which = rng.choice(["form", "frozen", "over", "names"])
    if which == "form":
        names = ignored
        forms = [["tuple", list(names)]] * 3 + [["list", list(names)]] + ([["str", names[0]]] * 3 if len(names) == 1 else [])
        alt["ignore"] = rng.choice(forms)
    elif which == "frozen":
        alt["frozen"] = rng.choice([x for x in (None, True, False) if x != frozen])
    elif which == "over":
        alt["over"] = [] if over else ([[params[0]["name"], "5"]] if params and params[0]["ty"] == "int" else [])
    else:
        alt["ignore"] = _ignore_form(rng, ignored[1:] if ignored else [])
    session = [r0, alt, json.loads(json.dumps(r0)), json.loads(json.dumps(alt))]
    if rng.random() < 0.3:
        session.append(json.loads(json.dumps(r0)))
    if klass:
        for r in session[1:]:
            if r["ignore"] == ["absent"] and r["frozen"] is None and not r["over"] and rng.random() < 0.5:
                r["via"] = "partial"      # Partial[Target] is config_for(Target)
    eff = _cf_kept(params, r0)
    argv = _gen_argv(rng, [dict(p, default=_eff_default_src(p, over), ety=_ety(p, over)) for p in eff], [],
                     malformed=rng.random() < (0.04 if klass else 0.1))
    call_pos, call_kw = [], []
    supply = {"int": "41", "float": "4.5", "str": "'cs'", "bool": "True", "list": "(6, 7)", "opt": "None", "enum": "Color.GREEN",
              "dc": "Cfg(n=1)", "fdc": "FCfg(m=1)", "none": "'given'"}
    not_fields = [p["name"] for p in params if p["name"] not in [q["name"] for q in eff]]
    for idx, p in enumerate(params):
        if p["name"] not in not_fields:
            continue
        if not (p["default"] is None or rng.random() < 0.3) or rng.random() > 0.92:
            continue
        can_pos = idx == len(call_pos) and not call_kw and p["kind"] != "ko"
        if p["kind"] == "po":
            if can_pos:
                call_pos.append(supply[p["ty"]])
        elif can_pos and rng.random() < 0.3:
            call_pos.append(supply[p["ty"]])
        else:
            call_kw.append([p["name"], supply[p["ty"]]])
    if eff and rng.random() < 0.3:
        p = rng.choice(eff)
        if p["kind"] != "po":
            call_kw.append([p["name"], supply[p["ty"]]])  # the call site overrides a parsed field
    if rng.random() < 0.04:
        call_kw.append(["unknown_kw", "1"])
    case = dict(mode="cf", params=params, doc=rng.random() < 0.5, argv=argv, session=session, call_pos=call_pos,
                call_kw=call_kw)
    if klass:
        case["klass"] = dict(extra=rng.random() < 0.4)
    return case


def _gen_pair(rng, tier):
    """Two different callables (same __name__ mostly), their config classes derived in some order through Partial[f] and
    config_for(f); the class last derived for one of them is parsed and called."""
    def sig():
        while True:
            ps = _gen_sig(rng, "cf", 0.08)
            if not ps or any(p["mut"] for p in ps):
                continue
            for p in ps:
                if p["kind"] == "po":
                    p["kind"] = "pk"       # a positional-only field cannot be called through Partial (known finding)
                if p["ty"] == "none" and p["default"] is None:
                    p["ty"] = "int"
            return ps
    a = sig()
    b = sig()
    while json.dumps(a, sort_keys=True) == json.dumps(b, sort_keys=True):
        b = sig()
    n = rng.choice([2, 2, 3, 4, 5])
    steps = [[rng.randrange(2), rng.choice(["partial", "partial", "config_for"])] for _ in range(n)]
    if rng.random() < 0.6:
        steps[0][0], steps[1][0] = rng.choice([(0, 1), (1, 0)])
    use = rng.choice([k for k, _ in steps])
    ps = a if use == 0 else b
    argv = _gen_argv(rng, [dict(p, ety=_dkind(p["default"]) if p["ty"] == "none" else None) for p in ps], [],
                     malformed=rng.random() < 0.08)
    return dict(mode="pair", params=a, params2=b, same_name=rng.random() < 0.75, doc=rng.random() < 0.3, steps=steps, use=use,
                argv=argv)


def _ignore_names(form):
    if form[0] == "absent":
        return []
    if form[0] == "str":
        return [form[1]]
    return list(form[1])


def _eff_default_src(p, over):
    for k, v in over:
        if k == p["name"]:
            return v
    return p["default"]


def _list_default(p):
    return p["ty"] == "list" or (p["ty"] == "none" and (p["default"] or "").startswith("["))


def _dict_default(p):
    return p["ty"] == "none" and (p["default"] or "").startswith("{")


def _dkind(src):
    """Kind of a default written as a literal: DBool/DInt/DFloat/DStr, a list of kinds for a tuple, DOther."""
    import ast
    try:
        v = ast.literal_eval(src)
    except Exception:
        return "DOther"

    def k(v):
        if isinstance(v, bool):
            return "DBool"
        if isinstance(v, int):
            return "DInt"
        if isinstance(v, float):
            return "DFloat"
        if isinstance(v, str):
            return "DStr"
        if isinstance(v, tuple):
            return [k(x) for x in v]
        if isinstance(v, list):
            return {"L": [k(x) for x in v]}
        if isinstance(v, dict):
            return "DDictE" if not v else "DDictN"
        return "DOther"
    return k(v)


def _kind_ann(k):
    if isinstance(k, dict):
        return "List[" + _kind_ann(k["L"][0]) + "]" if k["L"] else "list"
    if isinstance(k, list):
        return "Tuple[" + ", ".join(_kind_ann(x) for x in k) + "]"
    return {"DBool": "bool", "DInt": "int", "DFloat": "float", "DStr": "str", "DDictE": "dict"}[k]


def _inferred(p, over):
    """The annotation the hand-written equivalent dataclass gives an un-annotated parameter: the builtin type of its default
    (a bool default is a bool option), tuples element-wise."""
    if p["ty"] != "none":
        return None
    if p.get("cann"):
        return p["cann"]          # a class target: the class-level annotation types the un-annotated __init__ parameter
    return _kind_ann(_dkind(_eff_default_src(p, over)))


def _cf_kept(params, req):
    ig = _ignore_names(req["ignore"])
    return [p for p in params if p["name"] not in ig
            and not (p["ty"] == "none" and _eff_default_src(p, req["over"]) is None and not p.get("cann"))]


def gen(tier, seed):
    rng = random.Random(f"C20-{seed}")
    n_main, n_cf = (1100, 700) if tier == "quick" else (12000, 8000)
    cases = []
    # fixed corpus: the shapes named in the property text / DESIGN.md
    def P(name, kind, ty, default=None, mut=False):
        return dict(name=name, kind=kind, ty=ty, default=default, mut=mut)
    cases.append(dict(mode="main", params=[P("flag", "pk", "bool", "False")], doc=False, argv=[], extra_pos=[], extra_kw=[]))
    cases.append(dict(mode="main", params=[P("flag", "pk", "bool", "False")], doc=True, argv=["--flag"], extra_pos=[], extra_kw=[]))
    cases.append(dict(mode="main", params=[P("flag", "ko", "bool")], doc=False, argv=["--noflag"], extra_pos=[], extra_kw=[]))
    cases.append(dict(mode="main", params=[P("a", "po", "int"), P("b", "po", "float", "2.0"), P("c", "pk", "str", "'c'"),
                                           P("d", "ko", "int"), P("e", "ko", "int", "5")], doc=True,
                      argv=["1", "2.5", "--d", "4", "--c", "zz"], extra_pos=[], extra_kw=[]))
    cases.append(dict(mode="main", params=[P("x", "pk", "list", "[1, 2]", True)], doc=False, argv=[], extra_pos=[], extra_kw=[]))
    cases.append(dict(mode="main", params=[], doc=False, argv=[], extra_pos=[], extra_kw=[]))
    # list defaults (fix: 4e8d91f main, 91c405f config_for) and the dataclass-instance default that stays a known finding
    for argv in ([], ["--x", "4", "5"]):
        cases.append(dict(mode="main", params=[P("x", "pk", "list", "[1, 2]", True), P("y", "pk", "int", "1")], doc=False, argv=argv,
                          extra_pos=[], extra_kw=[]))
        cases.append(dict(mode="cf", params=[P("x", "pk", "list", "[1, 2]", True), P("y", "pk", "int", "1")], doc=False, argv=argv,
                          session=[dict(ignore=["absent"], frozen=None, over=[])] * 2, call_pos=[], call_kw=[]))
    cases.append(dict(mode="main", params=[P("cfg", "pk", "dc", "Cfg()", True)], doc=False, argv=[], extra_pos=[], extra_kw=[]))
    cases.append(dict(mode="cf", params=[P("cfg", "pk", "dc", "Cfg()", True)], doc=False, argv=[],
                      session=[dict(ignore=["absent"], frozen=None, over=[])] * 2, call_pos=[], call_kw=[]))
    cases.append(dict(mode="cf", params=[P("params", "pk", "none"), P("lr", "pk", "float", "0.001"), P("betas", "pk", "list", "(1, 2)")],
                      doc=True, argv=["--lr", "0.1"], session=[dict(ignore=["str", "params"], frozen=None, over=[])] * 2,
                      call_pos=[], call_kw=[["params", "'given'"]]))
    cases.append(dict(mode="cf", params=[P("a", "po", "int"), P("c", "pk", "str", "'c'")], doc=False, argv=["--a", "1"],
                      session=[dict(ignore=["absent"], frozen=None, over=[])] * 2, call_pos=[], call_kw=[]))
    cases.append(dict(mode="cf", params=[P("p", "pk", "none"), P("q", "pk", "int"), P("r", "pk", "float"), P("x", "pk", "int", "1")],
                      doc=False, argv=["--q", "5", "--r", "1.5"],
                      session=[dict(ignore=["list", ["p"]], frozen=None, over=[]), dict(ignore=["list", ["p"]], frozen=None, over=[]),
                               dict(ignore=["tuple", ["p"]], frozen=None, over=[]), dict(ignore=["tuple", ["p"]], frozen=None, over=[])],
                      call_pos=[], call_kw=[["p", "3"], ["x", "41"]]))
    cases.append(dict(mode="cf", params=[P("x", "pk", "opt"), P("y", "pk", "int", "1")], doc=False, argv=[],
                      session=[dict(ignore=["absent"], frozen=None, over=[])] * 2, call_pos=[], call_kw=[]))
    cases.append(dict(mode="main", params=[P("x", "pk", "opt"), P("y", "pk", "int", "1")], doc=False, argv=[],
                      extra_pos=[], extra_kw=[]))
    for argv in ([], ["--n", "2"]):       # auto-mutants 114/232: an empty dict default
        cases.append(dict(mode="cf", params=[P("d", "pk", "none", "{}", True), P("n", "pk", "int", "1")], doc=False, argv=argv,
                          session=[dict(ignore=["absent"], frozen=None, over=[])] * 2, call_pos=[], call_kw=[]))
    for argv in ([], ["--xs", "3", "4", "--zs", "q"], ["--ys", "1", "b"]):
        cases.append(dict(mode="cf", params=[P("xs", "pk", "none", "[1, 2]", True), P("ys", "pk", "none", "[]", True),
                                             P("zs", "pk", "none", "['a']", True)], doc=False, argv=argv,
                          session=[dict(ignore=["absent"], frozen=None, over=[])] * 2, call_pos=[], call_kw=[]))
    for argv in (["--verbose"], ["--verbose", "false", "--flags", "false", "7"], ["--steps", "3"]):
        cases.append(dict(mode="cf", params=[P("steps", "pk", "int", "10"), P("verbose", "pk", "none", "False"),
                                             P("flags", "pk", "none", "(True, 2)")], doc=False, argv=argv,
                          session=[dict(ignore=["absent"], frozen=None, over=[])] * 2, call_pos=[], call_kw=[]))
    for _ in range(n_main):
        cases.append(_gen_main(rng, tier))
    for _ in range(n_main // 12):
        cases.append(_gen_main(rng, tier, bool_rate=0.5))
    for _ in range(n_cf):
        cases.append(_gen_cf(rng, tier))
    # the shape of seeded change C20-02: two factory-made functions with one __name__, both through Partial[...]
    first = [P("lr", "pk", "float", "0.1"), P("steps", "pk", "int", "10")]
    second = [P("flag", "pk", "bool", "False"), P("name", "pk", "str", "'bob'"), P("steps", "pk", "int", "3")]
    for same in (True, False):
        for use, argv in ((0, ["--lr", "0.5"]), (1, ["--flag", "--name", "zz"])):
            cases.append(dict(mode="pair", params=first, params2=second, same_name=same, doc=False, use=use, argv=argv,
                              steps=[[0, "partial"], [0, "partial"], [1, "partial"], [1, "config_for"], [0, "config_for"]]))
    for _ in range(n_cf // 3):
        cases.append(_gen_pair(rng, tier))
    # class targets (a plain class with an __init__), with class-level annotations that agree / disagree with the
    # parameter annotations; the shape of seeded change C20-03 first
    def PC(name, ty, default, cann, kind):
        return dict(P(name, "pk", ty, default), cann=cann, cann_kind=kind)
    model = [PC("hidden", "int", "3", "List[int]", "different"), PC("depth", "int", "2", None, None),
             PC("name", "str", "'m'", "List[str]", "different")]
    for argv in (["--hidden", "5"], ["--name", "zz", "--depth", "4"], []):
        cases.append(dict(mode="cf", params=model, doc=False, argv=argv, klass=dict(extra=False), call_pos=[], call_kw=[],
                          session=[dict(ignore=["absent"], frozen=None, over=[]),
                                   dict(ignore=["absent"], frozen=None, over=[], via="partial")]))
    for _ in range(n_cf // 3):
        cases.append(_gen_cf(rng, tier, klass=True))
    return cases


# --------------------------------------------------------------------------------------------------
# implementation side (runs inside /venv/bin/python with PYTHONPATH=<repo under test>)


def _sig_source(params):
    parts = []
    prev = None
    for p in params:
        if prev == "po" and p["kind"] != "po":
            parts.append("/")
        if p["kind"] == "ko" and prev != "ko":
            parts.append("*")
        ann = TYPES[p["ty"]][0]
        s = p["name"] + (f": {ann}" if ann else "")
        if p["default"] is not None:
            s += (" = " if ann else "=") + p["default"]
        parts.append(s)
        prev = p["kind"]
    if prev == "po":
        parts.append("/")
    return ", ".join(parts)


def _doc_source(params):
    lines = ['    """Run the thing.', "", "    A longer description", "    over two lines.", "", "    Args:"]
    for i, p in enumerate(params):
        if i % 3 == 2:
            continue  # not every parameter is documented
        lines.append(f"        {p['name']}: the {p['name']} value")
        if i % 2 == 1:
            lines.append("            (continued on a second line)")
    lines += ["", "    Returns:", "        the bound parameters", '    """']
    return "\n".join(lines)


def _class_source(case, params):
    """A plain class target: class-level annotations, an __init__ with the generated signature that remembers its bindings,
    wrapped (functools.wraps, so inspect.signature still sees the real one) by a recorder of the raw args/kwargs."""
    lines = [PRELUDE, "class _Impl:"]
    if case["doc"]:
        lines.append(_doc_source(params))
    for p in params:
        if p.get("cann"):
            lines.append(f"    {p['name']}: {p['cann']}")
    if case["klass"].get("extra"):
        lines.append("    unrelated_attribute: int")
    lines.append(f"    def __init__(self{', ' if params else ''}{_sig_source(params)}):")
    if case["doc"]:
        lines += ["    " + ln for ln in _doc_source(params).split("\n")]
    lines.append("        self._bound = [" + ", ".join(f"({p['name']!r}, {p['name']})" for p in params) + "]")
    lines += ["    _real_init = __init__", "    @functools.wraps(_real_init)", "    def __init__(self, *args, **kwargs):",
              "        _HOOK(args, kwargs)", "        return _Impl._real_init(self, *args, **kwargs)", "_impl = _Impl"]
    return "\n".join(lines) + "\n"


def _fn_source(case, params=None, prelude=True):
    params = case["params"] if params is None else params
    if case.get("klass"):
        return _class_source(case, params)
    body = "    return [" + ", ".join(f"({p['name']!r}, {p['name']})" for p in params) + "]"
    src = [PRELUDE if prelude else "", f"def _impl({_sig_source(params)}):"]
    if case["doc"]:
        src.append(_doc_source(params))
    src.append(body)
    return "\n".join(src) + "\n"


def _eq_source(fields_params, positional):
    """The hand-written equivalent dataclass: required fields first (a dataclass demands it), same names/annotations/defaults,
    positional-only parameters as positional fields (main), an unhashable default through default_factory; for config_for
    (positional=False) a parameter without default is declared `field(required=True)`."""
    lines = ["@dataclass", "class Equivalent:"]
    for p in _plain_order(fields_params):
        ann = p.get("eq_ann") or TYPES[p["ty"]][0] or "Any"
        args = []
        if p["default"] is not None:
            args.append(f"default_factory=lambda: {p['default']}" if p["mut"] else f"default={p['default']}")
        if positional and p["kind"] == "po":
            args.append("positional=True")
        if not positional and p["default"] is None:
            args.append("required=True")  # config_for: a parameter without default is a required option, Optional[...] included
        if not args:
            lines.append(f"    {p['name']}: {ann}")
        elif len(args) == 1 and args[0].startswith("default="):
            lines.append(f"    {p['name']}: {ann} = {p['default']}")
        else:
            lines.append(f"    {p['name']}: {ann} = sp.field({', '.join(args)})")
    if len(lines) == 2:
        lines.append("    pass")
    return "\n".join(lines) + "\n"


def _j(v):
    """Canonical JSON of a value.  Python type identity survives: bool/int, tuple/list (canon's tags), the declared Enum class
    (canon marks a same-named other class once set_current_ns is in force) and - here - the declared dataclass class."""
    import dataclasses

    import implutil
    c = implutil.canon(v)

    def foreign(x):
        if dataclasses.is_dataclass(x) and not isinstance(x, type):
            ns = implutil.CURRENT_NS
            return ns is not None and ns.get(type(x).__name__) is not type(x)
        if isinstance(x, (list, tuple, set, frozenset)):
            return any(foreign(y) for y in x)
        if isinstance(x, dict):
            return any(foreign(y) for y in x.values())
        return False
    if foreign(v):
        c = {"t": "not-the-declared-dataclass-class", "v": c}
    return json.dumps(c, sort_keys=True, separators=(",", ":"))


def _stream(r):
    """Where a rejection / --help wrote: err, out, both, none (None for anything that is not an exit)."""
    if r[0] != "exit":
        return None
    e, o = bool(r[2].strip()), bool(r[3].strip())
    return "both" if e and o else "err" if e else "out" if o else "none"


def _short(r):
    return list(r[:2]) if r[0] in ("exit", "raise") else list(r[:1]) if r[0] in ("cre", "inconsistent") else r


def _ev(ns, src):
    return eval(compile(src, "<c20-value>", "eval", dont_inherit=True), ns)


def run_impl(cases):
    import functools
    import inspect

    import implutil
    from implutil import outcome_of

    out = []
    for case in cases:
        log = []
        ns = {"__name__": "c20_generated",
              "_HOOK": lambda a, k, log=log: log.append(([_j(x) for x in a], [[n, _j(v)] for n, v in k.items()]))}

        def reset_simple_parsing_state(ns=ns):
            implutil.reset_simple_parsing_state()
            implutil.set_current_ns(ns)     # the classes this case declares: values must be instances / members of THESE
        reset_simple_parsing_state()
        exec(compile(_fn_source(case), "<c20>", "exec", dont_inherit=True), ns)
        impl = ns["_impl"]
        notes = {"msg": "", "streams": [None, None]}

        def make_stub(impl=impl, log=log):
            @functools.wraps(impl)
            def f(*args, **kwargs):
                log.append(([_j(a) for a in args], [[k, _j(v)] for k, v in kwargs.items()]))
                return impl(*args, **kwargs)
            return f

        f = impl if case.get("klass") else make_stub()
        params = case["params"]
        sig = inspect.signature(impl)
        defaults = {n: (None if p.default is inspect.Parameter.empty else _j(p.default)) for n, p in sig.parameters.items()}
        sigdef = {n: p.default for n, p in sig.parameters.items() if isinstance(p.default, (list, dict, set))}
        aliased = []
        alias_scope = set(sigdef)      # config_for: narrowed to the parameters that are fields and not given at the call site
        import simple_parsing as sp

        def plain(fields_params, positional, argv):
            ns2 = dict(ns)
            exec(compile(_eq_source(fields_params, positional), "<c20-eq>", "exec", dont_inherit=True), ns2)
            eq = ns2["Equivalent"]

            def go():
                obj = sp.parse(eq, args=list(argv), dest="args", add_config_path_arg=False)
                return [[p["name"], _j(getattr(obj, p["name"]))] for p in fields_params]
            r = outcome_of(go)
            notes["streams"][0] = _stream(r)
            return _short(r)

        def finish(r):
            notes["streams"][1] = _stream(r)
            if r[0] == "raise":
                notes["msg"] = r[2]
            r = _short(r)
            if r[0] == "ok":
                try:
                    if case.get("klass") and not isinstance(r[1], impl):
                        raise TypeError("not an instance of the target class")
                    pairs = list(getattr(r[1], "_bound", r[1]))
                    r = ["ok", [[k, _j(v)] for k, v in pairs]]
                except Exception as e:  # the stub's return value was replaced by something else
                    return ["raise", "NotTheStubResult:" + type(e).__name__]
                # a list/dict/set default: the callable must get a copy; mutating what it got must not reach the signature
                for k, v in pairs:
                    if k in sigdef and k in alias_scope:
                        if v is sigdef[k]:
                            aliased.append(k)
                        if isinstance(v, list):
                            v.append(12345)
                        elif isinstance(v, dict):
                            v["__mutated__"] = 1
                        elif isinstance(v, set):
                            v.add(12345)
                        if _j(sigdef[k]) != defaults[k]:
                            aliased.append(k)
            return r

        if case["mode"] == "main":
            from simple_parsing.decorators import main
            expected = plain(params, True, case["argv"])
            xp = [_ev(ns, s) for s in case["extra_pos"]]
            xk = {k: _ev(ns, s) for k, s in case["extra_kw"]}
            reset_simple_parsing_state()
            r = finish(outcome_of(lambda: main(f, args=list(case["argv"]))(*xp, **xk)))
            out.append(dict(defaults=defaults, expected=expected, ncalls=len(log), call=_call(log), result=r, inferred=[],
                            aliased=sorted(set(aliased)), msg=notes["msg"], streams=notes["streams"],
                            xpos=[_j(v) for v in xp], xkw=[[k, _j(v)] for k, v in xk.items()]))
            continue

        if case["mode"] == "pair":
            out.append(dict(_run_pair(case, ns, plain, finish, reset_simple_parsing_state), msg=notes["msg"], streams=notes["streams"]))
            continue

        # ---- config_for ----
        import simple_parsing.helpers.partial as partial_mod
        from simple_parsing.helpers.partial import config_for
        partial_mod._autogenerated_config_classes.clear()
        classes, labels, session_obs, overs = [], [], [], []
        for req in case["session"]:
            kw = {}
            form = req["ignore"]
            if form[0] == "str":
                kw["ignore_args"] = form[1]
            elif form[0] == "tuple":
                kw["ignore_args"] = tuple(form[1])
            elif form[0] == "list":
                kw["ignore_args"] = list(form[1])
            if req["frozen"] is not None:
                kw["frozen"] = req["frozen"]
            ov = {k: _ev(ns, s) for k, s in req["over"]}
            overs.append([[k, _j(v)] for k, v in ov.items()])
            kw.update(ov)
            r = outcome_of((lambda: partial_mod.Partial[f]) if req.get("via") == "partial" else (lambda: config_for(f, **kw)))
            if r[0] == "ok":
                cls = r[1]
                for i, c in enumerate(classes):
                    if c is cls:
                        session_obs.append(["ok", i])
                        break
                else:
                    classes.append(cls)
                    session_obs.append(["ok", len(classes) - 1])
                labels.append(cls)
            else:
                session_obs.append(_short(r))
                labels.append(None)
                if not notes["msg"] and len(labels) == 1:
                    notes["msg"] = r[2] if r[0] == "raise" else ""
        req0 = case["session"][0]
        kept = [dict(p, default=_eff_default_src(p, req0["over"]), mut=p["mut"] and _eff_default_src(p, req0["over"]) == p["default"],
                     eq_ann=_inferred(p, req0["over"]))
                for p in _cf_kept(params, req0)]
        expected = plain(kept, False, case["argv"])
        cp = [_ev(ns, s) for s in case["call_pos"]]
        ck = {k: _ev(ns, s) for k, s in case["call_kw"]}
        base = dict(defaults=defaults, expected=expected, session=session_obs, overs=overs, inferred=[], ftype_ok=[],
                    xpos=[_j(v) for v in cp], xkw=[[k, _j(v)] for k, v in ck.items()])
        cls0 = labels[0]
        if cls0 is None:
            out.append(dict(base, fields=session_obs[0], ncalls=0, call=None, result=session_obs[0], msg=notes["msg"],
                            streams=notes["streams"]))
            continue
        import dataclasses
        import typing
        def fdefault(fl):
            if fl.default is not dataclasses.MISSING:
                return _j(fl.default)
            if fl.default_factory is not dataclasses.MISSING:
                v = fl.default_factory()
                if fl.name in sigdef and v is sigdef[fl.name]:
                    aliased.append(fl.name)
                return _j(v)
            return None
        flds = [[fl.name, fdefault(fl)] for fl in dataclasses.fields(cls0)]

        def ity(t):
            if t in (bool, int, float, str):
                return {bool: "TBool", int: "TInt", float: "TFloat", str: "TStr"}[t]
            if typing.get_origin(t) is tuple:
                return [ity(a) for a in typing.get_args(t)]
            if typing.get_origin(t) is list and len(typing.get_args(t)) == 1:
                return {"L": ity(typing.get_args(t)[0])}
            if t is list:
                return "LBare"
            if t is dict:
                return "DictBare"
            return "IFail"
        ftypes = {fl.name: fl.type for fl in dataclasses.fields(cls0)}
        overridden = [k for k, _ in req0["over"]]
        base["inferred"] = [[p["name"], ity(ftypes[p["name"]])] for p in params
                            if p["ty"] == "none" and p["default"] is not None and p["name"] in ftypes
                            and p["name"] not in overridden and not p.get("cann")]
        # the field of an annotated parameter carries the parameter's annotation (for an un-annotated one: the class-level one)
        base["ftype_ok"], base["ftype_seen"] = [], {}
        for p in params:
            want_src = TYPES[p["ty"]][0] or p.get("cann")
            if want_src and p["name"] in ftypes:
                base["ftype_ok"].append([p["name"], ftypes[p["name"]] == _ev(ns, want_src)])
                base["ftype_seen"][p["name"]] = repr(ftypes[p["name"]])[:80]
        reset_simple_parsing_state()
        del log[:]

        def go():
            obj = sp.parse(cls0, args=list(case["argv"]), dest="args", add_config_path_arg=False)
            return obj(*cp, **ck)
        alias_scope.intersection_update(n for n, _ in flds)
        alias_scope.difference_update(ck)
        if cp:
            alias_scope.clear()
        r = finish(outcome_of(go))
        out.append(dict(base, fields=["ok", flds], ncalls=len(log), call=_call(log), result=r, aliased=sorted(set(aliased)),
                        msg=notes["msg"], streams=notes["streams"]))
    return out


def _run_pair(case, ns0, plain, finish, reset_simple_parsing_state):
    import dataclasses
    import functools
    import inspect

    import simple_parsing as sp
    import simple_parsing.helpers.partial as partial_mod
    from implutil import outcome_of

    partial_mod._autogenerated_config_classes.clear()   # a registry keyed by class NAME, shared by the whole process
    log = []
    fns, defaults = [], []
    for k, params in enumerate((case["params"], case["params2"])):
        ns = dict(ns0)       # the same Color / Cfg / FCfg classes for both callables and for the equivalent dataclass
        exec(compile(_fn_source(case, params, prelude=False), "<c20-pair>", "exec", dont_inherit=True), ns)
        impl = ns["_impl"]

        def make_stub(impl=impl, k=k):
            @functools.wraps(impl)
            def f(*args, **kwargs):
                log.append((k, [_j(a) for a in args], [[n, _j(v)] for n, v in kwargs.items()]))
                return impl(*args, **kwargs)
            return f
        f = make_stub()
        if k == 1 and not case["same_name"]:
            f.__name__ = f.__qualname__ = "_impl_other"
        fns.append(f)
        defaults.append({n: (None if p.default is inspect.Parameter.empty else _j(p.default))
                         for n, p in inspect.signature(impl).parameters.items()})
    classes, steps_obs, by_callable = [], [], {}
    for k, via in case["steps"]:
        f = fns[k]
        r = outcome_of((lambda: partial_mod.Partial[f]) if via == "partial" else (lambda: partial_mod.config_for(f)))
        if r[0] != "ok":
            steps_obs.append(dict(label=_short(r), target=k, fields=[]))
            by_callable[k] = None
            continue
        cls = r[1]
        for i, c in enumerate(classes):
            if c is cls:
                label = i
                break
        else:
            classes.append(cls)
            label = len(classes) - 1
        target = getattr(cls, "_target_", None)
        steps_obs.append(dict(label=["ok", label], target=0 if target is fns[0] else 1 if target is fns[1] else 2,
                              fields=[[fl.name, None if fl.default is dataclasses.MISSING else _j(fl.default)]
                                      for fl in dataclasses.fields(cls)]))
        by_callable[k] = cls
    use = case["use"]
    params = case["params"] if use == 0 else case["params2"]
    req = dict(ignore=["absent"], frozen=None, over=[])
    kept = [dict(p, eq_ann=_inferred(p, [])) for p in _cf_kept(params, req)]
    expected = plain(kept, False, case["argv"])
    base = dict(defaults=defaults[0], defaults2=defaults[1], expected=expected, steps=steps_obs, xpos=[], xkw=[], inferred=[])
    cls = by_callable.get(use)
    if cls is None:
        last = [o for (k, _), o in zip(case["steps"], steps_obs) if k == use][-1]
        return dict(base, ncalls=0, call=None, called=None, result=last["label"])
    reset_simple_parsing_state()

    def go():
        obj = sp.parse(cls, args=list(case["argv"]), dest="args", add_config_path_arg=False)
        return obj()
    r = finish(outcome_of(go))
    return dict(base, ncalls=len(log), call=dict(pos=log[-1][1], kw=log[-1][2]) if log else None,
                called=log[-1][0] if log else None, result=r)


def _call(log):
    if not log:
        return None
    return dict(pos=log[-1][0], kw=log[-1][1])


# --------------------------------------------------------------------------------------------------
# spec (Python mirror of Model/FrontSpec.v)


def _req_equal(a, b):
    return a["ignore"] == b["ignore"] and a["frozen"] == b["frozen"] and a["over"] == b["over"]


def py_spec(case, obs):
    params = case["params"]
    exp = obs["expected"]
    if obs.get("aliased"):
        return (f"parameter(s) {obs['aliased']} with a list/dict/set default received the signature's default object itself "
                f"(or the signature default changed when the received value was mutated)")
    if obs["ncalls"] > 1:
        return f"the callable was invoked {obs['ncalls']} times"
    st = obs.get("streams") or [None, None]
    if exp[0] == "exit" and obs["result"] == exp and st[0] != st[1]:
        return f"the rejection / help text goes to {st[1]}, the plain parse writes it to {st[0]}"
    if case["mode"] == "main":
        if obs["xpos"] or obs["xkw"]:
            return None  # run-time arguments: the property is silent
        if exp[0] != "ok":
            if obs["result"] != exp or obs["call"] is not None:
                return f"the plain parse ends with {exp}, main ends with {obs['result']} (callable reached: {obs['call'] is not None})"
            return None
        vals = dict(exp[1])
        if obs["result"][0] != "ok":
            return f"main ends with {obs['result']} although the plain parse succeeds with {exp[1]}"
        want = [[p["name"], vals[p["name"]]] for p in params]
        if obs["result"][1] != want:
            return f"parameters received {obs['result'][1]}, the plain parse gives {want}"
        want_pos = [vals[p["name"]] for p in params if p["kind"] == "po"]
        if obs["call"] is None or obs["call"]["pos"] != want_pos:
            return f"positional arguments {obs['call'] and obs['call']['pos']} != positional-only parameters {want_pos}"
        want_kw = sorted([p["name"], vals[p["name"]]] for p in params if p["kind"] != "po")
        if sorted(obs["call"]["kw"]) != want_kw:
            return f"keyword arguments {obs['call']['kw']} != {want_kw}"
        return None
    if case["mode"] == "pair":
        return _pair_spec(case, obs)
    # independent checks; one that is NOT a listed finding is reported first, so that a listed finding present in the same
    # case cannot hide it
    reasons = [r for r in (_cf_spec(params, case["session"], obs, session=False), _session_reason(case["session"], obs)) if r]
    known = _known_sigs()
    for r in reasons:
        if signature(case, obs, r) not in known:
            return r
    return reasons[0] if reasons else None


def _pair_spec(case, obs):
    steps = case["steps"]
    so = obs["steps"]
    for i in range(len(steps)):
        for j in range(i + 1, len(steps)):
            if so[i]["label"][0] == "ok" and so[j]["label"][0] == "ok":
                same_callable = steps[i][0] == steps[j][0]
                same_class = so[i]["label"][1] == so[j]["label"][1]
                if same_callable and not same_class:
                    return f"the same callable got two different classes (steps {i} and {j}: {steps[i]}, {steps[j]})"
                if same_class and not same_callable:
                    return f"two different callables share one config class (steps {i} and {j}: {steps[i]}, {steps[j]})"
    plain = dict(ignore=["absent"], frozen=None, over=[])
    last = None
    for (k, via), o in zip(steps, so):
        params = case["params"] if k == 0 else case["params2"]
        if o["label"][0] != "ok":
            return f"deriving the config class of callable {k} via {via} ends with {o['label']}"
        if o["target"] != k:
            return f"the class derived for callable {k} via {via} targets callable {o['target']}"
        r = _cf_spec(params, [plain], dict(session=[o["label"]], fields=["ok", o["fields"]], overs=[[]], inferred=[],
                                           defaults=obs["defaults"] if k == 0 else obs["defaults2"]), check_call=False)
        if r:
            return f"class derived for callable {k} via {via}: {r}"
        if k == case["use"]:
            last = o
    params = case["params"] if case["use"] == 0 else case["params2"]
    r = _cf_spec(params, [plain], dict(obs, session=[last["label"]], fields=["ok", last["fields"]], overs=[[]], inferred=[],
                                       defaults=obs["defaults"] if case["use"] == 0 else obs["defaults2"]))
    if r:
        return r
    if obs["call"] is not None and obs["called"] != case["use"]:
        return f"calling the object parsed for callable {case['use']} invoked callable {obs['called']}"
    return None


def _session_reason(sess, obs):
    bad = [(i, j) for i in range(len(sess)) for j in range(i + 1, len(sess))
           if _req_equal(sess[i], sess[j]) and obs["session"][i][0] == "ok" and obs["session"][j][0] == "ok"
           and obs["session"][i][1] != obs["session"][j][1]]
    bad.sort(key=lambda ij: sess[ij[0]]["ignore"][0] == "list")     # hashable arguments first: that is never the known finding
    if bad:
        i, j = bad[0]
        return f"config_for called twice (requests {i} and {j}) with the same arguments {sess[i]} returned two different classes"
    return None


def _known_sigs():
    import os
    import re
    path = os.path.join(os.path.dirname(os.path.dirname(os.path.dirname(os.path.abspath(__file__)))), "KNOWN_FINDINGS.txt")
    try:
        return set(re.findall(r"^known:\s+property=C20\s+sig=(\S+)", open(path).read(), re.M))
    except OSError:
        return set()


def _cf_spec(params, sess, obs, check_call=True, session=True):
    exp = obs.get("expected")
    if session:
        r = _session_reason(sess, obs)
        if r:
            return r
    req0 = sess[0]
    if obs["fields"][0] != "ok":
        return f"config_for{req0} ends with {obs['fields']}"
    flds = obs["fields"][1]
    names = [n for n, _ in flds]
    ig = _ignore_names(req0["ignore"])
    over = dict(obs["overs"][0])
    if len(set(names)) != len(names):
        return f"duplicate fields {names}"
    pnames = {p["name"]: p for p in params}
    for n, d in flds:
        if n not in pnames or n in ig:
            return f"field {n} is not a non-ignored parameter"
        want = over.get(n, obs["defaults"][n])
        if d != want:
            return f"field {n} has default {d}, the signature says {want}"
    for p in params:
        n = p["name"]
        typeable = p["ty"] != "none" or over.get(n, obs["defaults"][n]) is not None
        if n not in ig and typeable and n not in names:
            return f"no field for the non-ignored parameter {n}"
    kinds = {p["name"]: _dkind(p["default"]) for p in params if p["ty"] == "none" and p["default"] is not None}
    for n, t in obs["inferred"]:
        if t != _spec_ity(kinds[n]):
            return f"inferred type of the un-annotated parameter {n}={pnames[n]['default']} is {t}, its default is a {kinds[n]}"
    for n, ok in obs.get("ftype_ok", []):
        if not ok:
            return (f"field {n} has type {obs.get('ftype_seen', {}).get(n)}, the parameter is annotated "
                    f"{TYPES[pnames[n]['ty']][0] or pnames[n].get('cann')}")
    if not check_call:
        return None
    if exp[0] != "ok":
        if obs["result"] != exp or obs["call"] is not None:
            return f"the plain parse ends with {exp}, parsing the config class / calling ends with {obs['result']}"
        return None
    vals = dict(exp[1])
    if obs["call"] is None:
        return f"the callable was not reached: {obs['result']}"
    if obs["call"]["pos"] != obs["xpos"]:
        return f"positional arguments {obs['call']['pos']} != call-site arguments {obs['xpos']}"
    merged = {n: vals[n] for n in names}
    merged.update(dict(obs["xkw"]))
    if sorted(obs["call"]["kw"]) != sorted([k, v] for k, v in merged.items()):
        return f"keyword arguments {obs['call']['kw']} != field values + call-site kwargs {merged}"
    # which value every parameter must end up with, when a direct call can deliver them
    if obs["xpos"]:
        return None
    xkw = dict(obs["xkw"])
    if any(k not in pnames or pnames[k]["kind"] == "po" for k in xkw):
        return None
    want = []
    for p in params:
        n = p["name"]
        v = xkw.get(n, vals.get(n) if n in names else obs["defaults"][n])
        if v is None:
            return None  # a required parameter nobody supplies
        want.append([n, v])
    if obs["result"] != ["ok", want]:
        return f"calling the parsed object ends with {obs['result']}, every parameter has a value: {want}"
    return None


def _spec_ity(k):
    if isinstance(k, dict):
        return {"L": _spec_ity(k["L"][0])} if k["L"] else "LBare"
    if isinstance(k, list):
        return [_spec_ity(x) for x in k]
    return {"DBool": "TBool", "DInt": "TInt", "DFloat": "TFloat", "DStr": "TStr", "DOther": "IFail", "DDictE": "DictBare",
            "DDictN": "IFail"}[k]


def signature(case, obs, reason):
    params = case["params"]
    res = obs["result"]
    tag = "main" if case["mode"] == "main" else "config_for"
    if "share one config class" in reason or "targets callable" in reason or "invoked callable" in reason:
        return "partial:class-of-another-callable"
    if "the same callable got two different classes" in reason:
        return "partial:uncached"
    if reason.startswith("deriving the config class of callable"):
        return "partial:derivation-failed:" + reason.rsplit("'", 2)[-2]
    if case["mode"] == "pair":
        tag = "config_for"
        if reason.startswith("class derived for callable"):
            return "partial:wrong-fields"
    if reason.startswith("the rejection / help text goes to"):
        return f"{tag}:exit-stream"
    if "received the signature's default object itself" in reason:
        return f"{tag}:container-default-aliased"
    if reason.startswith("inferred type"):
        return f"{tag}:wrong-inferred-type"
    if "the parameter is annotated" in reason:
        return f"{tag}:field-type-is-not-the-parameter-annotation"
    import re
    msg = obs.get("msg", "")
    if "two different classes" in reason:
        # evidence: the very pair of requests that disagreed passed ignore_args as a LIST (unhashable -> cache bypassed)
        return f"{tag}-uncached:" + ("unhashable-ignore_args" if "'ignore': ['list'," in reason else "hashable-args")
    if obs["call"] is None and res[0] == "raise":
        if res[1] == "ValueError":
            # evidence: dataclasses' own message, naming the class of the default and the field; the named field must be a
            # parameter whose default is of that kind.  Any other ValueError at set-up is a different defect.
            m = re.match(r"mutable default <class '(?:[\w.]*\.)?(\w+)'> for field (\w+) is not allowed: use default_factory", msg)
            byname = {p["name"]: p for p in params}
            if m and m.group(2) in byname and byname[m.group(2)]["mut"]:
                p = byname[m.group(2)]
                if p["ty"] == "dc" and m.group(1) == "Cfg":
                    return f"{tag}-setup:ValueError:dataclass-instance-default"
                if (_list_default(p) and m.group(1) == "list") or (_dict_default(p) and m.group(1) == "dict"):
                    return f"{tag}-setup:ValueError:list-dict-set-default"      # regression of fix 4e8d91f / 91c405f
            return f"{tag}-setup:ValueError:other-cause"
        if res[1] == "TypeError" and any(p["ty"] == "bool" for p in params) and case["mode"] == "main":
            return f"{tag}-setup:TypeError:bool-param"
        if obs["expected"][0] == "ok":
            return f"{tag}-setup:{res[1]}:other"
    if case["mode"] == "cf" and res[0] == "raise" and res[1] == "TypeError" and obs["fields"][0] == "ok" and obs["call"] is not None:
        # evidence: the callable WAS invoked, with the positional-only fields among the keywords, and CPython's message
        # names exactly those parameters
        po_fields = sorted(p["name"] for p in params if p["kind"] == "po" and p["name"] in [n for n, _ in obs["fields"][1]]
                           and p["name"] in [k for k, _ in obs["call"]["kw"]])
        m = re.search(r"got some positional-only arguments passed as keyword arguments: '([\w, ]+)'$", msg)
        if po_fields and m and sorted(m.group(1).split(", ")) == po_fields:
            return f"{tag}-call:TypeError:positional-only-field-passed-by-keyword"
    if "keyword arguments" in reason or "positional arguments" in reason:
        return f"{tag}:wrong-arguments-passed"
    if "parameters received" in reason or "every parameter has a value" in reason:
        return f"{tag}:wrong-values-bound:{res[0]}" + (str(res[1]) if res[0] != "ok" else "")
    if "field" in reason.split(" ")[0:2] or reason.startswith("no field") or reason.startswith("duplicate fields"):
        return f"{tag}:wrong-fields"
    return f"{tag}:{res[0]}" + (str(res[1]) if res[0] != "ok" else "") + f":plain-parse-{obs['expected'][0]}"


def nontrivial(case, obs):
    return obs["call"] is not None and len(case["params"]) > 0


def features(case, obs):
    params = case["params"]
    f = {"mode": case["mode"], "nparams": len(params), "doc": case["doc"],
         "outcome": obs["result"][0] + (str(obs["result"][1]) if obs["result"][0] != "ok" else ""),
         "expected": obs["expected"][0], "has_po": any(p["kind"] == "po" for p in params),
         "has_ko": any(p["kind"] == "ko" for p in params), "has_bool": any(p["ty"] == "bool" for p in params),
         "has_mutable_default": any(p["mut"] for p in params)}
    for p in params:
        f["ty_" + p["ty"]] = True
    if case["mode"] == "pair":
        f["same_name"] = case["same_name"]
        f["steps"] = len(case["steps"])
        for k, via in case["steps"]:
            f["via_" + via] = True
    if case["mode"] == "cf":
        f["target"] = "class" if case.get("klass") else "function"
        for p in params:
            if p.get("cann_kind"):
                f["class_annotation_" + p["cann_kind"]] = True
        f["ignore_form"] = case["session"][0]["ignore"][0]
        f["call_site_kwargs"] = len(case["call_kw"])
    return f


# --------------------------------------------------------------------------------------------------
# Coq emission


def _kv(pairs):
    return clist([cpair(cstr(k), cstr(v)) for k, v in pairs])


def _res_bind(r):
    if r[0] == "ok":
        return outcome(["ok", _kv(r[1])])
    return outcome(r)


def _req(req, over):
    form = req["ignore"]
    ig = {"absent": "IgAbsent", "str": None, "tuple": None, "list": None}[form[0]]
    if form[0] == "str":
        ig = f"(IgStr {cstr(form[1])})"
    elif form[0] in ("tuple", "list"):
        ig = f"({'IgTuple' if form[0] == 'tuple' else 'IgList'} {clist([cstr(s) for s in form[1]])})"
    fr = "None" if req["frozen"] is None else f"(Some {cbool(req['frozen'])})"
    return f"(mkreq {ig} {fr} {_kv(over)})"


def _cdkind(k):
    if isinstance(k, dict):
        return "(DList " + clist([_cdkind(x) for x in k["L"]]) + ")"
    if k in ("DDictE", "DDictN"):
        return f"(DDict {cbool(k == 'DDictE')})"
    return "(DTuple " + clist([_cdkind(x) for x in k]) + ")" if isinstance(k, list) else k


def _city(t):
    if isinstance(t, dict):
        return f"(IList {_city(t['L'])})"
    if t == "LBare":
        return "IListBare"
    if t == "DictBare":
        return "IDictBare"
    if isinstance(t, list):
        return "(ITuple " + clist([_city(x) for x in t]) + ")"
    return "IFail" if t == "IFail" else f"(IB {t})"


def _params_coq(params, defaults):
    ps = []
    for p in params:
        d = defaults.get(p["name"])
        ann = CANN_TAG[p["cann"]] if (p["ty"] == "none" and p.get("cann")) else ANN_COQ[p["ty"]]
        ps.append(f"mkparam {cstr(p['name'])} {KIND_COQ[p['kind']]} {ann} {copt(cstr(d)) if d is not None else 'None'} "
                  f"{'Immut' if not p['mut'] else '(MutC KList)' if _list_default(p) else '(MutC KDict)' if _dict_default(p) else 'MutOther'}")
    return ps


def _fields_coq(flds):
    return clist([cpair(cstr(n), copt(cstr(d)) if d is not None else "None") for n, d in flds])


def to_coq(case, obs):
    ps = _params_coq(case["params"], obs["defaults"])
    call = "None" if obs["call"] is None else f"(Some (mkcall {clist([cstr(v) for v in obs['call']['pos']])} {_kv(obs['call']['kw'])}))"
    pair = "None"
    if case["mode"] == "pair":
        pos = clist([f"(mkpo {outcome(['ok', cnat(o['label'][1])]) if o['label'][0] == 'ok' else outcome(o['label'])} "
                     f"{cnat(o['target'])} {_fields_coq(o['fields'])})" for o in obs["steps"]])
        called = "None" if obs["called"] is None else f"(Some {cnat(obs['called'])})"
        pair = (f"(Some (mkpi {clist(_params_coq(case['params2'], obs['defaults2']))} "
                f"{clist([cnat(k) for k, _ in case['steps']])} {cnat(case['use'])} {pos} {called}))")
    if case["mode"] in ("main", "pair"):
        reqs, sess, flds = "[]", "[]", "(Ok [])"
    else:
        reqs = clist([_req(r, o) for r, o in zip(case["session"], obs["overs"])])
        sess = clist([outcome(["ok", cnat(s[1])]) if s[0] == "ok" else outcome(s) for s in obs["session"]])
        if obs["fields"][0] == "ok":
            flds = outcome(["ok", clist([cpair(cstr(n), copt(cstr(d)) if d is not None else "None") for n, d in obs["fields"][1]])])
        else:
            flds = outcome(obs["fields"])
    untyped = clist([cpair(cstr(p["name"]), _cdkind(_dkind(p["default"]))) for p in case["params"]
                     if case["mode"] == "cf" and p["ty"] == "none" and p["default"] is not None and not p.get("cann")])
    inferred = clist([cpair(cstr(n), _city(t)) for n, t in obs.get("inferred", [])])
    byname = {p["name"]: p for p in case["params"]}
    tinfo = clist([cpair(cstr(n), f"({cbool(byname[n]['ty'] != 'none')}, {cbool(bool(byname[n].get('cann')))}, "
                                  f"{cbool(byname[n].get('cann_kind') == 'same')})") for n, _ in obs.get("ftype_ok", [])])
    return (f"mkcase {cbool(case['mode'] == 'main')} {clist(ps)} {_res_bind(obs['expected'])} "
            f"{clist([cstr(v) for v in obs['xpos']])} {_kv(obs['xkw'])} {reqs} {sess} {flds} {call} {_res_bind(obs['result'])} "
            f"{untyped} {inferred} {pair} {clist([cpair(cstr(n), cbool(b)) for n, b in obs.get('ftype_ok', [])])} {tinfo} "
            f"{clist([cstr(n) for n in obs.get('aliased', [])])}")


def shrink(case):
    if case["mode"] == "pair":
        steps = case["steps"]
        for i in range(len(steps)):
            rest = steps[:i] + steps[i + 1:]
            if any(k == case["use"] for k, _ in rest):
                yield dict(case, steps=rest)
        if case["argv"]:
            yield dict(case, argv=[])
        return
    params = case["params"]
    for i in range(len(params)):
        name = params[i]["name"]
        c = json.loads(json.dumps(case))
        c["params"] = params[:i] + params[i + 1:]
        c["argv"] = []
        if case["mode"] == "cf":
            for r in c["session"]:
                if r["ignore"][0] == "str" and r["ignore"][1] == name:
                    r["ignore"] = ["absent"]
                elif r["ignore"][0] in ("tuple", "list"):
                    r["ignore"][1] = [n for n in r["ignore"][1] if n != name]
                r["over"] = [kv for kv in r["over"] if kv[0] != name]
            c["call_kw"] = [kv for kv in c["call_kw"] if kv[0] != name]
        else:
            c["extra_kw"] = [kv for kv in c["extra_kw"] if kv[0] != name]
        yield c
    if case["argv"]:
        yield dict(case, argv=[])
    if case["doc"]:
        yield dict(case, doc=False)
    if case["mode"] == "cf" and len(case["session"]) > 2:
        yield dict(case, session=case["session"][:2])
