"""C10 — option spelling follows the generation mode, nested mode and dash variant."""
from __future__ import annotations

import itertools
import random

from coqemit import cbool, clist, cstr, cstrlist

ID = "C10"
FACTS = ["Conflicts", "OptStrSrc"]
COQ_HEADER = "From SPV Require Import CorrDefs.CorrC10."
COQ_CASE_TYPE = "case"
RULE = ("all 3 dash variants x 3 generation modes x 2 nested modes x {parse(), ArgumentParser} x dataclass trees of depth <= 3 without "
        "name clashes over names {x, ab, a_b, a_b_c, y, z_z} with aliases having 0/1/2 leading dashes (with and without underscores); "
        "one case per (configuration, API, tree, field); every registered spelling is parsed (must set exactly that field) and every "
        "spelling documented for another configuration but not this one must be rejected unless it abbreviates a registered option. "
        "The configuration x API x tree space is enumerated completely in both tiers; alias assignments are sampled from VERIF_SEED "
        "(more assignments in the thorough tier). Non-trivial = every case (each is a distinct configuration/field pair).")
TRUSTED = ["Model/MiniPy.v (the interpreter is the reading of Python for the dumped body of FieldWrapper.option_strings; itself checked against CPython by ./check MINIPY) and harness/translate/minipy.py (syntax-to-syntax dump, fail closed)",
           "argparse abbreviation matching is not modelled: spellings that are a prefix of a registered option are excluded from the 'rejected' probe"]
ASSUMPTIONS = ["field names clash with nothing (the conflict resolver is not involved: prefix is empty)"]
EXHAUSTIVE = {"quick": False, "thorough": False}

DV = {"UNDERSCORE": "DUnderscore", "UNDERSCORE_AND_DASH": "DBoth", "DASH": "DDash"}
GM = {"FLAT": "GFlat", "NESTED": "GNested", "BOTH": "GBoth"}
NM = {"DEFAULT": "NDefault", "WITHOUT_ROOT": "NWithoutRoot"}
# one-letter aliases written with TWO dashes and multi-letter ones with ONE dash keep the dashes they were declared with
# (seeded change C10-05 re-derived the dashes from the length of the name)
ALIASES = [[], ["-q"], ["al_1"], ["--long_al"], ["-w_w"], ["k"], ["--m-n", "p_q"], ["-r", "--s_t"], ["--d"], ["-ee", "--f"]]

TREES = [
    {"fields": ["x", "ab", "a_b"], "kids": []},
    {"fields": ["a_b"], "kids": [["sub", {"fields": ["a_b_c", "y"], "kids": []}]]},
    {"fields": ["x"], "kids": [["s_b", {"fields": ["ab"], "kids": [["deep", {"fields": ["z_z"], "kids": []}]]}]]},
    # members named like the destination ("d0"), ending with it, and a leaf named like it: the nested spelling must drop
    # exactly the first path component (seeded change C10-02)
    {"fields": ["y"], "kids": [["d0", {"fields": ["ab", "d0"], "kids": []}], ["md0", {"fields": ["x"], "kids": [["d0", {"fields": ["z_z"], "kids": []}]]}]]},
]


def leaves(tree, path=()):
    for f in tree["fields"]:
        yield list(path), f
    for kn, sub in tree["kids"]:
        yield from leaves(sub, path + (kn,))


def gen(tier, seed):
    rng = random.Random(f"C10-{seed}")
    cases = []
    rounds = 1 if tier == "quick" else 6
    for _ in range(rounds):
        for dv, gm, nm, api, ti in itertools.product(DV, GM, NM, ("parser", "parse"), range(len(TREES))):
            tree = TREES[ti]
            lv = list(leaves(tree))
            pool = ALIASES[:]
            rng.shuffle(pool)
            # distinct alias sets per field so that aliases never clash with each other
            amap = {}
            used = set()
            for i, (p, f) in enumerate(lv):
                al = pool[i % len(pool)] if rng.random() < 0.7 else []
                al = [a for a in al if a.lstrip("-") not in used]
                used.update(a.lstrip("-") for a in al)
                amap[".".join(p + [f])] = al
            for p, f in lv:
                cases.append({"dv": dv, "gm": gm, "nm": nm, "api": api, "tree": ti, "aliases": amap, "field": p + [f]})
    return cases


# --------------------------------------------------------------------------------------------------
# independent Python statement of the documented rules (README: "argument generation", "dash variants", "aliases")


def py_doc_options(dv, gm, nm, dest_path, name, aliases):
    d = dest_path
    nested = ".".join(d if nm == "DEFAULT" else d[1:])
    names = {"FLAT": [name], "NESTED": [nested], "BOTH": [name, nested]}[gm]
    out = []

    def dash_for(s):
        return "-" if len(s) == 1 else "--"

    lits = []
    for n in names:
        lit = n.replace("_", "-") if dv == "DASH" else n
        if len(name) == 1:
            lits.append(("-", lit))
        lits.append(("--", lit))
    for a in aliases:
        if a.startswith("--"):
            lits.append(("--", a[2:]))
        elif a.startswith("-"):
            lits.append(("-", a[1:]))
        else:
            lits.append((dash_for(a), a))
    out = [d_ + b for d_, b in lits]
    if dv == "UNDERSCORE_AND_DASH":
        for _, b in lits:
            if "_" in b:
                v = b.replace("_", "-")
                out.append(dash_for(v) + v)
    return sorted(set(out))


# --------------------------------------------------------------------------------------------------


def _classes(tree, amap):
    import dataclasses

    from simple_parsing import field

    def build(t, path):
        flds = []
        for f in t["fields"]:
            al = amap.get(".".join(path + [f]), [])
            flds.append((f, int, field(default=0, alias=al) if al else dataclasses.field(default=0)))
        for kn, sub in t["kids"]:
            c = build(sub, path + [kn])
            flds.append((kn, c, dataclasses.field(default_factory=c)))
        return dataclasses.make_dataclass("K_" + "_".join(path or ["root"]), flds)

    return build(tree, [])


def _run(case, argv):
    import simple_parsing as sp
    from simple_parsing import ArgumentParser
    from simple_parsing.wrappers.field_wrapper import ArgumentGenerationMode, DashVariant, NestedMode

    cls = _classes(TREES[case["tree"]], case["aliases"])
    kw = dict(add_option_string_dash_variants=DashVariant[case["dv"]], argument_generation_mode=ArgumentGenerationMode[case["gm"]],
              nested_mode=NestedMode[case["nm"]])
    if case["api"] == "parse":
        return sp.parse(cls, args=argv, dest="d0", **kw), None
    p = ArgumentParser(**kw)
    p.add_arguments(cls, "d0")
    if argv is None:
        p._preprocessing(args=[])
        return None, p
    return p.parse_args(argv).d0, None


def _leafvals(obj, tree, path=()):
    out = {}
    for f in tree["fields"]:
        out[".".join(path + (f,))] = getattr(obj, f)
    for kn, sub in tree["kids"]:
        out.update(_leafvals(getattr(obj, kn), sub, path + (kn,)))
    return out


def run_impl(cases):
    from implutil import outcome_of, reset_simple_parsing_state

    res = []
    for case in cases:
        reset_simple_parsing_state()
        tree = TREES[case["tree"]]
        path, name = case["field"][:-1], case["field"][-1]
        pcase = dict(case, api="parser")  # registered strings are read from an ArgumentParser configured identically

        def setup():
            _, p = _run(pcase, None)
            for w in p._wrappers:
                if w.dest == ".".join(["d0"] + path):
                    for fw in w.fields:
                        if fw.name == name:
                            return list(fw.option_strings), sorted(p._option_string_actions)
            raise LookupError("field wrapper not found")

        r = outcome_of(setup)
        if r[0] != "ok":
            res.append({"setup": r[:2], "opts": [], "members_ok": False, "nonmembers_ok": False, "detail": str(r)})
            continue
        opts, registered = r[1]
        leaf = ".".join(case["field"])
        members_ok, detail = True, ""
        for o in opts:
            for argv in ([o, "7"], [o + "=7"]) if o.startswith("--") else ([o, "7"],):
                reset_simple_parsing_state()
                rr = outcome_of(lambda: _leafvals(_run(case, argv)[0], tree))
                if rr[0] != "ok" or rr[1].get(leaf) != 7 or any(v != 0 for k, v in rr[1].items() if k != leaf):
                    members_ok, detail = False, f"{argv} -> {rr[:2]}"
        # spellings documented for another configuration but not for this one
        al = case["aliases"].get(leaf, [])
        others = set()
        for dv, gm, nm in itertools.product(DV, GM, NM):
            others.update(py_doc_options(dv, gm, nm, ["d0"] + case["field"], name, al))
        nonmembers_ok = True
        for o in sorted(others - set(opts)):
            if not o.startswith("--") or any(rg.startswith(o) for rg in registered):
                continue
            reset_simple_parsing_state()
            rr = outcome_of(lambda: _leafvals(_run(case, [o, "7"])[0], tree))
            if rr[0] == "ok":
                nonmembers_ok, detail = False, f"{o} accepted -> {rr[1]}"
        res.append({"setup": ["ok"], "opts": list(opts), "members_ok": members_ok, "nonmembers_ok": nonmembers_ok, "detail": detail})
    return res


def py_spec(case, obs):
    if obs["setup"][0] != "ok":
        return f"set-up failed: {obs['detail']}"
    leaf = ".".join(case["field"])
    doc = py_doc_options(case["dv"], case["gm"], case["nm"], ["d0"] + case["field"], case["field"][-1], case["aliases"].get(leaf, []))
    if doc != sorted(obs["opts"]):
        return f"registered {sorted(obs['opts'])} but documented {doc}"
    if not obs["members_ok"]:
        return f"a registered spelling does not set exactly the field: {obs['detail']}"
    if not obs["nonmembers_ok"]:
        return f"a spelling of another mode is accepted: {obs['detail']}"
    return None


def signature(case, obs, reason):
    return f"{case['dv']}:{case['gm']}:{case['nm']}:" + reason.split(" ")[0] + "-" + reason.split(" ")[1]


def nontrivial(case, obs):
    return obs["setup"][0] == "ok"


def features(case, obs):
    leaf = ".".join(case["field"])
    return {"dv": case["dv"], "gm": case["gm"], "nm": case["nm"], "api": case["api"], "depth": len(case["field"]),
            "naliases": len(case["aliases"].get(leaf, [])), "nopts": len(obs["opts"])}


def to_coq(case, obs):
    leaf = ".".join(case["field"])
    al = case["aliases"].get(leaf, [])
    cfg = f"(mkcfg {DV[case['dv']]} {GM[case['gm']]} {NM[case['nm']]})"
    fw = f"(mkfw {cstrlist(['d0'] + case['field'][:-1])} {cstr(case['field'][-1])} \"\" {cstrlist(al)} false)"
    return f"mkcase {cfg} {fw} {cbool(obs['setup'][0] == 'ok')} {cstrlist(obs['opts'])} {cbool(obs['members_ok'])} {cbool(obs['nonmembers_ok'])}"
