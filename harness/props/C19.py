"""C19 — a field's help text comes from its own documentation, by fixed precedence.

Every case is a small module of dataclasses WRITTEN TO DISK and imported (so inspect.getsource works on the real
file); the implementation is observed through simple_parsing.docstring.get_attribute_docstring and through the
FieldWrappers an ArgumentParser creates (their `.help`)."""
from __future__ import annotations

import itertools
import random

from coqemit import cbool, clist, cnat, copt, cpair, cstr, cstrlist

ID = "C19"
FACTS = ["Doc", "DocSrc"]
COQ_HEADER = "From SPV Require Import CorrDefs.CorrC19."
COQ_CASE_TYPE = "case"
RULE = ("modules of 1-3 dataclasses written to real files (linear inheritance chains; subclasses re-declare some fields); "
        "every (class, field) gets a subset of the five documentation positions {help=, docstring below, comment block above, "
        "inline comment, class-docstring Args entry} filled with marker texts that are distinct per class x field x position x "
        "line; all 32 subsets x neighbour documentation x field order x quote style are enumerated for a two-field class, the rest "
        "is sampled from VERIF_SEED over: comment texts that contain '#', ':', '=', quote characters and triple-quote tokens themselves, string defaults with '#' inside single / double / triple quotes, escaped quotes and backslashes "
        "(with and without a real comment after the string), field order, 0-2 blank lines, 1-3 line comment blocks, one-line / multi-line docstrings "
        "(text on the quote lines or not), both quote styles, decorators with arguments, field names that are prefixes of each "
        "other. Extra streams: a class docstring documenting an inherited field; multiple inheritance queried in both orders "
        "(cache history); '#' inside a string default; a comment on the class line; malformed sources (valid-Python snippets in "
        "real files, and arbitrary token soup through a patched inspect_getsource) where only model = implementation is checked. "
        "corpus/C19/*.json (the minimised inputs of the repaired defects: cache aliasing, class-line comment, inherited entry, and of "
        "the remaining '#'-in-default finding) run first. "
        "Non-trivial = at least one queried field has at least one position filled; distinct by full case.")
TRUSTED = ["inspect.getsource / inspect.getdoc / cls.__doc__ (observed per class and given to the model as the case input)",
           "docstring_parser (third party): the params it returns for each class docstring are an oracle input of the case",
           "DataclassWrapper creates one FieldWrapper per dataclass field, in field order, each calling get_attribute_docstring once"]
ASSUMPTIONS = ["source text is ASCII with '\\n' as the only line boundary (checked per case by in_scope)",
               "the lru_cache (2048 entries) never evicts within one case"]

# string defaults with '#' inside single / double / triple quotes, escaped quotes, escaped backslashes, raw strings
HASH_DEFAULTS = ['"#ff0000"', "'#'", '"a # b"', "'''t#q'''", '"""d # q"""', '"q\\"#"', "'it\\'s #1'", '"back\\\\"', '"mixed \' # quote"', '\'other " # one\'', 'r"raw\\d#"', '"#" + "#"', '(\'#\', "#")[0]']

NAMES = ["a", "ab", "abc", "x", "x_", "x1", "lr", "lr_decay", "_p", "name", "names"]
TYPES = ["int", "float", "str", "bool", "List[int]", "Optional[str]", "Dict[str,int]"]
VALUES = {"int": ["0", "12"], "float": ["0.5", "1e-3"], "str": ["'s'", "\"two words\""] + HASH_DEFAULTS[:11], "bool": ["False", "True"],
          "List[int]": ["field(default_factory=list)", "field(default_factory=lambda: [1, 2])"], "Optional[str]": ["None"],
          "Dict[str,int]": ["field(default_factory=dict)"]}
DECOS = [["@dataclass"], ["@dataclass(frozen=True)"], ["@dataclass()"], ["@dataclass(eq=True, order=False)"],
         ["@decorate(1, key='v')", "@dataclass"]]
PRELUDE = ("from dataclasses import dataclass\nfrom typing import Dict, List, Optional\nfrom simple_parsing.helpers import field\n\n\n"
           "def decorate(*a, **k):\n    return lambda c: c\n\n\n")
POS = ["help", "below", "above", "inline", "entry"]


# --------------------------------------------------------------------------------------------------
# DSL -> source text (mirrors Model/DocScanSpec.v `render`; the Coq side re-checks equality with the real lines)


def q_tok(q):
    return '"""' if q == "d" else "'''"


def render_below(ind, b):
    t = q_tok(b["q"])
    if b["kind"] == "one":
        return [ind + t + b["first"] + t]
    return [ind + t + b["first"]] + [ind + m for m in b["mids"]] + [ind + b["last"] + t]


def value_text(f):
    v = f["value"]
    if f.get("help") is not None:
        inner = f"default={v}" if v is not None and not v.startswith("field(") else (v[len("field("):-1] if v else "")
        # two ways of giving an explicit help: simple_parsing's field(help=..) (kept in metadata['custom_args'] and laid over
        # the generated options) and plain dataclasses metadata={'help': ..} (read by FieldWrapper.help)
        how = f"help={f['help']!r}" if f.get("help_via", "custom") == "custom" else "metadata={'help': %r}" % f["help"]
        v = "field(" + ", ".join(x for x in [inner, how] if x) + ")"
    return v


def field_line(ind, f):
    v = value_text(f)
    return (ind + f["name"] + ": " + f["type"] + (" = " + v if v is not None else "")
            + ("  # " + f["inline"] if f["inline"] is not None else ""))


def render_fld(ind, f):
    return ([""] * f["blank"] + [ind + "# " + c for c in f["above"]] + [field_line(ind, f)]
            + (render_below(ind, f["below"]) if f["below"] else []))


def class_line(k):
    return "class " + k["name"] + ("(" + ", ".join(k["bases"]) + ")" if k["bases"] else "") + ":" + k.get("class_comment", "")


def class_doc_lines(k, ind):
    """the class docstring as written (None: no docstring)"""
    if k.get("entries") is None:
        return None
    out = [ind + '"""Summary of ' + k["name"] + ".", ""]
    if k["entries"]:
        out.append(ind + "Args:")
        for n, t in k["entries"]:
            out.append(ind + "    " + n + ": " + t)
    out.append(ind + '"""')
    return out


def class_source(k):
    if "raw" in k:
        return list(k["raw"])
    ind = " " * k["ind"]
    lines = list(k["deco"]) + [class_line(k)]
    d = class_doc_lines(k, ind)
    if d:
        lines += d
    body = []
    for f in k["fields"]:
        body += render_fld(ind, f)
    if not body and not d:
        body = [ind + "pass"]
    return lines + body + [""] * k.get("trail", 0)


def header_after_doc_removal(k):
    """l_hdr of the layout: what is above the first field once `source.replace(cls.__doc__, NL, 1)` has run"""
    ind = " " * k["ind"]
    h = list(k["deco"]) + [class_line(k)]
    if k.get("entries") is not None:
        h += [ind + '"""', '"""']
    elif not k["fields"]:
        h += [ind + "pass"]
    return h


def module_source(case):
    out = [PRELUDE]
    for k in case["classes"]:
        if k.get("synthetic"):
            continue
        out.append("\n".join(class_source(k)) + "\n\n\n")
    return "".join(out)


# --------------------------------------------------------------------------------------------------
# generation


def marker(cls, fname, pos, i=0):
    return f"{pos[:2]}{i} {fname} {cls}"


# comment texts may themselves contain '#', ':' and '=' (issue numbers, "key: value", "a = b")
COMMENT_EXTRAS = ["", "", "", " #12", ": see #3 # and #4", " = a: b", " (default = 0) # noqa",
                  " it's", ' "quoted"', ' use """ here', " '''x''' and \"\"\"y\"\"\""]


def comment_marker(rng, cls, fname, pos, i=0):
    return marker(cls, fname, pos, i) + rng.choice(COMMENT_EXTRAS)


def mk_below(rng, cls, fname, q=None, shape=None):
    q = q or rng.choice(["d", "s"])
    shape = shape or rng.choice(["one", "one", "own", "text", "mixed"])
    m = lambda i: marker(cls, fname, "below", i)
    if shape == "one":
        return dict(q=q, kind="one", first=m(0), mids=[], last="")
    if shape == "own":      # quotes on their own lines
        return dict(q=q, kind="multi", first="", mids=[m(i) for i in range(rng.choice([1, 2, 3]))], last="")
    if shape == "text":     # text on the quote lines
        return dict(q=q, kind="multi", first=m(0), mids=[m(i + 1) for i in range(rng.choice([0, 1, 2]))], last=m(9))
    return dict(q=q, kind="multi", first=m(0), mids=[m(1), "", m(2)][: rng.choice([1, 3])], last="")


def mk_field(rng, cls, name, subset, blank=None, q=None, shape=None, nabove=None):
    typ = rng.choice(TYPES)
    value = rng.choice(VALUES[typ] + [None] * (0 if "help" in subset else 1)) if rng.random() < 0.85 or "help" in subset else None
    return dict(name=name, type=typ, value=value, blank=rng.choice([0, 0, 1, 2]) if blank is None else blank,
                above=[comment_marker(rng, cls, name, "above", i) for i in range(nabove or rng.choice([1, 1, 2, 3]))] if "above" in subset else [],
                inline=comment_marker(rng, cls, name, "inline") if "inline" in subset else None,
                below=mk_below(rng, cls, name, q, shape) if "below" in subset else None,
                help=marker(cls, name, "help") if "help" in subset else None,
                help_via=rng.choice(["custom", "metadata"]))


def fix_required_order(fields):
    """dataclass rule: no required field after one with a default (within one class body we simply give defaults)"""
    seen_default = False
    for f in fields:
        if f["value"] is not None or f.get("help") is not None:
            seen_default = True
        elif seen_default:
            f["value"] = {"int": "0", "float": "0.5", "str": "'s'", "bool": "False"}.get(f["type"], "None")
    return fields


def mk_class(rng, name, bases, field_specs, entries_for=(), deco=None, ind=None, force_doc=False):
    """field_specs: [(fname, subset)] in body order"""
    fields = fix_required_order([mk_field(rng, name, n, s) for n, s in field_specs])
    entries = [(n, marker(name, n, "entry")) for n, s in field_specs if "entry" in s] + [(n, marker(name, n, "entry")) for n in entries_for]
    k = dict(name=name, bases=bases, deco=deco or rng.choice(DECOS), ind=ind or rng.choice([4, 4, 4, 2, 8]), fields=fields,
             entries=entries if (entries or force_doc or rng.random() < 0.15) else None, trail=0)
    if bases:
        for f in k["fields"]:     # inherited fields have defaults in the bases we generate
            if f["value"] is None and f.get("help") is None:
                f["value"] = {"int": "0", "float": "0.5", "str": "'s'", "bool": "False"}.get(f["type"], "None")
    return k


def all_default(k):
    for f in k["fields"]:
        if f["value"] is None and f.get("help") is None:
            f["value"] = {"int": "0", "float": "0.5", "str": "'s'", "bool": "False"}.get(f["type"], "None")
    return k


def subsets():
    return [[p for p, b in zip(POS, bits) if b] for bits in itertools.product([0, 1], repeat=5)]


def all_fields(case, cname):
    """field names visible in class cname (own + inherited), by walking bases in the DSL"""
    ks = {k["name"]: k for k in case["classes"]}
    out, todo, seen = [], [cname], set()
    while todo:
        c = todo.pop(0)
        if c in seen or c not in ks:
            continue
        seen.add(c)
        for f in ks[c].get("fields", []):
            if f["name"] not in out:
                out.append(f["name"])
        todo += ks[c].get("bases", [])
    return out


def std_queries(rng, case, shuffle=True, limit=5):
    """explicit get_attribute_docstring calls made before the parser is built (the parser then asks for every field of
    the target class): a sample of (class, visible field) pairs, in random order"""
    qs = []
    for k in case["classes"]:
        for n in all_fields(case, k["name"]):
            qs.append([k["name"], n])
    if shuffle:
        rng.shuffle(qs)
    return qs[:limit]


def gen_enumerated(rng):
    """two fields, the first one gets every subset; neighbour documentation x order x quote style"""
    out = []
    neighbours = [[], ["above", "inline"], ["below"], ["above", "below", "inline", "entry", "help"]]
    for s in subsets():
        for nb in neighbours:
            for order in (0, 1):
                for q in ("d", "s"):
                    shape = rng.choice(["one", "own", "text", "mixed"])
                    f1 = mk_field(rng, "K", "lr", s, q=q, shape=shape)
                    f2 = mk_field(rng, "K", "lr_decay", nb, q=rng.choice(["d", "s"]))
                    fs = fix_required_order([f1, f2] if order == 0 else [f2, f1])
                    entries = [(f["name"], marker("K", f["name"], "entry")) for f, ss in ((f1, s), (f2, nb)) if "entry" in ss]
                    k = dict(name="K", bases=[], deco=rng.choice(DECOS), ind=4, fields=fs, entries=entries or None, trail=0)
                    case = dict(kind="grammar", classes=[k], target="K", spec=True)
                    case["queries"] = std_queries(rng, case)
                    out.append(case)
    return out


def gen_chain(rng):
    depth = rng.choice([1, 2, 2, 3, 3])
    pool = rng.sample(NAMES, rng.choice([2, 3, 3, 4]))
    classes, names = [], ["A", "B", "C"][:depth]
    declared = []
    deco = rng.choice(DECOS)
    for i, cn in enumerate(names):
        if i == 0:
            mine = rng.sample(pool, rng.randint(1, len(pool)))
        else:
            mine = [n for n in pool if rng.random() < 0.5]   # re-declare some, add some
        rng.shuffle(mine)
        specs = [(n, rng.choice(subsets())) for n in mine]
        k = mk_class(rng, cn, [names[i - 1]] if i else [], specs, deco=deco)
        if i > 0:
            all_default(k)
        classes.append(k)
        declared += mine
    if depth > 1:
        all_default(classes[0])
        for k in classes:
            all_default(k)
    case = dict(kind="grammar", classes=classes, target=rng.choice(names[-2:]), spec=True)
    case["queries"] = std_queries(rng, case)
    return case


def gen_entry_inherited(rng):
    """the subclass documents an inherited field in ITS class docstring without re-declaring it"""
    deco = rng.choice(DECOS)
    a = all_default(mk_class(rng, "A", [], [("x", rng.choice(subsets())), ("y", rng.choice(subsets()))], deco=deco))
    b = all_default(mk_class(rng, "B", ["A"], [("z", rng.choice(subsets()))] if rng.random() < 0.7 else [], entries_for=["x"], deco=deco))
    case = dict(kind="entry-inherited", classes=[a, b], target="B", spec=True)
    case["queries"] = std_queries(rng, case)
    return case


def gen_mixin(rng, order):
    """D(A, X): X is not in A's chain.  order 0: A queried before D (fresh), 1: D first, then A"""
    sa = rng.choice([["inline"], ["above"], [], ["entry"]])
    sx = rng.choice([["below"], ["below", "above"], ["above", "inline", "below", "entry"]])
    deco = rng.choice(DECOS)
    a = all_default(mk_class(rng, "A", [], [("x", sa)], deco=deco))
    x = all_default(mk_class(rng, "X", [], [("x", sx)], deco=deco))
    d = all_default(mk_class(rng, "D", ["A", "X"], [], deco=deco))
    case = dict(kind="mixin-history", classes=[a, x, d], target="A", spec=True)
    case["queries"] = [["A", "x"], ["D", "x"], ["X", "x"]] if order == 0 else [["D", "x"], ["A", "x"], ["X", "x"]]
    return case


def gen_hash_default(rng):
    k = all_default(mk_class(rng, "K", [], [("color", rng.choice([[], ["above"], ["below"]])), ("n", rng.choice(subsets()))]))
    f = k["fields"][0]
    f["type"], f["value"] = "str", rng.choice(HASH_DEFAULTS)
    if rng.random() < 0.5:      # '#' inside the string AND a real comment after it
        f["inline"] = marker("K", "color", "inline")
    case = dict(kind="hash-in-default", classes=[k], target="K", spec=True)
    case["queries"] = std_queries(rng, case)
    return case


def gen_class_comment(rng):
    k = all_default(mk_class(rng, "K", [], [("a", rng.choice([[], ["inline"], ["below"]])), ("b", rng.choice(subsets()))]))
    k["class_comment"] = rng.choice(["  # noqa", "  # pylint: disable=too-many-instance-attributes", " #"])
    k["entries"] = None
    case = dict(kind="class-line-comment", classes=[k], target="K", spec=True)
    case["queries"] = std_queries(rng, case)
    return case


SNIPPETS = [
    ["    x: int = 0"], ["    x: int = 0  # c-x"], ["    y: str = 'v'"], ["    ab: int = 1", "    '''doc ab'''"],
    ["    a: int = 1", '    """doc a"""'], ["    # lone comment"], [""], ["", ""], ["    # c1", "    # c2"],
    ["    a : int=3#tight"], ["    d: Dict[str, int] = field(default_factory=lambda: {'k': 1})"],
    ["    lr: float = field(", "        default=0.1,", "        help='h',", "    )"],
    ["    x1: 'Optional[str]' = None"], ["    s: str = 'a: b = c'"], ["    s2: str = '''triple'''"],
    ["    t: str = \"#hash\"  # after"], ["    def method(self):", "        z: int = 3", "        return z"],
    ["    @property", "    def p(self) -> int:", "        return 1"], ["    name: str = 'n'", "", "    '''doc after blank'''"],
    ["    names: List[int] = field(default_factory=list)", "    # comment between", "    '''doc after comment'''"],
    ["    x_: int = 2", '    """', "    multi x_", "", "    more: text = here", '    """'],
    ["    _p: int = 3", "    ''' a \"\"\" b", "    second '''"], ["    abc: int = 4", '    """ one \'\'\' two """'],
    ["    u: int = 5 ;  v: int = 6"], ["    class Inner:", "        x: int = 9", "        '''inner doc'''"],
    ["    w = 3"], ["    CONST: int = 3  #: sphinx style"], ["    x: int = 7  # second declaration of x"],
    ["    '''stray docstring'''"], ['    """stray', "    multi", '    """'], ["    lr_decay: float = 0.5", "    pass  # '''"],
]
SOUP_TOKENS = ["x", "ab", "a", ":", ": ", "=", " = ", "#", " # ", '"""', "'''", " ", "    ", "int", "0", "text", "more text", "lr",
               "class", "def f(self):", "@", "(", ")", "\t", "'", '"', "x:", "a b", ";", ","]


def gen_snippets(rng):
    body = []
    for _ in range(rng.randint(1, 6)):
        body += rng.choice(SNIPPETS)
    hdr = rng.choice(DECOS) + ["class K:" + rng.choice(["", "", "  # c"])]
    if rng.random() < 0.4:
        hdr += rng.choice([['    """Class doc."""'], ['    """Class doc.', "", "    Args:", "        x: entry x", "        ab: entry ab", '    """'],
                           ["    '''x: int = 0'''"]])
    raw = hdr + body
    if not any(l.strip() and not l.strip().startswith("#") for l in body) or raw[-1].strip() == "":
        raw.append("    zz: int = 0")
    k = dict(name="K", bases=[], raw=raw)
    return dict(kind="snippets", classes=[k], target=None, spec=False,
                queries=[["K", n] for n in ["x", "a", "ab", "abc", "lr", "lr_decay", "name", "names", "x_", "_p", "u", "v", "z", "s", "t", "zz"]])


def gen_soup(rng):
    n = rng.randint(2, 9)
    raw = ["@dataclass", "class K:"][rng.choice([0, 1]):]
    for _ in range(n):
        raw.append("".join(rng.choice(SOUP_TOKENS) for _ in range(rng.randint(0, 7))))
    doc = None
    if rng.random() < 0.3:
        # (no ':' in the synthetic __doc__: docstring_parser, a third-party oracle here, crashes on some ReST-looking texts)
        doc = rng.choice([l for l in raw[1:] if ":" not in l and l.strip()] + ["x", "text"])
    k = dict(name="K", bases=[], raw=raw, synthetic=True, doc=doc)
    qs = [["K", n] for n in ["x", "ab", "a", "lr", "int", "class", "text"]]
    if rng.random() < 0.3:   # a synthetic base class too
        raw2 = ["class P:"] + ["".join(rng.choice(SOUP_TOKENS) for _ in range(rng.randint(0, 7))) for _ in range(rng.randint(1, 6))]
        k["bases"] = ["P"]
        return dict(kind="soup", classes=[dict(name="P", bases=[], raw=raw2, synthetic=True, doc=None), k], target=None, spec=False,
                    queries=qs + [["P", "x"], ["K", "x"]])
    return dict(kind="soup", classes=[k], target=None, spec=False, queries=qs)


def _corpus():
    """corpus/C19/*.json: minimised inputs that once failed (the three repaired defects and the remaining finding);
    they run first in every tier, so a regression of a repair is reported again with its old signature"""
    import json
    import os
    d = os.path.join(os.path.dirname(os.path.dirname(os.path.dirname(os.path.abspath(__file__)))), "corpus", "C19")
    out = []
    if os.path.isdir(d):
        for f in sorted(os.listdir(d)):
            if f.endswith(".json"):
                with open(os.path.join(d, f)) as fh:
                    out.append(json.load(fh))
    return out


def gen(tier, seed):
    rng = random.Random(f"C19-{seed}")
    big = tier != "quick"
    cases = gen_enumerated(rng)                                    # 512
    if big:
        for _ in range(3):
            cases += gen_enumerated(rng)
    cases += [gen_chain(rng) for _ in range(6000 if big else 500)]
    cases += [gen_entry_inherited(rng) for _ in range(200 if big else 24)]
    cases += [gen_mixin(rng, i % 2) for i in range(200 if big else 24)]
    cases += [gen_hash_default(rng) for _ in range(100 if big else 12)]
    cases += [gen_class_comment(rng) for _ in range(100 if big else 12)]
    cases += [gen_snippets(rng) for _ in range(3000 if big else 250)]
    cases += [gen_soup(rng) for _ in range(6000 if big else 500)]
    rng.shuffle(cases)       # every chunk evaluated inside Coq gets the same mix of streams
    return _corpus() + cases


# --------------------------------------------------------------------------------------------------
# implementation side

_COUNTER = [0]


def _snap(d):
    return [d.comment_above, d.comment_inline, d.docstring_below, d.desc_from_cls_docstring]


def run_impl(cases):
    import importlib.util
    import inspect
    import linecache
    import os
    import sys

    import docstring_parser as dp
    from implutil import outcome_of, reset_simple_parsing_state
    from simple_parsing import ArgumentParser
    from simple_parsing import docstring as D

    real_getsource, real_getdoc = D.inspect_getsource, D.inspect_getdoc
    moddir = os.path.join(os.getcwd(), f"mods_{os.getpid()}")
    os.makedirs(moddir, exist_ok=True)
    out = []
    for case in cases:
        reset_simple_parsing_state()
        for fn in (D._get_attribute_docstring, real_getsource, real_getdoc, D.dp_parse):
            getattr(fn, "cache_clear", lambda: None)()      # (a function that is not cached has nothing to clear)
        linecache.clearcache()
        _COUNTER[0] += 1
        modname = f"c19mod_{os.getpid()}_{_COUNTER[0]}"
        path = os.path.join(moddir, modname + ".py")
        classes = {}
        synthetic = {}
        try:
            if any(not k.get("synthetic") for k in case["classes"]):
                with open(path, "w") as f:
                    f.write(module_source(case))
                spec = importlib.util.spec_from_file_location(modname, path)
                mod = importlib.util.module_from_spec(spec)
                sys.modules[modname] = mod
                r = outcome_of(lambda: spec.loader.exec_module(mod))
                if r[0] != "ok":
                    out.append(dict(error=f"import failed: {r[1:3]}", classes=[], queries=[], helps=[]))
                    continue
                for k in case["classes"]:
                    if not k.get("synthetic"):
                        classes[k["name"]] = getattr(mod, k["name"])
            for k in case["classes"]:
                if k.get("synthetic"):
                    cls = type(k["name"], tuple(classes[b] for b in k["bases"]), {})
                    cls.__doc__ = k.get("doc")
                    classes[k["name"]] = cls
                    synthetic[cls] = "\n".join(k["raw"]) + "\n"
            if synthetic:
                # inspect.getsource is an oracle of the model: for the token-soup stream the text is supplied directly
                D.inspect_getsource = lambda c: synthetic[c] if c in synthetic else real_getsource(c)
            kobs = []
            for k in case["classes"]:
                cls = classes[k["name"]]
                try:
                    src = synthetic[cls] if cls in synthetic else inspect.getsource(cls)
                except (TypeError, OSError):
                    src = None
                doc = cls.__doc__ or None
                gd = inspect.getdoc(cls)
                try:
                    args = [[p.arg_name, p.description or ""] for p in dp.parse(gd).params] if gd else []
                except Exception as e:  # noqa: BLE001 - the oracle itself failed: reported as outside the model's scope
                    raise RuntimeError(f"docstring_parser failed on the class docstring: {type(e).__name__}")
                kobs.append(dict(name=k["name"], mro=[c.__name__ for c in inspect.getmro(cls)[:-1]],
                                 src=src.split("\n") if src is not None else None,
                                 doc=doc.split("\n") if doc else None, args=args))
            qobs = []
            for cn, fname in case["queries"]:
                r = outcome_of(lambda: _snap(D.get_attribute_docstring(classes[cn], fname)))
                qobs.append(r[1] if r[0] == "ok" else ["!" + str(r[1]), "", "", ""])
            helps = []
            if case.get("target"):
                def build():
                    p = ArgumentParser()
                    p.add_arguments(classes[case["target"]], "t")
                    p._preprocessing(args=[])
                    res = []
                    for w in p._wrappers:
                        for fw in w.fields:
                            res.append(dict(field=fw.name, explicit=fw.field.metadata.get("help") or None,
                                            parts=_snap(fw._docstring), help=fw.help,
                                            custom=fw.custom_arg_options.get("help"),
                                            has_default=fw.default is not None,
                                            action_help=fw.arg_options.get("help")))
                    return res
                r = outcome_of(build)
                if r[0] != "ok":
                    out.append(dict(error=f"parser failed: {r[1:3]}", classes=kobs, queries=qobs, helps=[]))
                    continue
                helps = r[1]
            out.append(dict(error=None, classes=kobs, queries=qobs, helps=helps))
        except RuntimeError as e:
            out.append(dict(error=str(e), classes=[], queries=[], helps=[]))
        finally:
            D.inspect_getsource = real_getsource
            sys.modules.pop(modname, None)
            try:
                os.remove(path)
            except OSError:
                pass
    try:
        os.rmdir(moddir)
    except OSError:
        pass
    return out


# --------------------------------------------------------------------------------------------------
# spec (Python mirror of Model/DocScanSpec.v + CorrC19.spec_ok)


def below_text(b):
    if b["kind"] == "one":
        return b["first"]
    return "\n".join([b["first"]] + b["mids"] + [b["last"]])


def provided(k, fname):
    """[above, inline, below, entry] that class k provides for fname"""
    p = ["", "", "", ""]
    for f in k["fields"]:
        if f["name"] == fname:
            p[:3] = ["\n".join(f["above"]), f["inline"] or "", below_text(f["below"]) if f["below"] else ""]
            break
    for n, t in (k.get("entries") or []):
        if n == fname:
            p[3] = t
    return p


def spec_parts(case, obs, cname, fname):
    ks = {k["name"]: k for k in case["classes"]}
    mro = next(o["mro"] for o in obs["classes"] if o["name"] == cname)
    chain = [provided(ks[c], fname) for c in mro]
    return [next((c[i] for c in chain if c[i] != ""), "") for i in range(4)]


def spec_help(explicit, parts):
    for s in [explicit or "", parts[2], parts[0], parts[1], parts[3]]:
        if s != "":
            return s
    return None


def _failures(case, obs):
    if obs.get("error"):
        return [("setup", obs["error"])]
    if not case["spec"]:
        return []
    out = []
    pn = ["above", "inline", "below", "entry"]
    for (cn, fname), got in zip(case["queries"], obs["queries"]):
        want = spec_parts(case, obs, cn, fname)
        for i in range(4):
            if got[i] != want[i]:
                out.append((pn[i], f"get_attribute_docstring({cn}, {fname!r}).{pn[i]} = {got[i]!r}, the layout demands {want[i]!r}"))
    for h in obs["helps"]:
        wp = spec_parts(case, obs, case["target"], h["field"])
        for i in range(4):      # what the FieldWrapper itself obtained (mirrors spec_ok over all_queries)
            if h["parts"][i] != wp[i]:
                out.append((pn[i], f"FieldWrapper of {case['target']}.{h['field']}: _docstring.{pn[i]} = {h['parts'][i]!r}, the layout demands {wp[i]!r}"))
        want = spec_help(h["explicit"], wp)
        if h["help"] != want:
            out.append(("help", f"help of {case['target']}.{h['field']} = {h['help']!r}, demanded {want!r}"))
        ah = h["action_help"]
        want = spec_help(h["custom"] if h["custom"] is not None else h["explicit"], spec_parts(case, obs, case["target"], h["field"]))
        if (want is not None and ah != want) or (want is None and ah not in (None, "<__TEMP__>")):
            out.append(("help", f"help= given to the argparse action of {case['target']}.{h['field']} = {ah!r}, demanded {want!r}"))
    return out


def py_spec(case, obs):
    f = _failures(case, obs)
    return f[0][1] if f else None


def signature(case, obs, reason):
    f = _failures(case, obs)
    comps = sorted({c for c, _ in f}) or ["coq-spec"]
    if case["kind"] != "grammar":     # the extra streams: one class of failure each (what was read wrongly / only the help chosen)
        return f"{case['kind']}:{'help' if comps == ['help'] else ('setup' if comps == ['setup'] else 'parts')}"
    return f"{case['kind']}:{'+'.join(comps)}"


def nontrivial(case, obs):
    if obs.get("error"):
        return False
    return any(any(p != "" for p in q) for q in obs["queries"])


def features(case, obs):
    d = {"kind": case["kind"], "classes": len(case["classes"]), "queries": min(len(case["queries"]), 12)}
    if not obs.get("error"):
        filled = sum(1 for q in obs["queries"] for p in q if p != "")
        d["parts_filled"] = "0" if filled == 0 else ("1-5" if filled <= 5 else "6+")
        d["helps_some"] = sum(1 for h in obs["helps"] if h["help"]) > 0
    return d


# --------------------------------------------------------------------------------------------------
# Coq emission


def c_below(b):
    q = "Dq" if b["q"] == "d" else "Sq"
    if b["kind"] == "one":
        return f"(DOne {q} {cstr(b['first'])})"
    return f"(DMulti {q} {cstr(b['first'])} {cstrlist(b['mids'])} {cstr(b['last'])})"


def c_fld(f):
    v = value_text(f)
    return (f"(mkfld {cstr(f['name'])} {cstr(f['type'])} {copt(cstr(v)) if v is not None else 'None'} {cnat(f['blank'])} "
            f"{cstrlist(f['above'])} {copt(cstr(f['inline'])) if f['inline'] is not None else 'None'} "
            f"{copt(c_below(f['below'])) if f['below'] else 'None'})")


def c_layout(k):
    if "raw" in k:
        return "None"
    return (f"(Some (mklayout {cstrlist(header_after_doc_removal(k))} {cnat(k['ind'])} "
            f"{clist([c_fld(f) for f in k['fields']])} {cnat(k.get('trail', 0))}))")


def ctext(s):
    """a string that may span lines: (jn [line; ...]) keeps the literals printable"""
    if "\n" in s:
        return "(jn " + cstrlist(s.split("\n")) + ")"
    return cstr(s)


def c_parts(p):
    p = [x if isinstance(x, str) else "" for x in p]
    return f"(mkparts {ctext(p[0])} {ctext(p[1])} {ctext(p[2])} {ctext(p[3])})"


def to_coq(case, obs):
    if obs.get("error"):
        # nothing observed: an empty history is outside the model's scope on purpose (reported, never silently passed)
        return f"(mkcase [mkk \"?\" [] (Some [String (ascii_of_nat 200) \"\"]) None [] None] [] \"\" [] false)"
    ks = []
    dsl = {k["name"]: k for k in case["classes"]}
    for o in obs["classes"]:
        k = dsl[o["name"]]
        ks.append(f"(mkk {cstr(o['name'])} {cstrlist(o['mro'])} {copt(cstrlist(o['src'])) if o['src'] is not None else 'None'} "
                  f"{copt(cstrlist(o['doc'])) if o['doc'] is not None else 'None'} "
                  f"{clist([cpair(cstr(a), ctext(b)) for a, b in o['args']])} {c_layout(k)})")
    qs = [f"(mkq {cstr(cn)} {cstr(fn)} {c_parts(got)})" for (cn, fn), got in zip(case["queries"], obs["queries"])]
    hs = [f"(mkh {cstr(h['field'])} {copt(ctext(h['explicit'])) if h['explicit'] else 'None'} {c_parts(h['parts'])} "
          f"{copt(ctext(h['help'])) if h['help'] is not None else 'None'} {copt(ctext(h['custom'])) if isinstance(h['custom'], str) else 'None'} {cbool(h['has_default'])} "
          f"{copt(ctext(h['action_help'])) if isinstance(h['action_help'], str) else 'None'})" for h in obs["helps"]]
    return f"(mkcase {clist(ks)} {clist(qs)} {cstr(case.get('target') or '')} {clist(hs)} {cbool(case['spec'])})"


def shrink(case):
    ks = case["classes"]
    if "raw" in ks[-1]:
        for k_i, k in enumerate(ks):
            raw = k["raw"]
            for i in range(2, len(raw)):
                k2 = dict(k, raw=raw[:i] + raw[i + 1:])
                yield dict(case, classes=ks[:k_i] + [k2] + ks[k_i + 1:])
        return
    for k_i, k in enumerate(ks):
        for i, f in enumerate(k["fields"]):
            # drop one documentation position of one field
            for key, empty in (("above", []), ("inline", None), ("below", None), ("help", None)):
                if f.get(key):
                    f2 = dict(f)
                    f2[key] = empty
                    k2 = dict(k, fields=k["fields"][:i] + [f2] + k["fields"][i + 1:])
                    yield dict(case, classes=ks[:k_i] + [k2] + ks[k_i + 1:])
            if f["blank"]:
                k2 = dict(k, fields=k["fields"][:i] + [dict(f, blank=0)] + k["fields"][i + 1:])
                yield dict(case, classes=ks[:k_i] + [k2] + ks[k_i + 1:])
    for i in range(len(case["queries"])):
        if len(case["queries"]) > 1:
            yield dict(case, queries=case["queries"][:i] + case["queries"][i + 1:])
