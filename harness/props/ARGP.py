"""ARGP — auxiliary engine: the token-level model of argparse's optional-argument parsing (Model/ArgparseM.v)
against the real argparse.ArgumentParser of the implementation interpreter (differential run)."""
from __future__ import annotations

import random

from coqemit import cZ, cbool, clist, cnat, copt, cpair, cstr, cstrlist

ID = "ARGP"
FACTS = []
COQ_HEADER = "From SPV Require Import CorrDefs.CorrARGP."
COQ_CASE_TYPE = "case"
RULE = ("random parsers of 2-5 `store` optionals (nargs None/?/*/+/1/2/3, type int|str, choices of the same or of the other type, "
        "required, defaults None/int/str/list incl. string defaults that convert or fail to convert, 1-2 option strings each from a "
        "pool built to share prefixes (--foo/--foobar/--fo, --ba/--bar/--baz, --a.b/--a.c, -f/-foo/-fb) incl. single-dash ones and, "
        "rarely, negative-number-like ones (-1, -2.5); allow_abbrev on/off) x random argv: one third are valid groups in random order "
        "(exact spelling, `opt=v`, glued `-xv`, unambiguous abbreviations, repeated options, negative numbers and blank-containing "
        "tokens as values), two thirds carry 1-2 mutations meant to be REJECTED (missing required option, unknown option, ambiguous "
        "abbreviation, bad int, value outside choices, missing/surplus argument tokens, `=` on nargs=2, stray tokens, option-like "
        "values); the first block enumerates each nargs x k tokens x {sep,eq} on a one-option parser and the empty argv on every "
        "parser shape. Observed: parse_known_args and parse_args (vars(namespace) in order, leftovers, or exit status) and "
        "parse_known_args on the twin argv whose `=`/glued groups are written as two tokens. Never generated: the bare `--` token, "
        "`opt=--`. Second half of the stream: parsers mixing 1-3 optionals with 0-3 POSITIONALS (nargs None/1/2/?/*/+, type int|str, "
        "choices, defaults None/int/str/list given or not, declared at random places among the optionals); argv = the positionals' blocks "
        "in declaration order placed at random boundaries between option groups, then 0-2 mutations (too few / too many tokens, a block "
        "split by an unknown option, two segments swapped, a block dropped, a bad value, or one of the option mutations above); first, "
        "every nargs kind alone x 0-4 tokens x 5 surroundings and every PAIR of nargs kinds x 0-5 tokens (the backtracking of the pattern "
        "match; in the thorough tier also with an option at every cut). `required` of a positional is read off the real parser. "
        "Non-trivial = non-empty argv; distinct by full case.")
TRUSTED = ["the parser under test is CPython's own argparse module as imported by /venv/bin/python (add_help=False, default "
           "exit_on_error, prefix_chars '-')",
           "Python int() on the generated ASCII tokens is modelled by Model/Leaf.v py_int (sign, blanks around, single underscores)"]
ASSUMPTIONS = ["outside the model and never generated: bare `--`, positionals, sub-commands, REMAINDER/PARSER nargs, zero-argument "
               "actions (store_true/count/help, hence clustering of single-dash flags such as -xyz), fromfile_prefix_chars, "
               "exit_on_error=False, mutually exclusive groups, two actions sharing a dest, non-ASCII digits, a `*` positional with both choices "
               "and a non-None default (argparse tests the default object itself against the choices)",
               "option strings are pairwise distinct, start with '-', have length >= 2; nargs=N has N >= 1"]

LONGS = ["--foo", "--foobar", "--fo", "--bar", "--baz", "--ba", "--num", "--name", "--n", "--x", "--level", "--lev",
         "--a.b", "--a.c", "--a_b", "--a-b"]
SHORTS = ["-f", "-x", "-n", "-b", "-foo", "-fb", "-nu", "-a"]
NEGOPTS = ["-1", "-2.5", "-.5", "-12"]
NARGS = [None, None, "?", "*", "+", 1, 2, 3]

INT_OK = ["0", "1", "5", "12", "7", "-3", "-1", "+4", " 7", "1_0", "007", "-12", "3 "]
INT_BAD = ["abc", "1.5", "", "1__0", "0x10", "1 2", "-2.5", "_1"]
STR_OK = ["a", "abc", "a b", "", "x=y", "foo", "-", "5", "b", "c", "-5", "-2.5", "-.5", " ", "=", "a=", "-a b"]
OPTLIKE = ["--zzz", "-q", "-zz", "--zzz=3", "-q5", "--", "-foo=1"]
OPTLIKE = [t for t in OPTLIKE if t != "--"]


# --------------------------------------------------------------------------------------------------
# generator


def _val(t, v):
    return {"t": "int", "v": str(v)} if t == "int" else {"t": "str", "v": v}


def gen_parser(rng):
    n = rng.randint(2, 5)
    pool = LONGS * 2 + SHORTS
    use_neg = rng.random() < 0.08
    acts, used = [], set()
    for i in range(n):
        k = rng.choice([1, 1, 2])
        opts = []
        for _ in range(k):
            for _ in range(20):
                o = rng.choice(NEGOPTS) if (use_neg and rng.random() < 0.4) else rng.choice(pool)
                if o not in used:
                    used.add(o)
                    opts.append(o)
                    break
        if not opts:
            opts = [f"--opt{i}"]
            used.add(opts[0])
        ty = rng.choice(["int", "str"])
        nargs = rng.choice(NARGS)
        choices = None
        r = rng.random()
        if r < 0.22:
            base = [1, 5, 7, -3, 12] if ty == "int" else ["a", "b", "abc", "a b", "5"]
            choices = [_val(ty, x) for x in rng.sample(base, rng.randint(2, 3))]
        elif r < 0.26:
            choices = [_val("str", "5"), _val("int", 7)] if ty == "int" else [_val("int", 5), _val("str", "a")]
        r = rng.random()
        if r < 0.35:
            d = {"t": "none"}
        elif r < 0.5:
            d = _val("int", rng.choice([0, 3, -2]))
        elif r < 0.8:
            d = _val("str", rng.choice(["7", "abc", " 3 ", "", "-4", "a b", "1_0"]))
        else:
            d = {"t": "list", "v": [_val(ty, 1 if ty == "int" else "z")] * rng.randint(0, 2)}
        acts.append({"opts": opts, "dest": f"d{i}", "nargs": nargs, "type": ty, "choices": choices, "default": d,
                     "required": rng.random() < 0.25})
    return acts


def good_token(rng, a):
    if a["choices"] and rng.random() < 0.9:
        same = [c for c in a["choices"] if c["t"] == a["type"]]
        if same:
            c = rng.choice(same)
            return c["v"]
    return rng.choice(INT_OK if a["type"] == "int" else STR_OK)


def good_count(rng, nargs):
    if nargs is None:
        return 1
    if nargs == "?":
        return rng.choice([0, 1, 1])
    if nargs == "*":
        return rng.choice([0, 1, 2, 3])
    if nargs == "+":
        return rng.choice([1, 1, 2, 3])
    return nargs


def make_segment(rng, acts, i, all_opts):
    """One group for action i: {"opt","toks","spell","abbr"} -> tokens."""
    a = acts[i]
    k = good_count(rng, a["nargs"])
    toks = [good_token(rng, a) for _ in range(k)]
    opt = rng.choice(a["opts"])
    spell = "sep"
    written = opt
    r = rng.random()
    if opt.startswith("--") and len(opt) > 3 and r < 0.15:
        cut = rng.randint(3, len(opt) - 1)
        written = opt[:cut]
        spell = "abbr"
    if k == 1:
        r = rng.random()
        if r < 0.25:
            spell = spell + "+eq"
        elif r < 0.37 and len(opt) == 2 and spell == "sep" and toks[0] != "":
            spell = "glued"
    return {"act": i, "opt": opt, "written": written, "toks": toks, "spell": spell}


def seg_tokens(s, twin=False):
    sp = s["spell"]
    if sp == "raw":
        return list(s["toks"])
    if sp.endswith("+eq"):
        if twin and sp == "sep+eq":
            return [s["written"], s["toks"][0]]
        return [s["written"] + "=" + s["toks"][0]]
    if sp == "glued":
        if twin:
            return [s["written"], s["toks"][0]]
        return [s["written"] + s["toks"][0]]
    return [s["written"]] + list(s["toks"])


def mutate(rng, acts, segs):
    """Apply one mutation meant to make the command line invalid (it does not always succeed)."""
    kinds = ["drop_required", "unknown", "badvalue", "fewer", "surplus", "stray", "ambig", "optlike_value", "eq_multi", "blank"]
    m = rng.choice(kinds)
    real = [j for j, s in enumerate(segs) if s["spell"] != "raw"]
    if m == "drop_required":
        req = [i for i, a in enumerate(acts) if a["required"]]
        if req:
            i = rng.choice(req)
            return [s for s in segs if s.get("act") != i], m
        m = "unknown"
    if m == "unknown":
        pos = rng.randint(0, len(segs))
        return segs[:pos] + [{"spell": "raw", "toks": [rng.choice(OPTLIKE)]}] + segs[pos:], m
    if m == "stray":
        pos = rng.randint(0, len(segs))
        return segs[:pos] + [{"spell": "raw", "toks": [rng.choice(["stray", "5", "", "-7", "a b"])]}] + segs[pos:], m
    if m == "blank":
        pos = rng.randint(0, len(segs))
        return segs[:pos] + [{"spell": "raw", "toks": [rng.choice(["-z z", "--zz z", "--foo bar", "-f 1"])]}] + segs[pos:], m
    if m == "ambig":
        cands = ["--fo", "--ba", "--a", "--n", "--le", "--f", "-fo", "--a.", "--nu", "--na", "--b"]
        pos = rng.randint(0, len(segs))
        t = rng.choice(cands)
        toks = [t] + ([rng.choice(["1", "a"])] if rng.random() < 0.6 else [])
        if rng.random() < 0.3:
            toks = [t + "=1"]
        return segs[:pos] + [{"spell": "raw", "toks": toks}] + segs[pos:], m
    if not real:
        return segs + [{"spell": "raw", "toks": [rng.choice(OPTLIKE)]}], "unknown"
    j = rng.choice(real)
    s = dict(segs[j])
    a = acts[s["act"]]
    if m == "badvalue":
        if s["toks"]:
            p = rng.randrange(len(s["toks"]))
            bad = rng.choice(INT_BAD) if a["type"] == "int" else rng.choice(["notachoice", "zz", ""])
            s["toks"] = s["toks"][:p] + [bad] + s["toks"][p + 1:]
            if s["spell"] == "glued" and bad == "":
                s["spell"] = "sep"
        else:
            s["toks"] = ["abc"]
    elif m == "fewer":
        s["toks"] = s["toks"][:-1]
        if s["spell"] in ("glued",) or s["spell"].endswith("+eq"):
            s["spell"] = "abbr" if s["spell"].startswith("abbr") else "sep"
    elif m == "surplus":
        s["toks"] = s["toks"] + [good_token(rng, a)] * rng.choice([1, 2])
        if s["spell"] in ("glued",) or s["spell"].endswith("+eq"):
            s["spell"] = "abbr" if s["spell"].startswith("abbr") else "sep"
    elif m == "optlike_value":
        s["toks"] = [rng.choice(["-5", "-2.5", "-zz", "--zzz", "-a b", "-1", "-.5", "-"])] + s["toks"][1:]
        if s["spell"] == "glued":
            s["spell"] = "sep"
    elif m == "eq_multi":
        s["toks"] = s["toks"][:1] or [good_token(rng, a)]
        s["spell"] = "sep+eq"
        s["written"] = s["opt"]
    out = segs[:j] + [s] + segs[j + 1:]
    return out, m


def finish_case(ab, acts, segs, kind, muts):
    argv = [t for s in segs for t in seg_tokens(s)]
    twin = [t for s in segs for t in seg_tokens(s, twin=True)]
    case = {"abbrev": ab, "acts": acts, "argv": argv, "kind": kind, "muts": muts}
    if twin != argv:
        case["twin"] = twin
    return case


def excluded(case):
    bad = lambda t: t == "--" or t.endswith("=--")
    return any(bad(t) for t in case["argv"]) or any(bad(t) for t in case.get("twin", []))


def gen(tier, seed):
    rng = random.Random(f"ARGP-{seed}")
    cases = []
    # block 1: every nargs x number of tokens x spelling on a one-option parser (+ a second option closing the run)
    for nargs in [None, "?", "*", "+", 1, 2, 3]:
        for ty in ("int", "str"):
            for k in range(0, 5):
                for tail in ([], ["--other", "1"], ["--zzz"], ["-5"]):
                    acts = [{"opts": ["--opt", "-o"], "dest": "d0", "nargs": nargs, "type": ty, "choices": None,
                             "default": {"t": "none"}, "required": False},
                            {"opts": ["--other"], "dest": "d1", "nargs": None, "type": "int", "choices": None,
                             "default": _val("str", "3"), "required": False}]
                    toks = [str(j + 1) for j in range(k)]
                    cases.append(finish_case(True, acts, [{"act": 0, "opt": "--opt", "written": "--opt", "toks": toks, "spell": "sep"},
                                                          {"spell": "raw", "toks": tail}], "enum", []))
                    if k == 1:
                        for sp, w in (("sep+eq", "--opt"), ("glued", "-o"), ("abbr+eq", "--op")):
                            cases.append(finish_case(True, acts, [{"act": 0, "opt": w, "written": w, "toks": toks, "spell": sp},
                                                                  {"spell": "raw", "toks": tail}], "enum", []))
    n = len(cases) + (1250 if tier == "quick" else 19500)
    while len(cases) < n:
        acts = gen_parser(rng)
        ab = rng.random() < 0.85
        r = rng.random()
        if r < 0.03:
            cases.append(finish_case(ab, acts, [], "empty", []))
            continue
        # a valid command line: every required action, a random subset of the others, some twice, shuffled
        idxs = [i for i, a in enumerate(acts) if a["required"] or rng.random() < 0.5]
        if idxs and rng.random() < 0.25:
            idxs.append(rng.choice(idxs))
        rng.shuffle(idxs)
        segs = [make_segment(rng, acts, i, None) for i in idxs]
        muts = []
        kind = "valid"
        if r > 0.34:
            kind = "mutated"
            for _ in range(rng.choice([1, 1, 2])):
                segs, m = mutate(rng, acts, segs)
                muts.append(m)
        case = finish_case(ab, acts, segs, kind, muts)
        if excluded(case):
            continue
        cases.append(case)
    cases += gen_positional(tier, seed)
    return cases


# --------------------------------------------------------------------------------------------------
# positionals


def pos_action(i, nargs, ty="int", choices=None, default=None, dflt_given=False):
    return {"opts": [], "dest": f"p{i}", "nargs": nargs, "type": ty, "choices": choices,
            "default": default if default is not None else {"t": "none"}, "dflt_given": dflt_given, "required": None}


def gen_pos_action(rng, i):
    nargs = rng.choice([None, None, 1, 2, "?", "?", "*", "+"])
    ty = rng.choice(["int", "str"])
    choices = None
    if rng.random() < 0.15:
        base = [1, 5, 7, -3, 12] if ty == "int" else ["a", "b", "abc", "a b", "5"]
        choices = [_val(ty, x) for x in rng.sample(base, 3)]
    default, given = None, False
    r = rng.random()
    if nargs in ("?", "*"):
        if r < 0.3:
            given = rng.random() < 0.5
        elif r < 0.45:
            default, given = _val("int", rng.choice([0, 3])), True
        elif r < 0.8:
            default, given = _val("str", rng.choice(["7", "abc", " 3 ", "5", "a"])), True
        else:
            default, given = {"t": "list", "v": [_val(ty, 1 if ty == "int" else "z")] * rng.randint(0, 2)}, True
        if nargs == "*" and choices is not None:
            default, given = None, rng.random() < 0.5          # outside the model otherwise
    elif r < 0.2:
        default, given = _val("str", rng.choice(["7", "abc"])), True
    return pos_action(i, nargs, ty, choices, default, given)


def pos_block(rng, a, k=None):
    if k is None:
        k = good_count(rng, a["nargs"])
    return {"spell": "raw", "toks": [good_token(rng, a) for _ in range(k)], "pos": a["dest"]}


def gen_positional(tier, seed):
    rng = random.Random(f"ARGP-pos-{seed}")
    cases = []
    other = {"opts": ["--other", "-o"], "dest": "d9", "nargs": None, "type": "int", "choices": None,
             "default": _val("str", "3"), "required": False}
    star = {"opts": ["--many"], "dest": "d8", "nargs": "*", "type": "str", "choices": None,
            "default": {"t": "none"}, "required": False}
    kinds = [None, 1, 2, "?", "*", "+"]
    # every nargs kind alone x number of tokens x what stands around the run
    for na in kinds:
        for k in range(0, 5):
            for shape in range(5):
                acts = [pos_action(0, na, "str", None, _val("str", "dflt") if na in ("?", "*") else None, na in ("?", "*")), other, star]
                toks = [f"v{j}" for j in range(k)]
                argv = [toks, ["--other", "1"] + toks, toks + ["--other", "1"], toks[:1] + ["--other", "1"] + toks[1:],
                        ["--many"] + toks + ["--other", "2"]][shape]
                cases.append({"abbrev": True, "acts": acts, "argv": argv, "kind": "pos-enum", "muts": []})
    # every pair of nargs kinds x number of tokens (backtracking of the pattern match), with and without an option between
    for na1 in kinds:
        for na2 in kinds:
            for k in range(0, 6):
                acts = [pos_action(0, na1, "str"), other, pos_action(1, na2, "str")]
                toks = [f"v{j}" for j in range(k)]
                cases.append({"abbrev": True, "acts": acts, "argv": toks, "kind": "pos-enum", "muts": []})
                if k >= 1 and tier == "thorough":
                    for cut in range(0, k + 1):
                        cases.append({"abbrev": True, "acts": acts, "argv": toks[:cut] + ["-o", "4"] + toks[cut:], "kind": "pos-enum", "muts": []})
    n = len(cases) + (1100 if tier == "quick" else 18600)
    while len(cases) < n:
        opts = gen_parser(rng)[: rng.randint(1, 3)]
        npos = rng.choice([0, 1, 1, 2, 2, 3])
        poss = [gen_pos_action(rng, i) for i in range(npos)]
        # declaration order: positionals spread among the optionals
        acts = list(opts)
        for a in poss:
            acts.insert(rng.randint(0, len(acts)), a)
        order = [a["dest"] for a in acts if not a["opts"]]
        poss.sort(key=lambda a: order.index(a["dest"]))
        # re-number so that declaration order is p0, p1, ... is NOT required; keep names
        ab = rng.random() < 0.85
        oi = [i for i, a in enumerate(acts) if a["opts"] and (a["required"] or rng.random() < 0.5)]
        rng.shuffle(oi)
        segs = [make_segment(rng, acts, i, None) for i in oi]
        for s_ in segs:
            if s_["spell"].startswith("abbr") and rng.random() < 0.5:
                s_["spell"] = s_["spell"].replace("abbr", "sep")
                s_["written"] = s_["opt"]
        # the blocks of the positionals, in declaration order, at random places between the groups
        places = sorted(rng.randint(0, len(segs)) for _ in poss)
        out, bi = [], 0
        for j in range(len(segs) + 1):
            while bi < len(poss) and places[bi] == j:
                out.append(pos_block(rng, poss[bi]))
                bi += 1
            if j < len(segs):
                out.append(segs[j])
        segs = out
        r = rng.random()
        kind, muts = "pos-valid", []
        if r > 0.3:
            kind = "pos-mutated"
            for _ in range(rng.choice([1, 2, 2])):
                m = rng.choice(["few", "many", "split", "swap", "opt-mutation", "opt-mutation", "drop-block", "badvalue"])
                blocks = [j for j, s_ in enumerate(segs) if s_.get("pos")]
                if m == "opt-mutation" or not blocks:
                    segs, mm = mutate(rng, acts, segs)
                    m = "opt:" + mm
                else:
                    j = rng.choice(blocks)
                    b = dict(segs[j])
                    if m == "few":
                        b["toks"] = b["toks"][:-1]
                    elif m == "many":
                        b["toks"] = b["toks"] + [rng.choice(["x", "9", "-4"])] * rng.choice([1, 2])
                    elif m == "badvalue":
                        b["toks"] = [rng.choice(["abc", "1.5", "zz", ""])] + b["toks"][1:]
                    elif m == "drop-block":
                        b["toks"] = []
                    elif m == "split" and len(b["toks"]) >= 2:
                        segs = segs[:j] + [dict(b, toks=b["toks"][:1]), {"spell": "raw", "toks": ["--zzz"]}, dict(b, toks=b["toks"][1:])] + segs[j + 1:]
                        muts.append(m)
                        continue
                    elif m == "swap" and j + 1 < len(segs):
                        segs = segs[:j] + [segs[j + 1], b] + segs[j + 2:]
                        muts.append(m)
                        continue
                    segs = segs[:j] + [b] + segs[j + 1:]
                muts.append(m)
        argv = [t for s_ in segs for t in seg_tokens(s_)]
        case = {"abbrev": ab, "acts": acts, "argv": argv, "kind": kind, "muts": muts}
        if excluded(case):
            continue
        cases.append(case)
    return cases


# --------------------------------------------------------------------------------------------------
# implementation side (runs in /venv/bin/python)


def _pyval(v):
    t = v["t"]
    if t == "none":
        return None
    if t == "int":
        return int(v["v"])
    if t == "str":
        return v["v"]
    if t == "list":
        return [_pyval(x) for x in v["v"]]
    raise ValueError(v)


def _canon(v):
    if v is None:
        return {"t": "none"}
    if isinstance(v, bool):
        return {"t": "other", "v": repr(v)}
    if isinstance(v, int):
        return {"t": "int", "v": str(v)}
    if isinstance(v, str):
        return {"t": "str", "v": v}
    if isinstance(v, list):
        return {"t": "list", "v": [_canon(x) for x in v]}
    return {"t": "other", "v": repr(v)[:100]}


def build_parser(case):
    import argparse

    p = argparse.ArgumentParser(prog="p", add_help=False, allow_abbrev=case["abbrev"])
    for a in case["acts"]:
        kw = {"type": int if a["type"] == "int" else str}
        if a["nargs"] is not None:
            kw["nargs"] = a["nargs"]
        if a["choices"] is not None:
            kw["choices"] = [_pyval(c) for c in a["choices"]]
        if a["opts"]:
            kw.update(dest=a["dest"], default=_pyval(a["default"]), required=a["required"])
            p.add_argument(*a["opts"], **kw)
        else:
            if a.get("dflt_given"):
                kw["default"] = _pyval(a["default"])
            p.add_argument(a["dest"], **kw)          # a positional: argparse derives `required` itself
    return p


def run_impl(cases):
    from implutil import outcome_of

    out = []
    for case in cases:
        def known(argv):
            def go():
                ns, extras = build_parser(case).parse_known_args(list(argv))
                return {"ns": [[k, _canon(v)] for k, v in vars(ns).items()], "extras": list(extras)}
            r = outcome_of(go)
            return r[:2], (r[2].strip().splitlines()[-1][:160] if r[0] == "exit" and r[2].strip() else "")

        def args(argv):
            def go():
                ns = build_parser(case).parse_args(list(argv))
                return {"ns": [[k, _canon(v)] for k, v in vars(ns).items()]}
            return outcome_of(go)[:2]

        k, msg = known(case["argv"])
        o = {"known": k, "args": args(case["argv"]), "msg": msg,
             "req": [bool(x.required) for x in build_parser(case)._actions]}
        if "twin" in case:
            o["twin"] = known(case["twin"])[0]
        out.append(o)
    return out


# --------------------------------------------------------------------------------------------------
# Python mirror of the interface predicates (independent of the Coq model: uses int()/== directly)


def _expected_groups(case):
    """If argv is a concatenation of exactly-spelled options each followed by tokens that do not start with '-'
    (a sub-case of ArgparseMSpec.recognise), return what parse_args must answer: ("ok", {dest: value}) or ("exit",)."""
    acts = case["acts"]
    if any(not a["opts"] for a in acts):
        return None                     # positionals: judged by the Coq specification only
    table = {o: i for i, a in enumerate(acts) for o in a["opts"]}
    groups = []
    for t in case["argv"]:
        if t in table:
            groups.append([table[t], []])
        elif t.startswith("-") or not groups:
            return None
        else:
            groups[-1][1].append(t)
    for i, toks in groups:
        na, k = acts[i]["nargs"], len(toks)
        if isinstance(na, int):
            ok = k == na
        else:
            ok = {None: k == 1, "?": k <= 1, "*": True, "+": k >= 1}[na]
        if not ok:
            return None
    vals = {}
    for i, toks in groups:
        a = acts[i]
        conv = []
        for t in toks:
            if a["type"] == "int":
                try:
                    conv.append(int(t))
                except ValueError:
                    return ("exit",)
            else:
                conv.append(t)
        if a["choices"] is not None:
            cs = [_pyval(c) for c in a["choices"]]
            if any(not any(type(c) is type(v) and c == v for c in cs) for v in conv):
                return ("exit",)
        if a["nargs"] is None or a["nargs"] == "?":
            vals[i] = conv[0] if conv else None
        else:
            vals[i] = conv
    ns = {}
    missing = False
    for i, a in enumerate(acts):
        if i in vals:
            ns[a["dest"]] = vals[i]
        elif a["required"]:
            missing = True
        else:
            d = _pyval(a["default"])
            if isinstance(d, str) and a["type"] == "int":
                try:
                    d = int(d)
                except ValueError:
                    return ("exit",)
            ns[a["dest"]] = d
    if missing:
        return ("exit",)
    return ("ok", [[a["dest"], _canon(ns[a["dest"]])] for a in acts])


def py_spec(case, obs):
    k, a = obs["known"], obs["args"]
    if k[0] not in ("ok", "exit") or a[0] not in ("ok", "exit"):
        return f"unexpected ending: known={k} args={a}"
    if k[0] == "exit" and k[1] != 2:
        return f"parse_known_args ended with status {k[1]}"
    # parse_args = parse_known_args + "unrecognized arguments"
    if k[0] == "ok":
        want = ["ok", {"ns": k[1]["ns"]}] if not k[1]["extras"] else ["exit", 2]
    else:
        want = ["exit", 2]
    if a != want:
        return f"parse_args {a} is not parse_known_args {k} + leftovers rule; argv {case['argv']}"
    e = _expected_groups(case)
    if e is not None:
        if e[0] == "exit" and a[0] == "ok":
            return f"argv {case['argv']} (well-formed groups) must be rejected, observed {a}"
        if e[0] == "ok" and (a[0] != "ok" or a[1]["ns"] != e[1]):
            return f"argv {case['argv']} (well-formed groups) must give {e[1]}, observed {a}"
    return None


def signature(case, obs, reason):
    e = _expected_groups(case)
    return f"{case['kind']}:{'groups' if e is not None else 'free'}:{obs['known'][0]}:{obs['args'][0]}"


def nontrivial(case, obs):
    return len(case["argv"]) > 0


def features(case, obs):
    d = {"kind": case["kind"], "nacts": len(case["acts"]), "npos": sum(1 for a in case["acts"] if not a["opts"]), "argv_len": min(len(case["argv"]), 12),
         "known": obs["known"][0], "args": obs["args"][0], "abbrev": case["abbrev"], "twin": "twin" in case,
         "groups_recognised_py": _expected_groups(case) is not None}
    for m in case["muts"][:1]:
        d["mutation"] = m
    if obs["known"][0] == "exit":
        msg = obs.get("msg", "")
        for key in ("ambiguous option", "expected", "invalid choice", "invalid int", "required", "ignored explicit", "unrecognized"):
            if key in msg:
                d["error"] = key
                break
        else:
            d["error"] = "other"
    elif obs["args"][0] == "exit":
        d["error"] = "unrecognized(parse_args only)"
    return d


# --------------------------------------------------------------------------------------------------
# Coq emission


def ival_coq(v):
    if v["t"] == "int":
        return f"(VI {cZ(int(v['v']))})"
    if v["t"] == "str":
        return f"(VS {cstr(v['v'])})"
    raise ValueError(v)


def stored_coq(v, default=False):
    t = v["t"]
    if t == "none":
        return "SNone"
    if t == "str" and default:
        return f"(SRaw {cstr(v['v'])})"
    if t in ("int", "str"):
        return f"(SOne {ival_coq(v)})"
    if t == "list":
        return f"(SMany {clist([ival_coq(x) for x in v['v']])})"
    raise ValueError(v)


def nargs_coq(n):
    if n is None:
        return "NaOne"
    if isinstance(n, int):
        return f"(NaNum {cnat(n)})"
    return {"?": "NaOpt", "*": "NaStar", "+": "NaPlus"}[n]


def act_coq(a, req=None):
    if req is not None:
        a = dict(a, required=req)
    ch = "None" if a["choices"] is None else copt(clist([ival_coq(c) for c in a["choices"]]))
    return (f"(mkact {cstrlist(a['opts'])} {cstr(a['dest'])} {nargs_coq(a['nargs'])} {'CInt' if a['type'] == 'int' else 'CStr'} "
            f"{ch} {stored_coq(a['default'], default=True)} {cbool(a['required'])})")


def ns_coq(ns):
    return clist([cpair(cstr(k), stored_coq(v)) for k, v in ns])


def known_coq(k):
    if k[0] == "ok":
        return f"(Ok {cpair(ns_coq(k[1]['ns']), cstrlist(k[1]['extras']))})"
    if k[0] == "exit":
        return f"(Err (Exit {cnat(int(k[1]))}))"
    return f"(Err (Raise {cstr(k[1])}))"


def args_coq(a):
    if a[0] == "ok":
        return f"(Ok {ns_coq(a[1]['ns'])})"
    if a[0] == "exit":
        return f"(Err (Exit {cnat(int(a[1]))}))"
    return f"(Err (Raise {cstr(a[1])}))"


def to_coq(case, obs):
    twin = "None"
    if "twin" in case:
        twin = copt(cpair(cstrlist(case["twin"]), known_coq(obs["twin"])))
    return (f"mkcase {cbool(case['abbrev'])} {clist([act_coq(a, r) for a, r in zip(case['acts'], obs['req'])])} {cstrlist(case['argv'])} "
            f"{known_coq(obs['known'])} {args_coq(obs['args'])} {twin}")


def shrink(case):
    argv = case["argv"]
    for i in range(len(argv)):
        c = dict(case)
        c["argv"] = argv[:i] + argv[i + 1:]
        c.pop("twin", None)
        yield c
    if len(case["acts"]) > 1:
        for i in range(len(case["acts"])):
            c = dict(case)
            c["acts"] = case["acts"][:i] + case["acts"][i + 1:]
            c.pop("twin", None)
            yield c
