"""C05 — to_dict/from_dict, JSON, YAML and file round trips preserve every value and type."""
from __future__ import annotations

import copy
import os
import random

from coqemit import cbool, cstr
from props import serial_common as sc

ID = "C05"
FACTS = ["Serial", "Bool"]
COQ_HEADER = "From SPV Require Import CorrDefs.CorrC05."
COQ_CASE_TYPE = "case"
RULE = ("a random dataclass tree (Serializable / FrozenSerializable / plain, nested to depth 3, thorough 4) over {bool,int,float,str,"
        "Enum,Path,Literal,Optional,Union of primitives,List,Tuple fixed/variadic,Set,Dict[K,V],nested/Optional/List/Dict-of dataclass} "
        "with a random instance (pools include empty containers, 0, '', None, negatives, 2**70, non-ASCII text, numeric-looking "
        "strings) sent through one of 7 transports (to_dict/from_dict, dumps/loads json, dumps/loads yaml, save/load .json .yaml "
        ".yml .pkl); plus every scalar type x every pool value x 3 transports, every ordered Union of 2..3 primitives x every member "
        "value, lenient raw dicts (numbers/bools as strings, missing defaulted keys) and malformed raw dicts (model agreement "
        "only). Non-trivial = the round trip was attempted on a well-formed instance; distinct by full case.")
TRUSTED = ["json / yaml / pickle / file I/O are modelled as functions on primitives (Model/Serial.v T_json, T_yaml, T_pickle)",
           "float(), repr(float), int(str) of the interpreter agree with the model on the generated sub-domain (exact short decimals)"]
ASSUMPTIONS = ["generated floats have an exact short decimal repr (checked on every value: Decimal(repr(f)) == Decimal(f))",
               "str payloads are compared as UTF-8 byte strings; no generated string is a non-ASCII digit string, 'nan' or 'inf'",
               "dict entry order is not observed (yaml.dump sorts keys); dict vs OrderedDict is not distinguished by the spec",
               "set elements are scalars; a set is observed through its sorted element list"]

API = ["dict", "json", "yaml"]
FILES = [".json", ".yaml", ".yml", ".pkl"]
VIAS = [["api", a] for a in API] + [["file", s] for s in FILES]
SCRATCH = "/root/scratch/C05"


# --------------------------------------------------------------------------------------------------
# generation

def has_kind(t, kinds):
    return bool(sc.kinds_in(t) & set(kinds))


def lenify(rng, t, v):
    """a lenient raw encoding of v, and the value it must decode to"""
    k = t[0]
    if k == "bool":
        return (["str", rng.choice(sc.BOOL_WORDS[v[1]])], v) if rng.random() < 0.6 else (["bool", v[1]], v)
    if k == "int":
        return (["str", rng.choice([v[1], " " + v[1] + " "])], v) if rng.random() < 0.6 else (["int", v[1]], v)
    if k == "float":
        f = float(v[1])
        r = rng.random()
        if r < 0.5:
            return ["str", v[1]], v
        if r < 0.7 and f == int(f) and abs(f) < 10 ** 15:
            return ["int", str(int(f))], v
        return ["float", v[1]], v
    if k == "str":
        return ["str", v[1]], v
    if k == "path":
        return ["str", v[1]], v
    if k == "enum":
        return ["str", v[2]], v
    if k == "opt":
        return (["none"], v) if v[0] == "none" else lenify(rng, t[1], v)
    if k in ("list", "tupvar", "set"):
        ps, vs = [], []
        for x in v[1]:
            p, e = lenify(rng, t[1], x)
            ps.append(p)
            vs.append(e)
        return ["list", ps], [v[0], vs]
    if k == "tup":
        ps, vs = [], []
        for x, tt in zip(v[1], t[1]):
            p, e = lenify(rng, tt, x)
            ps.append(p)
            vs.append(e)
        return ["list", ps], ["tup", vs]
    if k == "dict":
        ps, vs = [], []
        for a, b in v[2]:
            pa, ea = lenify(rng, t[1], a)
            pb, eb = lenify(rng, t[2], b)
            ps.append([pa, pb])
            vs.append([ea, eb])
        return ["dict", False, ps], ["dict", False, vs]
    if k == "dc":
        ps, vs = [], []
        for (fn, meta, dflt, ft), f in zip(t[3], v[3]):
            if dflt is not None and rng.random() < 0.2:
                vs.append([fn, meta, dflt])
                continue
            p, e = lenify(rng, ft, f[2])
            ps.append([["str", fn], p])
            vs.append([fn, meta, e])
        if rng.random() < 0.2:
            ps.append([["str", "extra_key"], ["int", "1"]])
        return ["dict", False, ps], ["dc", v[1], v[2], vs]
    raise ValueError(t)


def corrupt(rng, t):
    k = t[0]
    if k == "opt":
        for _ in range(10):
            c = corrupt(rng, t[1])
            if c != ["none"]:
                return c
        return ["int", "3"]
    table = {
        "int": [["str", "abc"], ["none"], ["list", []], ["float", "1.5"], ["str", "1.5"], ["bool", True]],
        "float": [["str", "abc"], ["none"], ["bool", False], ["str", ""]],
        "bool": [["str", "maybe"], ["int", "5"], ["none"], ["list", []], ["float", "0.0"]],
        "str": [["int", "5"], ["none"], ["bool", True], ["float", "1.5"]],
        "path": [["int", "3"], ["none"]],
        "enum": [["str", "PURPLE"], ["int", "1"], ["none"], ["list", []]],
        "lit": [["str", "zzz"], ["int", "99"], ["none"], ["bool", True], ["float", "1.0"]],
        "union": [["none"]],
        "list": [["none"], ["int", "3"]],
        "tupvar": [["none"], ["bool", True]],
        "tup": [["list", [["int", "1"]] * 5], ["list", []], ["none"]],
        "set": [["none"], ["int", "3"]],
        "dict": [["int", "3"], ["none"], ["str", "x"]],
        "dc": [["str", "x"], ["none"], ["int", "3"]],
    }
    return rng.choice(table[k])


def corpus():
    """minimised past failures (corpus/C05/*.json, each {"case": ...}), replayed first in every run"""
    import json

    d = os.path.join(os.path.dirname(os.path.dirname(os.path.dirname(os.path.abspath(__file__)))), "corpus", "C05")
    out = []
    if os.path.isdir(d):
        for f in sorted(os.listdir(d)):
            if f.endswith(".json"):
                out.append(json.load(open(os.path.join(d, f)))["case"])
    return out


def gen(tier, seed):
    rng = random.Random(f"C05-{seed}")
    thorough = tier == "thorough"
    cases = corpus()
    namer = sc.Namer()

    def top(fields_t, kind, required=False, values=None, opts=None):
        name = namer.fresh()
        fields = []
        for i, t in enumerate(fields_t):
            dflt = None if required else sc.gen_value(rng, t, opts)
            fields.append([f"f{i}", dict(sc.PLAIN_META), dflt, t])
        return ["dc", kind, name, fields]

    kinds = ["ser", "frozen", "plain"]
    # 1. every scalar type x every pool value x the three in-memory transports (rotating class kind)
    idx = 0
    scal = [(["bool"], [["bool", True], ["bool", False]]),
            (["int"], [["int", str(z)] for z in sc.INTS]),
            (["float"], [["float", repr(f)] for f in sc.FLOATS]),
            (["str"], [["str", s] for s in sc.STRS + sc.NONASCII]),
            (["path"], [["path", p] for p in sc.PATHS])]
    for c, ms in sorted(sc.ENUMS.items()):
        scal.append((["enum", c, [m for m, _ in ms]], [["enum", c, m] for m, _ in ms]))
    for choices in sc.LITS:
        scal.append((["lit", choices], [list(x) for x in choices]))
    for t, vals in scal:
        for v in vals:
            for a in API:
                kind = kinds[idx % 3]
                idx += 1
                wrap = [None, "opt", "list", "dictval", "dictkey", "tup"][idx % 6]
                ft, fv = t, v
                if wrap == "opt":
                    ft, fv = ["opt", t], v
                elif wrap == "list":
                    ft, fv = ["list", t], ["list", [v]]
                elif wrap == "dictval":
                    ft, fv = ["dict", ["str"], t], ["dict", False, [[["str", "k"], v]]]
                elif wrap == "dictkey" and t[0] in sc.KEYS:
                    ft, fv = ["dict", t, ["int"]], ["dict", False, [[v, ["int", "1"]]]]
                elif wrap == "tup":
                    ft, fv = ["tup", [t, ["int"]]], ["tup", [v, ["int", "3"]]]
                T = top([ft], kind, required=True)
                cases.append(dict(ty=T, val=["dc", kind, T[2], [["f0", dict(sc.PLAIN_META), fv]]], via=["api", a], stream="scalar"))
    # 2. every ordered Union of 2..3 primitives (with and without None) x every member value
    prims = ["int", "float", "str", "bool"]
    unions = [[a, b] for a in prims for b in prims if a != b]
    unions += [[a, b, c] for a in prims for b in prims for c in prims if len({a, b, c}) == 3]
    pool = {"int": [["int", str(z)] for z in sc.SMALL_INTS[:5]] + [["int", str(2 ** 70)]],
            "float": [["float", r] for r in ("1.5", "3.0", "0.0", "-2.25")],
            "str": [["str", s] for s in ("", "a", "123", "1.5", "true", "None", "-7", "0")],
            "bool": [["bool", True], ["bool", False]]}
    for ms in unions:
        if len(ms) == 3 and not thorough and rng.random() < 0.6:
            continue
        for opt in (False, True):
            ut = ["union", [[m] for m in ms]]
            ft = ["opt", ut] if opt else ut
            vals = [v for m in ms for v in pool[m]] + ([["none"]] if opt else [])
            for v in vals:
                if v[0] == "int" and abs(int(v[1])) >= 10 ** 15 and "float" in ms:
                    continue
                if not thorough and rng.random() < 0.5:
                    continue
                kind = kinds[idx % 3]
                idx += 1
                T = top([ft], kind, required=True)
                cases.append(dict(ty=T, val=["dc", kind, T[2], [["f0", dict(sc.PLAIN_META), v]]],
                                  via=["api", API[idx % 3]], stream="union"))
    # 3. random trees x 7 transports
    n_tree = 900 if not thorough else 16000
    for i in range(n_tree):
        depth = rng.choice([1, 2, 2, 3] if not thorough else [1, 2, 3, 3, 4])
        opts = dict(unions=rng.random() < 0.35, nonascii=True, kinds=kinds)
        T = sc.norm_unions(sc.gen_dc(rng, depth, namer, opts, kind=kinds[i % 3]))
        v = sc.gen_value(rng, T, opts)
        cases.append(dict(ty=T, val=v, via=VIAS[i % len(VIAS)], stream="tree"))
    # 4. lenient raw dicts (no Union / Literal inside: a string is a legitimate value there)
    n_len = 250 if not thorough else 3000
    made = 0
    while made < n_len:
        depth = rng.choice([1, 2, 2, 3])
        opts = dict(unions=False, kinds=kinds)
        T = sc.gen_dc(rng, depth, namer, opts)
        if has_kind(T, ["lit", "union"]):
            continue
        v = sc.gen_value(rng, T, opts)
        raw, expect = lenify(rng, T, v)
        cases.append(dict(ty=T, val=expect, via=["raw", raw, True], stream="lenient"))
        made += 1
    # 5. malformed raw dicts: one field corrupted (model agreement only)
    n_bad = 200 if not thorough else 2000
    for i in range(n_bad):
        opts = dict(unions=rng.random() < 0.3, kinds=kinds)
        T = sc.norm_unions(sc.gen_dc(rng, rng.choice([1, 2]), namer, opts))
        v = sc.gen_value(rng, T, opts)
        raw, expect = lenify(random.Random(0), T, v) if not has_kind(T, ["lit", "union"]) else (None, None)
        if raw is None:
            continue
        j = rng.randrange(len(T[3]))
        fn = T[3][j][0]
        entries = [e for e in raw[2] if e[0] != ["str", fn]]
        if rng.random() < 0.85:
            entries.insert(min(j, len(entries)), [["str", fn], corrupt(rng, T[3][j][3])])
        cases.append(dict(ty=T, val=expect, via=["raw", ["dict", False, entries], False], stream="malformed"))
    # 5b. ints that a detour through float() would round: as dict keys (JSON object keys travel as strings), as plain fields
    #     and list items, through every transport, and as decimal strings in lenient raw dicts
    bigs = [2 ** 53 + 1, -(2 ** 53) - 1, -(2 ** 63) - 1, 2 ** 64 + 1, 10 ** 30 + 7, -(10 ** 30) - 7, 10 ** 400 + 1, -(10 ** 400) - 1]
    j = 0
    for z in bigs:
        zi = ["int", str(z)]
        shapes = [(["dict", ["int"], ["str"]], ["dict", False, [[zi, ["str", "v"]]]], ["dict", False, [[["str", str(z)], ["str", "v"]]]]),
                  (["int"], zi, ["str", str(z)]),
                  (["list", ["int"]], ["list", [zi, ["int", "1"]]], ["list", [["str", str(z)], ["str", " 1 "]]]),
                  (["dict", ["int"], ["list", ["int"]]], ["dict", False, [[zi, ["list", [zi]]]]],
                   ["dict", False, [[["str", str(z)], ["list", [["str", str(z)]]]]]])]
        for ft, fv, raw in shapes:
            for via in ([["api", "json"], ["file", ".json"], ["api", "yaml"], ["api", "dict"]] if thorough or j % 2 == 0
                        else [["api", "json"], ["file", ".json"]]):
                kind = kinds[j % 3]
                j += 1
                T = top([ft], kind, required=True)
                cases.append(dict(ty=T, val=["dc", kind, T[2], [["f0", dict(sc.PLAIN_META), fv]]], via=via, stream="bigint"))
            kind = kinds[j % 3]
            j += 1
            T = top([ft], kind, required=True)
            cases.append(dict(ty=T, val=["dc", kind, T[2], [["f0", dict(sc.PLAIN_META), fv]]],
                              via=["raw", ["dict", False, [[["str", "f0"], raw]]], True], stream="bigint"))
    # 6. ints beyond the float range
    for i in range(6 if not thorough else 30):
        kind = kinds[i % 3]
        ft = [["int"], ["list", ["int"]], ["dict", ["str"], ["int"]], ["opt", ["int"]]][i % 4]
        z = ["int", str(rng.choice([10 ** 400, -(10 ** 400), 2 ** 1024, 2 ** 1024 - 2 ** 970, 2 ** 1024 - 2 ** 970 - 1]))]
        fv = {"int": z, "list": ["list", [z]], "dict": ["dict", False, [[["str", "k"], z]]], "opt": z}[ft[0]]
        T = top([ft], kind, required=True)
        val = ["dc", kind, T[2], [["f0", dict(sc.PLAIN_META), fv]]]
        cases.append(dict(ty=T, val=val, via=VIAS[i % len(VIAS)], stream="hugeint"))
        # the same instance from a lenient raw dict: the huge int as a decimal string (float("1e400") is inf, no exception)
        zs = ["str", z[1]]
        raw = {"int": zs, "list": ["list", [zs]], "dict": ["dict", False, [[["str", "k"], zs]]], "opt": zs}[ft[0]]
        cases.append(dict(ty=T, val=val, via=["raw", ["dict", False, [[["str", "f0"], raw]]], True], stream="hugeint"))
    return cases


# --------------------------------------------------------------------------------------------------
# implementation side

def _roundtrip(ns, cls, kind, x, via, tmpdir, i):
    from simple_parsing.helpers.serialization import serializable as S

    if via[0] == "raw":
        d = sc.prim_to_py(via[1])
        return cls.from_dict(d) if kind != "plain" else S.from_dict(cls, d)
    if via[0] == "api":
        a = via[1]
        if kind != "plain":
            if a == "dict":
                return cls.from_dict(x.to_dict())
            if a == "json":
                return cls.loads_json(x.dumps_json())
            return cls.loads_yaml(x.dumps_yaml())
        if a == "dict":
            return S.from_dict(cls, S.to_dict(x))
        if a == "json":
            return S.loads_json(cls, S.dumps_json(x))
        return S.loads_yaml(cls, S.dumps_yaml(x))
    path = os.path.join(tmpdir, f"case{i}{via[1]}")
    if kind != "plain":
        x.save(path)
        return cls.load(path)
    S.save(x, path)
    return S.load(cls, path)


def run_impl(cases):
    import logging
    import shutil
    import tempfile
    import warnings

    from implutil import outcome_of
    from simple_parsing.helpers.serialization import serializable as S

    warnings.simplefilter("ignore")
    logging.disable(logging.CRITICAL)
    os.makedirs(SCRATCH, exist_ok=True)
    tmpdir = tempfile.mkdtemp(prefix="run-", dir=SCRATCH)
    out = []
    try:
        for i, case in enumerate(cases):
            T, via = case["ty"], case["via"]
            try:
                ns = sc.build(T)
                x = sc.mk(ns, case["val"])
                cls = ns[T[2]]
            except Exception as e:  # noqa: BLE001
                out.append(dict(setup_failed=f"{type(e).__name__}: {e}"[:200]))
                continue
            kind = T[1]
            before = sc.canon(ns, x, False)
            td = outcome_of(lambda: x.to_dict() if kind != "plain" else S.to_dict(x))
            todict = ["ok", sc.canon_prim(td[1])] if td[0] == "ok" else ["raise", td[1]]
            r = outcome_of(lambda: _roundtrip(ns, cls, kind, x, via, tmpdir, i))
            if r[0] == "ok":
                x2 = r[1]
                try:
                    pyeq = bool(x2 == x)
                except Exception:  # noqa: BLE001
                    pyeq = False
                obs = ["ok", sc.canon(ns, x2, True)]
            else:
                pyeq = False
                obs = ["raise", r[1] if r[0] == "raise" else r[0]]
            out.append(dict(setup_failed=None, val=before, todict=todict, obs=obs, pyeq=pyeq,
                            untouched=sc.canon(ns, x, False) == before))
    finally:
        shutil.rmtree(tmpdir, ignore_errors=True)
    return out


# --------------------------------------------------------------------------------------------------
# spec, signatures, emission

def diff_at(t, a, b):
    """(annotation kind at the first difference, kind expected, kind observed)"""
    k = t[0]
    if k == "opt":
        if a[0] == "none" or b[0] == "none":
            return None if a[0] == b[0] else ("opt", a[0], b[0])
        return diff_at(t[1], a, b)
    if k == "union":
        return None if sc.veq(a, b) else ("union", a[0], b[0], t, a, b)
    if a[0] != b[0]:
        return (k, a[0], b[0])
    if k in ("list", "tupvar", "set"):
        if len(a[1]) != len(b[1]):
            return (k, "len", "len")
        for x, y in zip(a[1], b[1]):
            d = diff_at(t[1], x, y)
            if d:
                return d
        return None
    if k == "tup":
        if len(a[1]) != len(b[1]) or len(a[1]) != len(t[1]):
            return (k, "len", "len")
        for tt, x, y in zip(t[1], a[1], b[1]):
            d = diff_at(tt, x, y)
            if d:
                return d
        return None
    if k == "dict":
        if len(a[2]) != len(b[2]):
            return (k, "len", "len")
        for x in a[2]:
            ms = [y for y in b[2] if sc.veq(x[0], y[0])]
            if not ms:
                return ("dictkey[" + t[1][0] + "]", x[0][0], "absent")
            d = diff_at(t[2], x[1], ms[0][1])
            if d:
                return d
        return None
    if k == "dc":
        for f, x, y in zip(t[3], a[3], b[3]):
            d = diff_at(f[3], x[2], y[2])
            if d:
                return d
        return None
    return None if list(a) == list(b) else (k, a[0], b[0])


_TRUE = ["yes", "true", "t", "y", "1"]
_FALSE = ["no", "false", "f", "n", "0"]


def _convert(member, x):
    """what the registered decoder of a primitive Union member makes of the Python scalar x (None = it raises)"""
    try:
        if member == "int":
            return int(x)
        if member == "float":
            return float(x)
        if member == "str":
            return str(x)
        if member == "bool":
            if isinstance(x, str):
                w = x.strip().lower()
                return True if w in _TRUE else False if w in _FALSE else None
            return bool(x)
    except (ValueError, TypeError, OverflowError):
        return None
    return None


def first_success_evidence(t, a, b):
    """True iff the observed value b is exactly what the FIRST member (in declared order) whose decoder accepts the original
    scalar a produces, and that member is declared before the first member a is an instance of — the signature of
    try_functions' first-success rule, as opposed to any other way a Union value can come back changed."""
    members = [m[0] for m in t[1]]
    if a[0] not in ("int", "float", "str", "bool") or any(m not in ("int", "float", "str", "bool") for m in members):
        return False
    x = sc.prim_to_py(a)
    own = next((i for i, m in enumerate(members) if m == a[0]), None)
    if own is None:
        return False
    for j, m in enumerate(members):
        r = _convert(m, x)
        if r is None:
            continue
        got = ["bool", r] if m == "bool" else ["int", str(r)] if m == "int" else ["float", repr(r)] if m == "float" else ["str", r]
        return j < own and got == list(b)
    return False


def _via_name(via):
    return via[1] if via[0] != "raw" else "raw"


def judge(case, obs):
    if obs.get("setup_failed"):
        return ("setup-failed", "case set-up failed: " + obs["setup_failed"])
    via = case["via"]
    if via[0] == "raw" and not via[2]:
        return None
    o = obs["obs"]
    expect = sc.sort_sets(obs["val"])
    if o[0] != "ok":
        if o[1] == "OverflowError":
            return ("int-beyond-float-range:OverflowError", f"round trip via {_via_name(via)} raised OverflowError (a large int field)")
        return (f"raise:{o[1]}:{_via_name(via)}", f"round trip via {_via_name(via)} raised {o[1]}")
    got = o[1]
    d = diff_at(case["ty"], expect, got)
    if d:
        if d[0] == "union":
            if first_success_evidence(d[3], d[4], d[5]):
                return ("union-first-success-lossy", f"Union member value came back changed: {d[1]} -> {d[2]} (via {_via_name(via)})")
            return (f"union-changed-not-by-first-success:{d[1]}->{d[2]}:{_via_name(via)}",
                    f"Union member value {d[4]} came back as {d[5]}, which is not what the first accepting member declared before its own produces")
        return (f"changed:{d[0]}:{d[1]}->{d[2]}:{_via_name(via)}", f"value at a {d[0]} position came back changed: {d[1]} -> {d[2]}")
    if not sc.has_type(got, case["ty"]):
        return (f"ill-typed:{_via_name(via)}", "the decoded instance does not conform to its annotations")
    if not sc.veq(got, expect):
        return (f"unequal:{_via_name(via)}", "the decoded instance differs from the original")
    if not obs["pyeq"]:
        return (f"python-eq-false:{_via_name(via)}", "x2 == x is False although the canonical forms agree")
    if not obs["untouched"]:
        return ("input-mutated", "the original instance changed during the round trip")
    return None


def py_spec(case, obs):
    j = judge(case, obs)
    return j[1] if j else None


def signature(case, obs, reason):
    j = judge(case, obs)
    return j[0] if j else "coq-spec-only"


def nontrivial(case, obs):
    return not obs.get("setup_failed") and case["stream"] != "malformed"


def features(case, obs):
    if obs.get("setup_failed"):
        return {"stream": case["stream"], "outcome": "setup_failed"}
    ks = sc.kinds_in(case["ty"])
    f = {"stream": case["stream"], "via": _via_name(case["via"]), "kind": case["ty"][1], "depth": sc.depth_of(case["ty"]),
         "outcome": obs["obs"][0] if obs["obs"][0] == "ok" else "raise:" + obs["obs"][1]}
    for k in ("union", "set", "dict", "tup", "tupvar", "opt", "lit", "enum", "path"):
        f["has_" + k] = k in ks
    f["nested_dc"] = len(sc.dcs_in(case["ty"])) > 1
    return f


def to_coq(case, obs):
    via = case["via"]
    if via[0] == "api":
        v = f"(ViaApi {cstr(via[1])})"
    elif via[0] == "file":
        v = f"(ViaFile {cstr(via[1])})"
    else:
        v = f"(ViaRaw {sc.cprim(via[1])} {cbool(via[2])})"
    if obs.get("setup_failed"):
        return f"mkcase {sc.cty(case['ty'])} VNone {v} (Err (Raise \"SetupFailed\")) (Err (Raise \"SetupFailed\"))"
    return (f"mkcase {sc.cty(case['ty'])} {sc.cvalue(obs['val'])} {v} {sc.cres(obs['todict'], sc.cprim)} "
            f"{sc.cres(obs['obs'], sc.cvalue)}")


def shrink(case):
    T, v = case["ty"], case["val"]
    if case["via"][0] == "raw":
        return
    n = len(T[3])
    if n > 1:
        for i in range(n):
            T2 = [T[0], T[1], T[2], [copy.deepcopy(T[3][i])]]
            v2 = [v[0], v[1], v[2], [copy.deepcopy(v[3][i])]]
            yield dict(ty=T2, val=v2, via=case["via"], stream=case["stream"])
    # unwrap a container-typed single field
    if n == 1:
        ft, fv = T[3][0][3], v[3][0][2]
        cands = []
        if ft[0] == "list" and fv[0] == "list":
            cands += [(ft[1], x) for x in fv[1]]
        if ft[0] == "opt" and fv[0] != "none":
            cands.append((ft[1], fv))
        if ft[0] == "dict" and fv[0] == "dict":
            cands += [(ft[2], b) for _, b in fv[2]]
        if ft[0] == "tup" and fv[0] == "tup":
            cands += list(zip(ft[1], fv[1]))
        if ft[0] == "dc" and fv[0] == "dc":
            yield dict(ty=ft, val=fv, via=case["via"], stream=case["stream"])
        for t2, v2 in cands[:6]:
            f = copy.deepcopy(T[3][0])
            f[3] = t2
            f[2] = None if f[2] is None else v2
            yield dict(ty=[T[0], T[1], T[2], [f]], val=[v[0], v[1], v[2], [[v[3][0][0], v[3][0][1], v2]]],
                       via=case["via"], stream=case["stream"])
    if case["via"] != ["api", "dict"]:
        yield dict(ty=T, val=v, via=["api", "dict"], stream=case["stream"])
