"""C01 — an empty command line reproduces the dataclass defaults at every destination."""
from __future__ import annotations

import glob
import itertools
import json
import os
import random

import leafdsl as L
from coqemit import cbool, clist, copt, cpair, cstr, outcome

ID = "C01"
FACTS = ["Bool", "Leaf", "Conflicts", "Defaults", "PipelineSrc", "WrapperSrc"]
COQ_HEADER = "From SPV Require Import CorrDefs.CorrC01."
COQ_CASE_TYPE = "case"
RULE = ("random dataclass trees: 0-3 leaf fields per class over the CLI type grammar of C02 (leafdsl: scalars, Enum, Literal, List, fixed and "
        "variadic Tuple, Optional of these) with a default value or a default factory (falsy values 0/''/False/[]/() included), nested "
        "dataclass members (default_factory = the class, or a lambda returning an instance with other leaf values) and Optional nested "
        "members (default None / default_factory = the class / a lambda returning an instance), nesting depth <= 3, the same class reused "
        "as several members and at several destinations, classes rendered with 0-2 levels of real inheritance (some defaults overridden "
        "in the subclass); 1-3 destinations x 4 conflict modes x 3 generation modes x 2 nested modes x 3 dash variants x {parse(), "
        "ArgumentParser} (quick: a seeded sample of the 144 combinations per forest, thorough: all of them) x {no default instance, a "
        "default instance with other leaf values on all / some destinations}. The corpus (corpus/C01: shrunk past failures) and a block of hand-written shapes (the reconnaissance "
        "witnesses of DESIGN 5 #3 #4 #19 #20, falsy defaults, empty classes) comes first. Non-trivial = the parser was set up and "
        "the forest has a nested member, a container/Optional leaf or a default instance; distinct by full case.")
TRUSTED = ["harness renders the generated class trees as Python source (inheritance included) and reads instances back with implutil.canon",
           "argparse copies an action's default into the namespace unchanged when the option does not occur (string defaults pass "
           "through type=str / the Optional[str] converter unchanged)"]
ASSUMPTIONS = ["distinct top-level destinations; field names are not 'h'/'help' and do not start with 'no'",
               "under ALWAYS_MERGE two classes share a leaf field name only if they are the same class"]

CONFLICT = ["AUTO", "EXPLICIT", "NONE", "ALWAYS_MERGE"]
GENMODE = ["FLAT", "NESTED", "BOTH"]
NESTMODE = ["DEFAULT", "WITHOUT_ROOT"]
DASH = ["AUTO", "UNDERSCORE_AND_DASH", "DASH"]
APIS = ["parser", "parse"]
NONE = {"t": "none"}

LEAF_NAMES = ["x", "y_1", "zz", "w_w", "v", "lr", "n_ame", "q"]
NEST_NAMES = ["a", "b_b", "c", "o_pt", "m"]
DESTS = ["d0", "d_1", "cfg", "a"]


# --------------------------------------------------------------------------------------------------
# model values in Python (the spec is evaluated here as well)


def construct(cls):
    out = []
    for f in cls["fields"]:
        if f["k"] == "leaf":
            out.append([f["n"], f["d"]])
        elif f["d"] == "fac":
            out.append([f["n"], construct(f["cls"])])
        elif f["d"] == "none":
            out.append([f["n"], NONE])
        else:
            out.append([f["n"], f["d"]])
    return {"t": "dc", "c": cls["c"], "v": out}


def is_none(v):
    return v is None or v.get("t") == "none"


# --------------------------------------------------------------------------------------------------
# generation


def falsy_value(t):
    k = t["k"]
    if k == "int":
        return {"t": "int", "v": "0"}
    if k == "float":
        return {"t": "float", "v": "0.0"}
    if k == "str":
        return {"t": "str", "v": ""}
    if k == "bool":
        return {"t": "bool", "v": False}
    if k == "list":
        return {"t": "list", "v": []}
    if k == "tupvar":
        return {"t": "tuple", "v": []}
    if k == "opt":
        return NONE
    return None


def rand_leaf(rng, name, merge_n=None):
    t = L.rand_type(rng)
    d = None
    r = rng.random()
    if r < 0.2:
        d = falsy_value(t)
    if d is None:
        d = L.rand_value(rng, t)
    if t["k"] == "float" and rng.random() < 0.15:
        d = {"t": "float", "v": "-0.0"}
    if merge_n and t["k"] == "list" and rng.random() < 0.5:
        d = {"t": "list", "v": [L.rand_value(rng, t["item"]) for _ in range(merge_n)]}
    fac = d["t"] == "list" or (d["t"] != "none" and rng.random() < 0.25)
    return {"k": "leaf", "n": name, "ty": t, "d": d, "fac": fac}


def rand_inst(rng, cls, p_none=0.3):
    out = []
    for f in cls["fields"]:
        if f["k"] == "leaf":
            v = L.rand_value(rng, f["ty"]) if rng.random() < 0.8 else f["d"]
            out.append([f["n"], v])
        elif f["opt"] and rng.random() < p_none:
            out.append([f["n"], NONE])
        else:
            out.append([f["n"], rand_inst(rng, f["cls"], p_none)])
    return {"t": "dc", "c": cls["c"], "v": out}


class Pool:
    """classes of one case, built bottom-up; the same class object is reused wherever it is a member"""

    def __init__(self, rng, unique_names, merge_n=None, allow_opt=True, reuse=0.55):
        self.rng, self.unique, self.merge_n, self.allow_opt, self.reuse = rng, unique_names, merge_n, allow_opt, reuse
        self.by_level = {0: [], 1: [], 2: [], 3: []}
        self.count = 0

    def new_class(self, level):
        rng = self.rng
        self.count += 1
        cname = f"K{self.count}"
        nleaf = rng.choice([0, 1, 1, 2, 2, 3]) if level > 0 else rng.choice([1, 1, 2, 3])
        names = rng.sample(LEAF_NAMES, nleaf)
        if self.unique:
            names = [f"{n}{self.count}" for n in names]
        fields = [rand_leaf(rng, n, self.merge_n) for n in names]
        if level > 0:
            nn = rng.choice([1, 1, 2]) if level > 0 else 0
            for mn in rng.sample(NEST_NAMES, nn):
                sub = self.get_class(rng.randint(0, level - 1) if rng.random() < 0.4 else level - 1)
                opt = self.allow_opt and rng.random() < 0.45
                r = rng.random()
                if opt and r < 0.4:
                    d = "none"
                elif r < 0.75:
                    d = "fac"
                else:
                    d = rand_inst(rng, sub)
                fields.append({"k": "nest", "n": mn, "opt": opt, "cls": sub, "d": d})
            rng.shuffle(fields)
        # inheritance: the first `cut` fields live in a base class (0-2 levels); `over` = indices re-declared in the subclass
        nb = rng.choice([0, 0, 1, 1, 2])
        cuts = sorted(rng.sample(range(len(fields) + 1), min(nb, len(fields) + 1)))
        over = [i for i in range(len(fields)) if rng.random() < 0.3]
        cls = {"c": cname, "fields": fields, "cuts": cuts, "over": over}
        self.by_level[level].append(cls)
        return cls

    def get_class(self, level):
        have = self.by_level[level]
        if have and self.rng.random() < self.reuse:
            return self.rng.choice(have)
        return self.new_class(level)


def rand_forest(rng, depth, ndest, unique_names, merge_n=None, p_default=0.45, uniform=False):
    """uniform: the same class at every destination, no class used twice inside it, no Optional member, default instances on
    all destinations or on none (the shape ALWAYS_MERGE is meant for)"""
    pool = Pool(rng, unique_names, merge_n, allow_opt=not uniform, reuse=0.0 if uniform else 0.55)
    dests = rng.sample(DESTS, ndest)
    forest = []
    first = None
    for d in dests:
        if first is not None and (uniform or rng.random() < 0.55):
            cls = first
        else:
            cls = pool.get_class(rng.randint(0, depth))
        first = first or cls
        forest.append([d, cls, None])
    r = rng.random()
    if r < p_default:
        for it in forest:
            it[2] = rand_inst(rng, it[1])
    elif r < p_default + 0.2 and not uniform:
        it = rng.choice(forest)
        it[2] = rand_inst(rng, it[1])
    return forest


def all_cfgs():
    return [dict(cr=cr, gen=g, nm=nm, dash=dv, api=api) for cr in CONFLICT for g in GENMODE for nm in NESTMODE for dv in DASH
            for api in APIS]


def leaf(name, ty, d, fac=None):
    return {"k": "leaf", "n": name, "ty": ty, "d": d, "fac": (d["t"] == "list") if fac is None else fac}


def nest(name, cls, d="fac", opt=False):
    return {"k": "nest", "n": name, "opt": opt, "cls": cls, "d": d}


def mkcls(cname, fields, cuts=(), over=()):
    return {"c": cname, "fields": fields, "cuts": list(cuts), "over": list(over)}


INT = {"k": "int"}
STR = {"k": "str"}


def iv(n):
    return {"t": "int", "v": str(n)}


def handwritten():
    """the reconnaissance witnesses and a few corner shapes, each under a handful of configurations"""
    Leaf = mkcls("Leaf", [leaf("x", INT, iv(0)), leaf("s", STR, {"t": "str", "v": ""})])
    T3 = mkcls("T3", [leaf("y", INT, iv(5)), nest("o", Leaf, "fac", opt=True)])                       # 3
    T3n = mkcls("T3n", [leaf("y", INT, iv(5)), nest("o", Leaf, "none", opt=True), nest("n", Leaf, "fac")])
    li = {"k": "list", "item": INT}
    M4 = mkcls("M4", [leaf("xs", li, {"t": "list", "v": [iv(1), iv(2)]})])                            # 4
    In = mkcls("In", [leaf("z", INT, iv(1))])
    M19 = mkcls("M19", [leaf("y", INT, iv(5)), nest("inner", In, "fac")])                              # 19
    T20 = mkcls("T20", [nest("a", In, "fac"), nest("b", In, "fac")])                                   # 20
    E = mkcls("E0", [nest("a", In, "fac")])
    out = []
    base = dict(gen="FLAT", nm="DEFAULT", dash="AUTO", api="parser")
    for cr in CONFLICT:
        out.append({"forest": [["d0", T3, None]], "cfg": dict(base, cr=cr)})
        out.append({"forest": [["d0", T3, None]], "cfg": dict(base, cr=cr, api="parse", nm="WITHOUT_ROOT")})
        out.append({"forest": [["d0", T3n, None]], "cfg": dict(base, cr=cr)})
        out.append({"forest": [["d0", T3, {"t": "dc", "c": "T3", "v": [["y", iv(7)], ["o", {"t": "dc", "c": "Leaf", "v": [["x", iv(3)], ["s", {"t": "str", "v": "k"}]]}]]}]],
                    "cfg": dict(base, cr=cr)})
        out.append({"forest": [["d0", M4, None], ["d_1", M4, None]], "cfg": dict(base, cr=cr)})
        out.append({"forest": [["d0", M4, None], ["d_1", M4, None], ["cfg", M4, None]], "cfg": dict(base, cr=cr)})
        m9 = {"t": "dc", "c": "M19", "v": [["y", iv(9)], ["inner", {"t": "dc", "c": "In", "v": [["z", iv(4)]]}]]}
        out.append({"forest": [["d0", M19, m9], ["d_1", M19, None]], "cfg": dict(base, cr=cr)})
        out.append({"forest": [["d0", M19, None], ["d_1", M19, m9]], "cfg": dict(base, cr=cr)})
        out.append({"forest": [["d0", M19, m9], ["d_1", M19, m9]], "cfg": dict(base, cr=cr)})
        out.append({"forest": [["d0", T20, None], ["d_1", In, None]], "cfg": dict(base, cr=cr)})
        out.append({"forest": [["d_1", In, None], ["d0", E, None]], "cfg": dict(base, cr=cr)})
        out.append({"forest": [["d0", E, None], ["d_1", In, None]], "cfg": dict(base, cr=cr)})
        out.append({"forest": [["d0", E, None]], "cfg": dict(base, cr=cr, nm="WITHOUT_ROOT")})
    return out


def corpus():
    """minimised past failures (corpus/C01/*.json, each {"case": ...}), replayed first in every run"""
    d = os.path.join(os.path.dirname(os.path.dirname(os.path.dirname(os.path.abspath(__file__)))), "corpus", "C01")
    out = []
    for f in sorted(glob.glob(os.path.join(d, "*.json"))):
        c = json.load(open(f)).get("case")
        if isinstance(c, dict) and "forest" in c and "cfg" in c:
            out.append(c)
    return out


def gen(tier, seed):
    rng = random.Random(f"C01-{seed}")
    cases = corpus() + handwritten()
    cfgs = all_cfgs()
    nforest = 260 if tier == "quick" else 420
    per = 9 if tier == "quick" else len(cfgs)
    for _ in range(nforest):
        depth = rng.choice([0, 1, 1, 2, 2, 3])
        ndest = rng.choice([1, 1, 2, 2, 3])
        mergeable = rng.random() < 0.5       # class-unique leaf names: usable under ALWAYS_MERGE
        uniform = mergeable and ndest > 1 and rng.random() < 0.5
        forest = rand_forest(rng, depth, ndest, mergeable, merge_n=ndest if ndest > 1 else None, uniform=uniform)
        pick = cfgs if per >= len(cfgs) else rng.sample(cfgs, per)
        if uniform and per < len(cfgs):          # make sure the merging mode is among the sampled configurations
            pick = pick[:-2] + rng.sample([c for c in cfgs if c["cr"] == "ALWAYS_MERGE" and c["api"] == "parser"], 2)
        for cfg in pick:
            if cfg["api"] == "parse" and len(forest) != 1:
                cfg = dict(cfg, api="parser")
            if cfg["cr"] == "ALWAYS_MERGE" and not mergeable:
                cfg = dict(cfg, cr=rng.choice(["AUTO", "EXPLICIT", "NONE"]))
            c = {"forest": forest, "cfg": cfg, "uniform": uniform}
            if c not in cases[-per:]:
                cases.append(c)
    return cases


# --------------------------------------------------------------------------------------------------
# implementation side


def inst_src(v):
    if v["t"] == "dc":
        return v["c"] + "(" + ", ".join(f"{n}={inst_src(x)}" for n, x in v["v"]) + ")"
    return L.value_py(v)


def field_src(f, d_override=None):
    if f["k"] == "leaf":
        d = f["d"] if d_override is None else d_override
        ann = L.annotation(f["ty"])
        if f["fac"] or d["t"] == "list":
            return f"    {f['n']}: {ann} = field(default_factory=lambda: {L.value_py(d)})"
        return f"    {f['n']}: {ann} = {L.value_py(d)}"
    c = f["cls"]["c"]
    ann = f"Optional[{c}]" if f["opt"] else c
    if f["d"] == "none":
        return f"    {f['n']}: {ann} = None"
    if f["d"] == "fac":
        return f"    {f['n']}: {ann} = field(default_factory={c})"
    return f"    {f['n']}: {ann} = field(default_factory=lambda: {inst_src(f['d'])})"


def decoy(f):
    """the default a base class declares for a field that the subclass re-declares"""
    if f["k"] == "leaf":
        fv = falsy_value(f["ty"])
        return fv if fv is not None and fv != f["d"] else None
    return None


def classes_src(forest):
    seen, order = set(), []

    def visit(cls):
        if cls["c"] in seen:
            return
        for f in cls["fields"]:
            if f["k"] == "nest":
                visit(f["cls"])
        seen.add(cls["c"])
        order.append(cls)

    for _, c, _ in forest:
        visit(c)
    src = [L.PRELUDE]
    for cls in order:
        fs = cls["fields"]
        cuts = [c for c in cls.get("cuts", []) if 0 < c <= len(fs)]
        over = set(cls.get("over", []))
        bounds = [0] + cuts + [len(fs)]
        base = None
        for lvl in range(len(bounds) - 1):
            last = lvl == len(bounds) - 2
            name = cls["c"] if last else f"{cls['c']}_B{lvl}"
            lines = []
            for i in range(bounds[lvl], bounds[lvl + 1]):
                if not last and i in over and decoy(fs[i]) is not None:
                    lines.append(field_src(fs[i], decoy(fs[i])))
                else:
                    lines.append(field_src(fs[i]))
            if last:
                for i in sorted(over):
                    if i < bounds[lvl] and decoy(fs[i]) is not None:
                        lines.append(field_src(fs[i]))      # re-declared with the final default: keeps its position
            src.append("@dataclass")
            src.append(f"class {name}({base}):" if base else f"class {name}:")
            src += lines or ["    pass"]
            src.append("")
            base = name
    return "\n".join(src) + "\n"


def run_one(case):
    import simple_parsing as sp
    from simple_parsing import ArgumentParser, ConflictResolution
    from simple_parsing.wrappers.field_wrapper import ArgumentGenerationMode, DashVariant, NestedMode
    import dataclasses as _dc

    from implutil import canon as _canon, set_current_ns

    ns = {}
    exec(compile(classes_src(case["forest"]), "<c01>", "exec", dont_inherit=True), ns)
    set_current_ns(ns)      # implutil.canon marks Enum members of a same-named class that is not the one declared in this case

    def canon(v):
        """implutil.canon, plus: a dataclass instance must be an instance of THIS case's class of that name, containers keep
        their element canonicalisation"""
        if _dc.is_dataclass(v) and not isinstance(v, type):
            c = type(v).__name__
            if ns.get(c) is not type(v):
                c += "!not-the-declared-class"
            fs = []
            for f in _dc.fields(v):
                try:
                    fs.append([f.name, canon(getattr(v, f.name))])
                except AttributeError:
                    fs.append([f.name, {"t": "unset"}])
            return {"t": "dc", "c": c, "v": fs}
        if type(v) in (list, tuple):
            return {"t": "list" if type(v) is list else "tuple", "v": [canon(x) for x in v]}
        return _canon(v)
    cfg = case["cfg"]
    kw = dict(conflict_resolution=ConflictResolution[cfg["cr"]], argument_generation_mode=ArgumentGenerationMode[cfg["gen"]],
              nested_mode=NestedMode[cfg["nm"]], add_option_string_dash_variants=DashVariant[cfg["dash"]])
    defaults = [eval(inst_src(i), ns) if i is not None else None for _, _, i in case["forest"]]
    want = [canon(dflt) if dflt is not None else canon(ns[c["c"]]()) for (_, c, _), dflt in zip(case["forest"], defaults)]
    info = {"want": want}

    def intact():
        """the caller's default instances and the class defaults are what they were before parsing (parsing must not write into them)"""
        return [canon(dflt) if dflt is not None else canon(ns[c["c"]]()) for (_, c, _), dflt in zip(case["forest"], defaults)] == want

    info["intact"] = intact

    def go():
        if cfg["api"] == "parse":
            (d, c, _), = case["forest"]
            return [canon(sp.parse(ns[c["c"]], args=[], dest=d, default=defaults[0], **kw))]
        p = ArgumentParser(**kw)
        for (d, c, _), dflt in zip(case["forest"], defaults):
            p.add_arguments(ns[c["c"]], dest=d, default=dflt)
        r = p.parse_args([])
        return [canon(getattr(r, d)) for d, _, _ in case["forest"]]

    return go, info


MESSAGES = [("Not the same number of default values and destinations", "default-count-differs-from-destination-count"),
            ("list.remove(x): x not in list", "list.remove-x-not-in-list"),
            ("Namespace should not already have", "namespace-collision"),
            ("Duplicate wrappers found", "duplicate-wrappers")]


def message_tag(msg):
    """which raise site: the known message texts by name, anything else by its first words"""
    for text, tag in MESSAGES:
        if text in msg:
            return tag
    words = "".join(ch if ch.isalnum() else "-" for ch in msg[:40]).strip("-")
    return "msg-" + (words or "empty")


def run_impl(cases):
    from implutil import outcome_of, reset_simple_parsing_state

    out = []
    for case in cases:
        reset_simple_parsing_state()
        try:
            go, info = run_one(case)
        except Exception as e:  # noqa: BLE001 - the generated classes themselves do not build: harness error, made visible
            out.append({"outcome": ["raise", "HARNESS:" + type(e).__name__ + ":" + str(e)[:200]], "values": None, "want": None})
            continue
        site = []

        def go_traced():
            try:
                return go()
            except Exception as e:  # noqa: BLE001 - remember WHERE it was raised, then let outcome_of classify it
                import traceback
                fr = [f for f in traceback.extract_tb(e.__traceback__) if "simple_parsing" in f.filename]
                site.append(fr[-1].name if fr else "outside-simple_parsing")
                raise

        r = outcome_of(go_traced)
        try:
            ok = bool(info["intact"]())
        except Exception as e:  # noqa: BLE001
            ok = False
        out.append({"outcome": r[:2] if r[0] != "ok" else ["ok"], "values": r[1] if r[0] == "ok" else None, "want": info["want"],
                    "msg": ((site[0] if site else "?") + ":" + message_tag(r[2])) if r[0] == "raise" and len(r) > 2 else None,
                    "defaults_intact": ok})
    return out


# --------------------------------------------------------------------------------------------------
# spec, signatures


def spec_want(case):
    return [(i if i is not None else construct(c)) for _, c, i in case["forest"]]


def first_diff(a, b, path=""):
    """path of the first difference between two value trees -> (path, a_sub, b_sub)"""
    if a.get("t") == "dc" and b.get("t") == "dc" and a["c"] == b["c"] and [n for n, _ in a["v"]] == [n for n, _ in b["v"]]:
        for (n, x), (_, y) in zip(a["v"], b["v"]):
            d = first_diff(x, y, path + "." + n)
            if d:
                return d
        return None
    return None if a == b else (path, a, b)


def py_spec(case, obs):
    o = obs["outcome"]
    if o[0] != "ok":
        if len(o) > 1 and str(o[1]).startswith("HARNESS:"):
            return f"harness could not build the classes: {o[1]}"
        if o[0] == "cre":
            return None    # ConflictResolutionError: the configuration is refused, the statement is vacuous (model and code must agree)
        return f"parsing [] crashed instead of delivering the defaults (or refusing with ConflictResolutionError): {o} under {case['cfg']}"
    want = spec_want(case)
    if obs["want"] != want:
        return f"harness: cls()/default instance {obs['want']} differs from the model's construct {want}"
    for (d, _, i), w, o in zip(case["forest"], want, obs["values"]):
        df = first_diff(w, o)
        if df:
            return (f"destination {d!r} ({'default instance given' if i is not None else 'no default instance'}), "
                    f"attribute {d}{df[0]}: expected {df[1]}, observed {df[2]} under {case['cfg']}")
    if obs.get("defaults_intact") is False:
        return f"parsing [] changed the caller's default instance or the class defaults (they no longer equal {want}) under {case['cfg']}"
    return None


def _kind(v):
    return "inst" if v.get("t") == "dc" else v.get("t")


def class_levels(forest):
    """class name -> set of nesting levels at which a wrapper of that class is created"""
    out = {}

    def walk(cls, lvl):
        out.setdefault(cls["c"], set()).add(lvl)
        for f in cls["fields"]:
            if f["k"] == "nest":
                walk(f["cls"], lvl + 1)

    for _, c, _ in forest:
        walk(c, 0)
    return out


def merge_cause(case):
    """why ALWAYS_MERGE is outside the shapes it handles, in order of priority"""
    f = case["forest"]
    if any(len(lv) > 1 for lv in class_levels(f).values()):
        return "different-depths"                       # DESIGN 5 #20
    if len({i is None for _, _, i in f}) > 1:
        return "partial-default-instances"              # DESIGN 5 #19
    if any(_has(c, lambda x: x["k"] == "nest" and x["opt"]) for _, c, _ in f):
        return "optional-member"
    return "other"


def as_modelled(case, obs):
    """does the run behave exactly as the model of the code (with the listed ALWAYS_MERGE findings in it) predicts?"""
    try:
        from props import c01_codemodel as M
        return M.predict(case) == M.observed(obs)
    except Exception:  # noqa: BLE001 - no verdict: never suppress
        return False


def signature(case, obs, reason):
    """<where>:<symptom>[:<raise site>:<message>]:<as-modelled | NOT-as-modelled>.  Only `...:as-modelled` signatures are listed as
    known findings: a listed finding is suppressed only while the code behaves EXACTLY as the recorded defect does on that input."""
    o = obs["outcome"]
    merge = case["cfg"]["cr"] == "ALWAYS_MERGE"
    tail = "as-modelled" if as_modelled(case, obs) else "NOT-as-modelled"
    if o[0] != "ok":
        if len(o) > 1 and str(o[1]).startswith("HARNESS:"):
            return "harness"
        kind = ":".join(str(x) for x in o[:2]) + (":" + obs["msg"] if obs.get("msg") else "")
        if not merge:
            return f"crash:{kind}"
        return f"merge:{merge_cause(case)}:crash:{kind}:{tail}"
    want = spec_want(case)
    if obs["want"] != want:
        return "harness"
    for (d, c, i), w, ov in zip(case["forest"], want, obs["values"]):
        df = first_diff(w, ov)
        if df:
            path, a, b = df
            if a.get("t") == "none" and b.get("t") == "dc":
                sym = "None-comes-back-as-instance"
            elif a.get("t") == "dc" and b.get("t") == "none":
                sym = "instance-comes-back-None"
            else:
                sym = "wrong-value"
            if not merge:
                return "value:" + sym
            return f"merge:{merge_cause(case)}:{sym}:{tail}"
    if obs.get("defaults_intact") is False:
        return "defaults-mutated"
    return "other"


def _has(cls, pred):
    return any(pred(f) or (f["k"] == "nest" and _has(f["cls"], pred)) for f in cls["fields"])


def nontrivial(case, obs):
    if obs["outcome"][0] != "ok":
        return False
    return any(i is not None or _has(c, lambda f: f["k"] == "nest" or f["ty"]["k"] in ("list", "tupfix", "tupvar", "opt", "enum", "lit"))
               for _, c, i in case["forest"])


def _depth(cls):
    return 1 + max([_depth(f["cls"]) for f in cls["fields"] if f["k"] == "nest"] or [0])


def features(case, obs):
    cfg = case["cfg"]
    f = case["forest"]
    return {"cr": cfg["cr"], "gen": cfg["gen"], "nm": cfg["nm"], "dash": cfg["dash"], "api": cfg["api"], "ndest": len(f),
            "depth": max(_depth(c) for _, c, _ in f) - 1,
            "defaults": "none" if all(i is None for _, _, i in f) else ("all" if all(i is not None for _, _, i in f) else "some"),
            "optional_member": any(_has(c, lambda x: x["k"] == "nest" and x["opt"]) for _, c, _ in f),
            "reuse": len({c["c"] for _, c, _ in f}) < len(f),
            "inherit": any(c.get("cuts") for _, c, _ in f),
            "merge_shape": (("same-class-everywhere" if case.get("uniform") else merge_cause(case)) if cfg["cr"] == "ALWAYS_MERGE" else "-"),
            "outcome": obs["outcome"][0] + (":" + str(obs["outcome"][1]) if len(obs["outcome"]) > 1 else "")}


# --------------------------------------------------------------------------------------------------
# Coq emission


def vt_coq(v):
    if v.get("t") == "dc":
        return "(VD " + cstr(v["c"]) + " " + clist([cpair(cstr(n), vt_coq(x)) for n, x in v["v"]]) + ")"
    return "(VL " + L.value_coq(v) + ")"


def fld_coq(f):
    if f["k"] == "leaf":
        return f"(FLeaf {cstr(f['n'])} {L.ty_coq(f['ty'])} {L.value_coq(f['d'])} {cbool(f['fac'])})"
    d = {"fac": "DFac", "none": "DNone"}.get(f["d"]) if isinstance(f["d"], str) else f"(DInst {vt_coq(f['d'])})"
    return f"(FNest {cstr(f['n'])} {cbool(f['opt'])} {cstr(f['cls']['c'])} {clist([fld_coq(x) for x in f['cls']['fields']])} {d})"


def cfg_coq(cfg):
    mode = {"AUTO": "(MPlain CRAuto)", "EXPLICIT": "(MPlain CRExplicit)", "NONE": "(MPlain CRNone)", "ALWAYS_MERGE": "MMerge"}[cfg["cr"]]
    dv = {"AUTO": "DUnderscore", "UNDERSCORE_AND_DASH": "DBoth", "DASH": "DDash"}[cfg["dash"]]
    gm = {"FLAT": "GFlat", "NESTED": "GNested", "BOTH": "GBoth"}[cfg["gen"]]
    nm = {"DEFAULT": "NDefault", "WITHOUT_ROOT": "NWithoutRoot"}[cfg["nm"]]
    return f"(mkp {mode} (mkcfg {dv} {gm} {nm}) {'AParse' if cfg['api'] == 'parse' else 'AParser'})"


def forest_coq(forest):
    items = []
    for d, c, i in forest:
        cls = cpair(cstr(c["c"]), clist([fld_coq(f) for f in c["fields"]]))
        items.append(f"({cstr(d)}, {cls}, {copt(vt_coq(i)) if i is not None else 'None'})")
    return clist(items)


def to_coq(case, obs):
    o = obs["outcome"]
    try:
        if o[0] == "ok":
            ob = "(Ok " + clist([cpair(cstr(d), vt_coq(v)) for (d, _, _), v in zip(case["forest"], obs["values"])]) + ")"
        else:
            ob = outcome(o)
        return f"mkcase {cfg_coq(case['cfg'])} {forest_coq(case['forest'])} {ob}"
    except L.OutOfScope:
        return f"mkcase {cfg_coq(case['cfg'])} [] (Ok [])"


# --------------------------------------------------------------------------------------------------
# shrinking: simpler configuration, fewer destinations, no inheritance, fewer fields (a class is identified by its name)


def _map_case(case, fcls, finst):
    def cls(c):
        c2 = dict(c, fields=[fld(f) for f in c["fields"]])
        return fcls(c2)

    def fld(f):
        if f["k"] == "leaf":
            return f
        f2 = dict(f, cls=cls(f["cls"]))
        if not isinstance(f["d"], str):
            f2["d"] = inst(f["d"])
        return f2

    def inst(v):
        if v.get("t") != "dc":
            return v
        return finst(dict(v, v=[[n, inst(x)] for n, x in v["v"]]))

    return dict(case, forest=[[d, cls(c), (inst(i) if i is not None else None)] for d, c, i in case["forest"]])


def _all_classes(case):
    out = {}

    def walk(c):
        out.setdefault(c["c"], c)
        for f in c["fields"]:
            if f["k"] == "nest":
                walk(f["cls"])

    for _, c, _ in case["forest"]:
        walk(c)
    return out


def shrink(case):
    cfg = case["cfg"]
    for k, v in (("gen", "FLAT"), ("nm", "DEFAULT"), ("dash", "AUTO"), ("api", "parser")):
        if cfg[k] != v:
            yield dict(case, cfg=dict(cfg, **{k: v}))
    f = case["forest"]
    if len(f) > 1:
        for j in range(len(f)):
            yield dict(case, forest=f[:j] + f[j + 1:])
    for j, (d, c, i) in enumerate(f):
        if i is not None:
            yield dict(case, forest=f[:j] + [[d, c, None]] + f[j + 1:])
    classes = _all_classes(case)
    if any(c.get("cuts") or c.get("over") for c in classes.values()):
        yield _map_case(case, lambda c: dict(c, cuts=[], over=[]), lambda v: v)
    for cname, c in classes.items():
        for fl in c["fields"]:
            if len(c["fields"]) > 1 or fl["k"] == "nest":
                fn = fl["n"]
                yield _map_case(case,
                                lambda c2, cname=cname, fn=fn: (dict(c2, fields=[x for x in c2["fields"] if x["n"] != fn], cuts=[], over=[])
                                                                if c2["c"] == cname else c2),
                                lambda v, cname=cname, fn=fn: (dict(v, v=[p for p in v["v"] if p[0] != fn]) if v["c"] == cname else v))
    for cname, c in classes.items():
        for fl in c["fields"]:
            if fl["k"] == "nest" and not isinstance(fl["d"], str):
                fn = fl["n"]
                yield _map_case(case,
                                lambda c2, cname=cname, fn=fn: (dict(c2, fields=[(dict(x, d="fac") if x["n"] == fn else x) for x in c2["fields"]])
                                                                if c2["c"] == cname else c2), lambda v: v)
