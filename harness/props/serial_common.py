"""Shared by props/C05.py and props/C13.py: the type grammar, value generation, class construction from source text,
canonical observation of Python objects, Coq emitters and the Python mirror of Model/SerialSpec.v.

JSON shapes
  type  : ["bool"] ["int"] ["float"] ["str"] ["path"] ["enum", cls, [members]] ["lit", [prim...]] ["opt", t]
          ["union", [t...]] ["list", t] ["tup", [t...]] ["tupvar", t] ["set", t] ["dict", k, v]
          ["dc", kind, cls, [[fname, {"incl","enc","dec"}, default value | None, t]...]]   kind in ser|frozen|plain
  value : ["none"] ["bool", b] ["int", "123"] ["float", "1.5"] ["str", s] ["path", s] ["enum", cls, member]
          ["list", [v...]] ["tup", [v...]] ["set", [v...]] ["dict", od, [[k, v]...]] ["dc", kind, cls, [[fname, meta, v]...]]
          ["other", text]
  prim  : ["none"] ["bool", b] ["int", "123"] ["float", "1.5"] ["str", s] ["list", [...]] ["tuple", [...]]
          ["dict", od, [[k, v]...]] ["bad", text]
"""
from __future__ import annotations

from coqemit import cZ, cbool, clist, copt, cpair, cstr

# --------------------------------------------------------------------------------------------------
# pools

# 2**53 + 1, -(2**63) - 1 and 10**30 + 7 are NOT exactly representable as floats (a detour through float() rounds them)
INTS = [0, 1, -1, 7, -13, 255, 2 ** 31, 2 ** 53, 2 ** 70, -(2 ** 70), 2 ** 53 + 1, -(2 ** 63) - 1, 10 ** 30 + 7]
SMALL_INTS = [0, 1, -1, 7, -13, 255, 8, 16]
FLOATS = [0.0, 1.5, -2.25, 0.125, 3.0, -1.0, 100.5, 1024.0, 0.0625, 7.75]
STRS = ["", "a", "hello world", "123", "-7", "1.5", "0.5", "true", "None", "null", " x ", "a/b", "RED", "0", "False",
        "yes", "1_0", "+5", " 12 ", "_type_", "x,y", "it's", 'q"q']
NONASCII = ["été", "日本", "naïve ☃"]
PATHS = ["a/b.txt", "/tmp/x", ".", "rel", "/", "../up"]
ENUMS = {"Color": [("RED", "1"), ("GREEN", "2"), ("BLUE", "3")], "Mode": [("fast", "'f'"), ("slow", "'s'")],
         "Pri": [("LOW", "1"), ("HIGH", "2")], "Sty": [("plain", "'p'"), ("bold", "'b'")]}
# Pri members ARE ints, Sty members ARE strs: anything that treats "already a primitive" values specially meets them
ENUM_BASES = {"Color": "enum.Enum", "Mode": "enum.Enum", "Pri": "enum.IntEnum", "Sty": "str, enum.Enum"}
LITS = [[["str", "a"], ["str", "b"]], [["int", "1"], ["int", "2"], ["int", "3"]], [["str", "x"], ["int", "5"], ["bool", True]]]
BOOL_WORDS = {True: ["true", "True", "YES", "1", "t", "y"], False: ["false", "False", "NO", "0", "f", "n"]}
PLAIN_META = {"incl": True, "enc": None, "dec": None}


def float_ok(f: float) -> bool:
    """repr is an exact short decimal inside the modelled sub-domain."""
    from decimal import Decimal
    r = repr(f)
    return ("e" not in r and "n" not in r and Decimal(r) == Decimal(f) and len(r.replace("-", "").replace(".", "")) <= 15
            and r != "-0.0" and (f == 0 or abs(f) >= 1e-4))


assert all(float_ok(f) for f in FLOATS)

# --------------------------------------------------------------------------------------------------
# type generation

SCALARS = ["bool", "int", "float", "str", "path", "enum", "lit"]
KEYS = ["str", "int", "float", "bool", "enum", "path"]


class Namer:
    def __init__(self):
        self.n = 0

    def fresh(self):
        self.n += 1
        return f"D{self.n}"


def gen_scalar_type(rng, which=None):
    w = which or rng.choice(SCALARS)
    if w == "enum":
        c = rng.choice(sorted(ENUMS))
        return ["enum", c, [m for m, _ in ENUMS[c]]]
    if w == "lit":
        return ["lit", rng.choice(LITS)]
    return [w]


def gen_union(rng):
    k = rng.choice([2, 2, 3])
    ms = rng.sample(["int", "float", "str", "bool"], k)
    t = ["union", [[m] for m in ms]]
    return ["opt", t] if rng.random() < 0.25 else t


def gen_type(rng, depth, namer, opts):
    """opts: unions (bool), hooks (float prob), tuple_keys (bool), kinds (list)"""
    if depth <= 0:
        return gen_scalar_type(rng)
    r = rng.random()
    if r < 0.22:
        return gen_scalar_type(rng)
    if r < 0.30 and opts.get("unions", True):
        return gen_union(rng)
    if r < 0.40:
        inner = gen_type(rng, depth - 1, namer, opts)
        return inner if inner[0] == "opt" else ["opt", inner]
    if r < 0.52:
        return ["list", gen_type(rng, depth - 1, namer, opts)]
    if r < 0.60:
        return ["tup", [gen_type(rng, depth - 1, namer, opts) for _ in range(rng.choice([1, 2, 2, 3]))]]
    if r < 0.66:
        return ["tupvar", gen_type(rng, depth - 1, namer, opts)]
    if r < 0.74:
        return ["set", gen_scalar_type(rng, rng.choice(["int", "str", "enum", "float", "path", "int"]))]
    if r < 0.88:
        if opts.get("tuple_keys") and rng.random() < 0.25:
            k = ["tup", [["int"], ["int"]]]
        else:
            k = gen_scalar_type(rng, rng.choice(KEYS))
        return ["dict", k, gen_type(rng, depth - 1, namer, opts)]
    return gen_dc(rng, depth - 1, namer, opts)


def gen_dc(rng, depth, namer, opts, kind=None, nfields=None):
    name = namer.fresh()
    kind = kind or rng.choice(opts.get("kinds", ["ser", "frozen", "plain"]))
    n = nfields or rng.choice([1, 2, 2, 3])
    required = rng.random() < 0.3 and not opts.get("hooks")
    fields = []
    for i in range(n):
        t = gen_type(rng, depth, namer, opts)
        meta = dict(PLAIN_META)
        hp = opts.get("hooks", 0)
        if hp and rng.random() < hp:
            c = rng.choice(["skip", "enc", "dec", "encdec"])
            if c == "skip":
                meta["incl"] = False
            if c in ("enc", "encdec"):
                meta["enc"] = rng.randrange(1, 50)
            if c in ("dec", "encdec"):
                meta["dec"] = rng.randrange(50, 99)
        dflt = None if required else gen_value(rng, t, opts)
        fields.append([f"f{i}", meta, dflt, t])
    return ["dc", kind, name, fields]


def norm_unions(t, seen=None):
    """typing caches parametrised generics by ==, and Union[a, b] == Union[b, a]: inside one program List[Union[str, int]]
    written after List[Union[int, str]] IS the earlier object.  Each case therefore uses one member order per member set."""
    seen = {} if seen is None else seen
    k = t[0]
    if k == "union":
        key = tuple(sorted(x[0] for x in t[1]))
        if key in seen:
            t[1] = [list(x) for x in seen[key]]
        else:
            seen[key] = [list(x) for x in t[1]]
    elif k in ("opt", "list", "tupvar", "set"):
        norm_unions(t[1], seen)
    elif k == "tup":
        for x in t[1]:
            norm_unions(x, seen)
    elif k == "dict":
        norm_unions(t[1], seen)
        norm_unions(t[2], seen)
    elif k == "dc":
        for f in t[3]:
            norm_unions(f[3], seen)
    return t


# --------------------------------------------------------------------------------------------------
# value generation (JSON form)

def gen_value(rng, t, opts=None, size=None):
    opts = opts or {}
    k = t[0]
    if k == "bool":
        return ["bool", rng.random() < 0.5]
    if k == "int":
        pool = INTS
        if opts.get("huge_ints") and rng.random() < 0.05:
            return ["int", str(10 ** 400)]
        return ["int", str(rng.choice(pool))]
    if k == "float":
        return ["float", repr(rng.choice(FLOATS))]
    if k == "str":
        if opts.get("nonascii") and rng.random() < 0.15:
            return ["str", rng.choice(NONASCII)]
        return ["str", rng.choice(STRS)]
    if k == "path":
        return ["path", rng.choice(PATHS)]
    if k == "enum":
        return ["enum", t[1], rng.choice(t[2])]
    if k == "lit":
        return list(rng.choice(t[1]))
    if k == "opt":
        return ["none"] if rng.random() < 0.3 else gen_value(rng, t[1], opts)
    if k == "union":
        m = rng.choice(t[1])
        v = gen_value(rng, m, opts)
        if v[0] == "int" and abs(int(v[1])) >= 10 ** 15 and any(x[0] == "float" for x in t[1]):
            v = ["int", str(rng.choice(SMALL_INTS))]     # float(2**70): its repr has an exponent (outside the float sub-domain)
        return v
    n = size if size is not None else rng.choice([0, 1, 2, 2, 3])
    if k == "list":
        return ["list", [gen_value(rng, t[1], opts) for _ in range(n)]]
    if k == "tupvar":
        return ["tup", [gen_value(rng, t[1], opts) for _ in range(n)]]
    if k == "tup":
        return ["tup", [gen_value(rng, x, opts) for x in t[1]]]
    if k == "set":
        out = []
        for _ in range(n):
            v = gen_value(rng, t[1], opts)
            if v not in out:
                out.append(v)
        return ["set", out]
    if k == "dict":
        items = []
        for _ in range(n):
            kv = gen_value(rng, t[1], opts)
            if all(kv != a for a, _ in items):
                items.append([kv, gen_value(rng, t[2], opts)])
        od = bool(opts.get("odict")) and rng.random() < 0.3
        return ["dict", od, items]
    if k == "dc":
        return ["dc", t[1], t[2], [[f[0], f[1], gen_value(rng, f[3], opts)] for f in t[3]]]
    raise ValueError(t)


# --------------------------------------------------------------------------------------------------
# Python classes from source text

def ann(t):
    k = t[0]
    if k in ("bool", "int", "float", "str"):
        return k
    if k == "path":
        return "Path"
    if k == "enum":
        return t[1]
    if k == "lit":
        return "Literal[" + ", ".join(repr(prim_to_py(p)) for p in t[1]) + "]"
    if k == "opt":
        if t[1][0] == "union":
            return "Union[" + ", ".join(ann(x) for x in t[1][1]) + ", None]"
        return f"Optional[{ann(t[1])}]"
    if k == "union":
        return "Union[" + ", ".join(ann(x) for x in t[1]) + "]"
    if k == "list":
        return f"List[{ann(t[1])}]"
    if k == "tup":
        return "Tuple[" + ", ".join(ann(x) for x in t[1]) + "]"
    if k == "tupvar":
        return f"Tuple[{ann(t[1])}, ...]"
    if k == "set":
        return f"Set[{ann(t[1])}]"
    if k == "dict":
        return f"Dict[{ann(t[1])}, {ann(t[2])}]"
    if k == "dc":
        return t[2]
    raise ValueError(t)


def dcs_in(t, out=None):
    """dataclass nodes, innermost first"""
    out = [] if out is None else out
    k = t[0]
    if k in ("opt", "list", "tupvar", "set"):
        dcs_in(t[1], out)
    elif k in ("union", "tup"):
        for x in t[1]:
            dcs_in(x, out)
    elif k == "dict":
        dcs_in(t[1], out)
        dcs_in(t[2], out)
    elif k == "dc":
        for f in t[3]:
            dcs_in(f[3], out)
        out.append(t)
    return out


def all_dcs(t, extra=()):
    """dataclass nodes of the static tree, then those only the runtime trees mention (subclasses): bases come first"""
    out, seen = [], set()
    for tree in (t,) + tuple(extra):
        for d in dcs_in(tree):
            if d[2] not in seen:
                seen.add(d[2])
                out.append(d)
    return out


def source_of(t, extra=()):
    lines = ["import copy, enum", "from dataclasses import dataclass", "from pathlib import Path",
             "from typing import Dict, List, Literal, Optional, Set, Tuple, Union",
             "from simple_parsing.helpers import FrozenSerializable, Serializable, field", ""]
    for c, ms in sorted(ENUMS.items()):
        lines.append(f"class {c}({ENUM_BASES[c]}):")
        lines += [f"    {m} = {v}" for m, v in ms]
        lines.append("")
    nodes = all_dcs(t, extra)
    byname = {d[2]: d for d in nodes}
    for d in nodes:
        kind, name, fields = d[1], d[2], d[3]
        base = d[4] if len(d) > 4 else None
        deco = "@dataclass(frozen=True)" if kind == "frozen" else "@dataclass"
        if base is not None:
            parent = base
            inherited = {f[0] for f in byname[base][3]}
        else:
            parent = {"frozen": "FrozenSerializable", "ser": "Serializable"}.get(kind)
            inherited = set()
        lines += [deco, f"class {name}({parent}):" if parent else f"class {name}:"]
        own = [f for f in fields if f[0] not in inherited]
        for fname, meta, dflt, ft in own:
            args = []
            if dflt is not None:
                args.append(f"default_factory=_DEFAULTS[{name + '.' + fname!r}]")
            if not meta["incl"]:
                args.append("to_dict=False")
            if meta["enc"] is not None:
                args.append(f"encoding_fn=_enc({meta['enc']})")
            if meta["dec"] is not None:
                args.append(f"decoding_fn=_dec({meta['dec']})")
            lines.append(f"    {fname}: {ann(ft)}" + (f" = field({', '.join(args)})" if args else ""))
        if not own:
            lines.append("    pass")
        lines.append("")
    return "\n".join(lines)


TYPES_MODULE = "spv_serial_types"


def build(t, extra=(), as_module=False):
    """exec the classes; returns the namespace (with _META: class name -> [(fname, meta)]).  as_module=True makes the
    classes importable as TYPES_MODULE.<name> (needed for the DC_TYPE_KEY path: _locate imports the module)."""
    import copy
    import sys
    import types
    import typing

    # typing caches parametrised generics by ==, and Union[a, b] == Union[b, a]: without this, List[Union[int, str]] built
    # after List[Union[str, int]] in the same process would silently be the earlier object (other member order)
    for clear in getattr(typing, "_cleanups", []):
        clear()
    if as_module:
        mod = types.ModuleType(TYPES_MODULE)
        sys.modules[TYPES_MODULE] = mod
        ns = mod.__dict__
    else:
        ns = {}
    ns.update({"_DEFAULTS": {}, "_META": {}, "_KIND": {},
               "_enc": lambda k: (lambda v: [k, type(v).__name__]),
               "_dec": lambda k: (lambda p: [k, copy.deepcopy(p)])})
    for d in all_dcs(t, extra):
        ns["_META"][d[2]] = [(f[0], f[1]) for f in d[3]]
        ns["_KIND"][d[2]] = d[1]
        for f in d[3]:
            if f[2] is not None:
                ns["_DEFAULTS"][d[2] + "." + f[0]] = (lambda v: (lambda: mk(ns, v)))(f[2])
    exec(compile(source_of(t, extra), "<serial>", "exec", dont_inherit=True), ns)
    return ns


def prim_to_py(p):
    k = p[0]
    if k == "none":
        return None
    if k == "bool":
        return bool(p[1])
    if k == "int":
        return int(p[1])
    if k == "float":
        return float(p[1])
    if k == "str":
        return p[1]
    if k == "list":
        return [prim_to_py(x) for x in p[1]]
    if k == "tuple":
        return tuple(prim_to_py(x) for x in p[1])
    if k == "dict":
        from collections import OrderedDict
        d = OrderedDict() if p[1] else {}
        for a, b in p[2]:
            d[prim_to_py(a)] = prim_to_py(b)
        return d
    raise ValueError(p)


def mk(ns, v):
    """JSON value -> Python object (sets / dicts built in the listed insertion order)"""
    import pathlib
    from collections import OrderedDict

    k = v[0]
    if k == "none":
        return None
    if k == "bool":
        return bool(v[1])
    if k == "int":
        return int(v[1])
    if k == "float":
        return float(v[1])
    if k == "str":
        return v[1]
    if k == "path":
        return pathlib.Path(v[1])
    if k == "enum":
        return ns[v[1]][v[2]]
    if k == "list":
        return [mk(ns, x) for x in v[1]]
    if k == "tup":
        return tuple(mk(ns, x) for x in v[1])
    if k == "set":
        s = set()
        for x in v[1]:
            s.add(mk(ns, x))
        return s
    if k == "dict":
        d = OrderedDict() if v[1] else {}
        for a, b in v[2]:
            d[mk(ns, a)] = mk(ns, b)
        return d
    if k == "dc":
        return ns[v[2]](**{f[0]: mk(ns, f[2]) for f in v[3]})
    raise ValueError(v)


# --------------------------------------------------------------------------------------------------
# canonical observation

def skey(s: str) -> int:
    n = 0
    for b in reversed(s.encode("utf-8")):
        n = b + 1 + 257 * n
    return n


def vkey(v) -> int:
    k = v[0]
    if k == "int":
        return int(v[1])
    if k == "bool":
        return 1 if v[1] else 0
    if k in ("str", "path", "float"):
        return skey(v[1])
    if k == "enum":
        return skey(v[2])
    return 0


def canon(ns, o, sort_sets):
    """Python object -> JSON value.  sort_sets=False lists a set in its iteration order.
    Type IDENTITY is kept: exact builtin classes (a subclass of int/str/list/dict/..., a frozenset, a PurePath that is not
    the concrete Path class) and Enum / dataclass classes other than the very class objects of this case's namespace
    (a same-named class from elsewhere) become ["other", ...] and so never compare equal to a well-typed value."""
    import dataclasses
    import enum
    import pathlib
    from collections import OrderedDict

    t = type(o)
    if o is None:
        return ["none"]
    if t is bool:
        return ["bool", o]
    if isinstance(o, enum.Enum):
        if ns.get(t.__name__) is t:
            return ["enum", t.__name__, o.name]
        return ["other", "foreign-enum:" + t.__module__ + "." + t.__qualname__ + "." + o.name]
    if t is int:
        return ["int", str(o)]
    if t is float:
        return ["float", repr(o)] if float_ok(o) else ["other", "float:" + repr(o)]
    if t is str:
        return ["str", o]
    if t is type(pathlib.Path()):
        return ["path", str(o)]
    if t is list:
        return ["list", [canon(ns, x, sort_sets) for x in o]]
    if t is tuple:
        return ["tup", [canon(ns, x, sort_sets) for x in o]]
    if t is set:
        items = [canon(ns, x, sort_sets) for x in o]
        if sort_sets:
            items.sort(key=vkey)
        return ["set", items]
    if t is dict or t is OrderedDict:
        return ["dict", t is OrderedDict, [[canon(ns, a, sort_sets), canon(ns, b, sort_sets)] for a, b in o.items()]]
    if dataclasses.is_dataclass(o) and not isinstance(o, type):
        name = t.__name__
        if name in ns["_META"] and ns.get(name) is t:
            fs = []
            for fn, meta in ns["_META"][name]:
                try:
                    fs.append([fn, meta, canon(ns, getattr(o, fn), sort_sets)])
                except AttributeError:
                    fs.append([fn, meta, ["other", "unset-attribute"]])
            return ["dc", ns["_KIND"][name], name, fs]
        return ["other", "foreign-dataclass:" + t.__module__ + "." + t.__qualname__]
    return ["other", t.__module__ + "." + t.__name__ + ":" + repr(o)[:80]]


def canon_prim(o):
    from collections import OrderedDict

    if o is None:
        return ["none"]
    if isinstance(o, bool):
        return ["bool", o]
    if type(o) is int:
        return ["int", str(o)]
    if type(o) is float:
        return ["float", repr(o)] if float_ok(o) else ["bad", "float:" + repr(o)]
    if type(o) is str:
        return ["str", o]
    if type(o) is list:
        return ["list", [canon_prim(x) for x in o]]
    if type(o) is tuple:
        return ["tuple", [canon_prim(x) for x in o]]
    if type(o) in (dict, OrderedDict):
        return ["dict", type(o) is OrderedDict, [[canon_prim(a), canon_prim(b)] for a, b in o.items()]]
    return ["bad", type(o).__name__]


def prim_only(p) -> bool:
    k = p[0]
    if k in ("none", "bool", "int", "float", "str"):
        return True
    if k == "list":
        return all(prim_only(x) for x in p[1])
    if k == "dict":
        return (not p[1]) and all(a[0] in ("none", "bool", "int", "float", "str") and prim_only(b) for a, b in p[2])
    return False


def first_non_prim(p, path="$"):
    k = p[0]
    if k in ("none", "bool", "int", "float", "str"):
        return None
    if k == "list":
        for i, x in enumerate(p[1]):
            r = first_non_prim(x, f"{path}[{i}]")
            if r:
                return r
        return None
    if k == "dict":
        if p[1]:
            return ("OrderedDict", path)
        for a, b in p[2]:
            if a[0] not in ("none", "bool", "int", "float", "str"):
                return ("key:" + a[0], path)
            r = first_non_prim(b, path + "." + str(a[1] if len(a) > 1 else a[0]))
            if r:
                return r
        return None
    if k == "tuple":
        return ("tuple", path)
    return (p[1] if len(p) > 1 else k, path)


# --------------------------------------------------------------------------------------------------
# Python mirror of Model/SerialSpec.v

def scalar_prim(v):
    return v if v[0] in ("bool", "int", "str", "none") else None


def has_type(v, t) -> bool:
    k = t[0]
    if k in ("bool", "int", "float", "str", "path"):
        return v[0] == k
    if k == "enum":
        return v[0] == "enum" and v[1] == t[1] and v[2] in t[2]
    if k == "lit":
        return scalar_prim(v) is not None and any(list(v) == list(c) for c in t[1])
    if k == "opt":
        return v[0] == "none" or has_type(v, t[1])
    if k == "union":
        return any(has_type(v, x) for x in t[1])
    if k == "list":
        return v[0] == "list" and all(has_type(x, t[1]) for x in v[1])
    if k == "tupvar":
        return v[0] == "tup" and all(has_type(x, t[1]) for x in v[1])
    if k == "tup":
        return v[0] == "tup" and len(v[1]) == len(t[1]) and all(has_type(x, y) for x, y in zip(v[1], t[1]))
    if k == "set":
        ks = [vkey(x) for x in v[1]] if v[0] == "set" else []
        return v[0] == "set" and all(has_type(x, t[1]) for x in v[1]) and all(a < b for a, b in zip(ks, ks[1:]))
    if k == "dict":
        return (v[0] == "dict" and all(has_type(a, t[1]) and has_type(b, t[2]) for a, b in v[2])
                and all(v[2][i][0] != v[2][j][0] for i in range(len(v[2])) for j in range(i + 1, len(v[2]))))
    if k == "dc":
        return (v[0] == "dc" and (v[1] == "plain") == (t[1] == "plain") and v[2] == t[2] and len(v[3]) == len(t[3])
                and all(a[0] == f[0] and a[1] == f[1] and has_type(a[2], f[3]) for a, f in zip(v[3], t[3])))
    raise ValueError(t)


def veq(a, b) -> bool:
    if a[0] != b[0]:
        return False
    k = a[0]
    if k in ("list", "tup", "set"):
        return len(a[1]) == len(b[1]) and all(veq(x, y) for x, y in zip(a[1], b[1]))
    if k == "dict":
        return len(a[2]) == len(b[2]) and all(any(veq(x[0], y[0]) and veq(x[1], y[1]) for y in b[2]) for x in a[2])
    if k == "dc":
        return ((a[1] == "plain") == (b[1] == "plain") and a[2] == b[2] and len(a[3]) == len(b[3])
                and all(x[0] == y[0] and veq(x[2], y[2]) for x, y in zip(a[3], b[3])))
    return list(a) == list(b)


def first_diff(a, b, path="$"):
    """where two values differ (for signatures): (path, kind-of-a, kind-of-b)"""
    if a[0] != b[0]:
        return (path, a[0], b[0])
    k = a[0]
    if k in ("list", "tup", "set"):
        if len(a[1]) != len(b[1]):
            return (path, f"{k}#{len(a[1])}", f"{k}#{len(b[1])}")
        for i, (x, y) in enumerate(zip(a[1], b[1])):
            d = first_diff(x, y, f"{path}[{i}]")
            if d:
                return d
        return None
    if k == "dict":
        if len(a[2]) != len(b[2]):
            return (path, "dict#", "dict#")
        for x in a[2]:
            ms = [y for y in b[2] if veq(x[0], y[0])]
            if not ms:
                return (path + ".key", x[0][0], "absent")
            d = first_diff(x[1], ms[0][1], path + ".val")
            if d:
                return d
        return None
    if k == "dc":
        for x, y in zip(a[3], b[3]):
            d = first_diff(x[2], y[2], f"{path}.{x[0]}")
            if d:
                return d
        return None
    return None if list(a) == list(b) else (path, k, k)


def sort_sets(v):
    k = v[0]
    if k in ("list", "tup"):
        return [k, [sort_sets(x) for x in v[1]]]
    if k == "set":
        return ["set", sorted((sort_sets(x) for x in v[1]), key=vkey)]
    if k == "dict":
        return ["dict", v[1], [[sort_sets(a), sort_sets(b)] for a, b in v[2]]]
    if k == "dc":
        return ["dc", v[1], v[2], [[f[0], f[1], sort_sets(f[2])] for f in v[3]]]
    return v


def type_at(t, v):
    """the annotation kinds along the value (for signatures / features)"""
    return t[0]


def kinds_in(t, out=None):
    out = set() if out is None else out
    out.add(t[0])
    k = t[0]
    if k in ("opt", "list", "tupvar", "set"):
        kinds_in(t[1], out)
    elif k in ("union", "tup"):
        for x in t[1]:
            kinds_in(x, out)
    elif k == "dict":
        out.add("dict[" + t[1][0] + "]")
        kinds_in(t[1], out)
        kinds_in(t[2], out)
    elif k == "dc":
        out.add("dc:" + t[1])
        for f in t[3]:
            kinds_in(f[3], out)
    return out


def depth_of(t):
    k = t[0]
    if k in ("opt", "list", "tupvar", "set"):
        return 1 + depth_of(t[1])
    if k in ("union", "tup"):
        return 1 + max([depth_of(x) for x in t[1]] or [0])
    if k == "dict":
        return 1 + max(depth_of(t[1]), depth_of(t[2]))
    if k == "dc":
        return 1 + max([depth_of(f[3]) for f in t[3]] or [0])
    return 0


# --------------------------------------------------------------------------------------------------
# Coq emitters

def cmeta(m):
    return f"(mkmeta {cbool(m['incl'])} {copt(cZ(m['enc'])) if m['enc'] is not None else 'None'} " \
           f"{copt(cZ(m['dec'])) if m['dec'] is not None else 'None'})"


def ckind(k):
    return "KPlain" if k == "plain" else "KSer"


def cprim(p):
    k = p[0]
    if k == "none":
        return "PNone"
    if k == "bool":
        return f"(PBool {cbool(p[1])})"
    if k == "int":
        return f"(PInt {cZ(int(p[1]))})"
    if k == "float":
        return f"(PFlt {cstr(p[1])})"
    if k == "str":
        return f"(PStr {cstr(p[1])})"
    if k == "list":
        return f"(PList {clist([cprim(x) for x in p[1]])})"
    if k == "tuple":
        return f"(PTuple {clist([cprim(x) for x in p[1]])})"
    if k == "dict":
        return f"(PDict {cbool(p[1])} {clist([cpair(cprim(a), cprim(b)) for a, b in p[2]])})"
    return "PBad"


def cvalue(v):
    k = v[0]
    if k == "none":
        return "VNone"
    if k == "bool":
        return f"(VBool {cbool(v[1])})"
    if k == "int":
        return f"(VInt {cZ(int(v[1]))})"
    if k == "float":
        return f"(VFlt {cstr(v[1])})"
    if k == "str":
        return f"(VStr {cstr(v[1])})"
    if k == "path":
        return f"(VPath {cstr(v[1])})"
    if k == "enum":
        return f"(VEnum {cstr(v[1])} {cstr(v[2])})"
    if k == "list":
        return f"(VList {clist([cvalue(x) for x in v[1]])})"
    if k == "tup":
        return f"(VTup {clist([cvalue(x) for x in v[1]])})"
    if k == "set":
        return f"(VSet {clist([cvalue(x) for x in v[1]])})"
    if k == "dict":
        return f"(VDict {cbool(v[1])} {clist([cpair(cvalue(a), cvalue(b)) for a, b in v[2]])})"
    if k == "dc":
        return f"(VDc {ckind(v[1])} {cstr(v[2])} {clist(['(' + cstr(f[0]) + ', ' + cmeta(f[1]) + ', ' + cvalue(f[2]) + ')' for f in v[3]])})"
    return f"(VStr {cstr('<other:' + str(v[1]) + '>')})"


def cty(t):
    k = t[0]
    if k in ("bool", "int", "float", "str", "path"):
        return {"bool": "TBool", "int": "TInt", "float": "TFloat", "str": "TStr", "path": "TPath"}[k]
    if k == "enum":
        return f"(TEnum {cstr(t[1])} {clist([cstr(m) for m in t[2]])})"
    if k == "lit":
        return f"(TLit {clist([cprim(p) for p in t[1]])})"
    if k == "opt":
        return f"(TOpt {cty(t[1])})"
    if k == "union":
        return f"(TUnion {clist([cty(x) for x in t[1]])})"
    if k == "list":
        return f"(TList {cty(t[1])})"
    if k == "tup":
        return f"(TTup {clist([cty(x) for x in t[1]])})"
    if k == "tupvar":
        return f"(TTupVar {cty(t[1])})"
    if k == "set":
        return f"(TSet {cty(t[1])})"
    if k == "dict":
        return f"(TDict {cty(t[1])} {cty(t[2])})"
    if k == "dc":
        fs = []
        for fn, meta, dflt, ft in t[3]:
            d = "None" if dflt is None else f"(Some {cvalue(sort_sets(dflt))})"
            fs.append(f"({cstr(fn)}, {cmeta(meta)}, {d}, {cty(ft)})")
        return f"(TDc {ckind(t[1])} {cstr(t[2])} {clist(fs)})"
    raise ValueError(t)


def cres(obs, emit):
    """["ok", x] | ["raise", cls] -> res term"""
    if obs[0] == "ok":
        return f"(Ok {emit(obs[1])})"
    return f"(Err (Raise {cstr(obs[1])}))"
