"""C12 — boolean flags: bare / negative / valued occurrences, last wins, negative option naming."""
from __future__ import annotations

import itertools
import random

from coqemit import cbool, clist, copt, cpair, cstr, cstrlist, outcome

ID = "C12"
FACTS = ["Bool", "NegStrSrc"]
COQ_HEADER = "From SPV Require Import CorrDefs.CorrC12."
COQ_CASE_TYPE = "case"
RULE = ("bool field (default True/False/required; plain, custom negative_prefix or explicit negative_option) placed in one "
        "of 3 layouts (single dest, same class at two dests, nested class at two dests) x conflict resolution AUTO/EXPLICIT x "
        "generation mode FLAT/NESTED/BOTH x nested mode x 4 dash variants; occurrence sequences of length 0..4 over "
        "{bare, negative, valued (every vocabulary word in 3 casings, non-words, blank-padded words), value on the negative} "
        "with both `--o v` and `--o=v` spellings; every single-occurrence case is enumerated, longer sequences are sampled from "
        "VERIF_SEED. Non-trivial = the parser was set up and at least one occurrence was written; distinct by full case.")
TRUSTED = ["Model/MiniPy.v (the interpreter is the reading of Python for the dumped body of BooleanOptionalAction.__init__ (negative option strings); itself checked against CPython by ./check MINIPY) and harness/translate/minipy.py (syntax-to-syntax dump, fail closed)",
           "argparse delivers one occurrence to the action as modelled in Model/BoolFlag.v eval_occ (type= applied first, nargs='?')"]
ASSUMPTIONS = ["tokens written as values never start with '-' (argparse would lex them as options)"]

WORDS_T = ["yes", "true", "t", "y", "1"]
WORDS_F = ["no", "false", "f", "n", "0"]
NONWORDS = ["maybe", "2", "tru", "yess", "", "on", "10"]
PADDED = [" true", "no ", " 1 "]


def casings(w):
    return sorted({w, w.upper(), w.capitalize()})


def setups(rng, tier):
    out = []
    # names that themselves begin with a negative prefix ("no", "disable_"): the positive option of such a field must not be
    # mistaken for a negative one (seeded change C12-03 recognised negatives by their spelling instead of by membership)
    names = ["flag", "my_flag", "v", "notify", "no_cache", "disable_it"]
    for name in names:
        for default in (True, False, None):
            for layout in ("single", "two", "nested2"):
                if layout != "single" and default is None:
                    continue  # the same field at the other destination would be required too
                for cr in ("AUTO", "EXPLICIT"):
                    if layout == "single" and cr == "EXPLICIT":
                        continue
                    for gen in ("FLAT", "NESTED", "BOTH"):
                        for nm in ("DEFAULT", "WITHOUT_ROOT"):
                            if nm == "WITHOUT_ROOT" and layout != "single":
                                continue  # dropping the root makes the two destinations indistinguishable
                            for dash in ("AUTO", "UNDERSCORE", "DASH", "UNDERSCORE_AND_DASH"):
                                if dash != "AUTO" and "_" not in name:
                                    continue
                                for neg in (None, ("np", "--no-"), ("np", "--disable_"), ("np", "-x"), ("nopt", "--silent"),
                                            ("nopt", "quiet"), ("nopt", "q"), ("nopt", "-s"), ("nopt", "nq")):   # "nq": exactly two characters, no dashes (mutant: `> 1` -> `> 2`)
                                    if neg and neg[0] == "nopt" and gen != "FLAT" and layout != "single":
                                        continue  # explicit negatives carry only the *conflict* prefix (see DESIGN C12)
                                    out.append(dict(name=name, default=default, layout=layout, cr=cr, gen=gen, nm=nm,
                                                    dash=dash, np=neg[1] if neg and neg[0] == "np" else None,
                                                    nopt=neg[1] if neg and neg[0] == "nopt" else None,
                                                    target=rng.choice(["a", "b"]) if layout != "single" else "a"))
    return out


def occurrence_pool():
    pool = [["posbare"], ["negbare"]]
    for w in WORDS_T + WORDS_F:
        for c in casings(w):
            pool.append(["posval", c])
    for w in NONWORDS + PADDED:
        pool.append(["posval", w])
    for w in ["true", "False", "0", "maybe"]:
        pool.append(["negval", w])
    return pool


def gen(tier, seed):
    rng = random.Random(f"C12-{seed}")
    sets = setups(rng, tier)
    pool = occurrence_pool()
    cases = []
    n_seq = 1200 if tier == "quick" else 14000
    # every single occurrence, on a rotating setup (all setups get covered as the index advances)
    idx = 0
    for occ in pool:
        for spell in ("sep", "eq"):
            if occ[0] in ("posbare", "negbare") and spell == "eq":
                continue
            for default in (True, False, None):
                s = dict(sets[idx % len(sets)])
                idx += 7
                if s["layout"] == "single":
                    s["default"] = default
                cases.append(dict(setup=s, occs=[dict(kind=occ[0], value=occ[1] if len(occ) > 1 else None, spell=spell, which=0)]))
    # the empty command line on every setup
    for s in sets[:: (4 if tier == "quick" else 1)]:
        cases.append(dict(setup=s, occs=[]))
    for _ in range(n_seq):
        s = rng.choice(sets)
        k = rng.choice([1, 2, 2, 3, 3, 4])
        occs = []
        for _ in range(k):
            o = rng.choice(pool) if rng.random() < 0.55 else rng.choice(pool[:2] + [["posval", rng.choice(WORDS_T + WORDS_F)]])
            occs.append(dict(kind=o[0], value=o[1] if len(o) > 1 else None, spell=rng.choice(["sep", "eq"]), which=rng.randrange(3)))
        cases.append(dict(setup=s, occs=occs))
    return cases


# --------------------------------------------------------------------------------------------------
# implementation side


def _source(s):
    name = s["name"]
    args = []
    if s["default"] is not None:
        args.append(f"default={s['default']}")
    if s["np"] is not None:
        args.append(f"negative_prefix={s['np']!r}")
    if s["nopt"] is not None:
        args.append(f"negative_option={s['nopt']!r}")
    if s["np"] is None and s["nopt"] is None:
        fld = f"{name}: bool" + (f" = {s['default']}" if s["default"] is not None else "")
    else:
        fld = f"{name}: bool = flag({', '.join(args)})"
    src = ["from dataclasses import dataclass, field", "from simple_parsing import flag", ""]
    if s["layout"] == "nested2":
        src += ["@dataclass", "class In:", f"    {fld}", "", "@dataclass", "class A:", "    other: int = 0",
                "    c: In = field(default_factory=In)" if s["default"] is not None else "    c: In = None", ""]
    else:
        src += ["@dataclass", "class A:", "    other: int = 0" if s["default"] is not None else "    pass", f"    {fld}", ""]
    return "\n".join(src)


def _fix_required_nested(s):
    # a required field inside a nested dataclass: declare the member without a default
    return s


def _build(s):
    import simple_parsing as sp
    from simple_parsing import ArgumentParser, ConflictResolution
    from simple_parsing.wrappers.field_wrapper import ArgumentGenerationMode, DashVariant, NestedMode

    ns = {}
    src = _source(s)
    if s["layout"] == "nested2" and s["default"] is None:
        src = src.replace("    other: int = 0\n    c: In = None", "    c: In")
    exec(compile(src, "<c12>", "exec", dont_inherit=True), ns)
    parser = ArgumentParser(
        conflict_resolution=ConflictResolution[s["cr"]],
        argument_generation_mode=ArgumentGenerationMode[s["gen"]],
        nested_mode=NestedMode[s["nm"]],
        add_option_string_dash_variants=DashVariant[s["dash"]],
    )
    parser.add_arguments(ns["A"], "a")
    if s["layout"] != "single":
        parser.add_arguments(ns["A"], "b")
    return parser


def _target_dest(s):
    return s["target"] + (".c" if s["layout"] == "nested2" else "")


def spec_negative(np, body):
    parts = body.split(".")
    path, n = parts[:-1], parts[-1]
    k = len(np) - len(np.lstrip("-"))
    w = np.lstrip("-")
    if path:
        return "-" * k + ".".join(path + [w + n])
    return np + n


def run_impl(cases):
    from implutil import outcome_of, reset_simple_parsing_state

    out = []
    for case in cases:
        s = case["setup"]
        reset_simple_parsing_state()
        info = {}

        def setup():
            p = _build(s)
            p._preprocessing(args=[])
            for w in p._wrappers:
                if w.dest == _target_dest(s):
                    for fw in w.fields:
                        if fw.name == s["name"]:
                            pos = list(fw.option_strings)
                            act = p._option_string_actions[pos[0]]
                            return dict(pos=pos, all=list(act.option_strings), cpfx=fw.prefix,
                                        negs=list(getattr(act, "negative_option_strings", [])))
            raise LookupError("target field not found")

        r = outcome_of(setup)
        if r[0] != "ok":
            out.append(dict(setup_failed=True, obs=r[:2], pos=[], all=[], cpfx="", argv=[], used=[], expect_negs=[]))
            continue
        info = r[1]
        longs = [o for o in info["pos"] if o.startswith("--")] or info["pos"]
        np = s["np"] if s["np"] is not None else "--no"
        if s["nopt"] is not None:
            n = s["nopt"]
            if n.startswith("-"):
                en = "-" * (len(n) - len(n.lstrip("-"))) + info["cpfx"] + n.lstrip("-")
            else:
                en = ("--" if len(info["cpfx"] + n) > 1 else "-") + info["cpfx"] + n
            expect_negs = [en]
            neg_of = {o: en for o in longs}
        else:
            neg_of = {o: spec_negative(np, o[2:] if o.startswith("--") else o[1:]) for o in longs}
            expect_negs = [neg_of[o] for o in longs if o.startswith("--")]
        argv, used = [], []
        for oc in case["occs"]:
            o = longs[oc["which"] % len(longs)]
            if oc["kind"] in ("negbare", "negval"):
                o = neg_of[o]
            used.append(o)
            if oc["value"] is None:
                argv.append(o)
            elif oc["spell"] == "eq":
                argv.append(f"{o}={oc['value']}")
            else:
                argv += [o, oc["value"]]
        reset_simple_parsing_state()

        def parse():
            p = _build(s)
            nsp = p.parse_args(argv)
            v = nsp
            for part in _target_dest(s).split("."):
                v = getattr(v, part)
            return getattr(v, s["name"])

        r = outcome_of(parse)
        if r[0] == "ok" and not isinstance(r[1], bool):
            r = ["raise", "NotABool:" + type(r[1]).__name__]
        out.append(dict(setup_failed=False, obs=r[:2], pos=info["pos"], all=info["all"], cpfx=info["cpfx"],
                        argv=argv, used=used, expect_negs=expect_negs))
    return out


# --------------------------------------------------------------------------------------------------
# spec (Python mirror of Model/BoolFlagSpec.v), Coq emission, bookkeeping


def spec_expect(case):
    cur = None
    for oc in case["occs"]:
        k, v = oc["kind"], oc["value"]
        if k == "posbare":
            cur = True
        elif k == "negbare":
            cur = False
        elif k == "negval":
            return ("reject",)
        else:
            if v.strip() != v:
                return ("any",)
            w = v.lower()
            if w in WORDS_T:
                cur = True
            elif w in WORDS_F:
                cur = False
            else:
                return ("reject",)
    if cur is None:
        d = case["setup"]["default"]
        return ("reject",) if d is None else ("be", d)
    return ("be", cur)


def py_spec(case, obs):
    if obs["setup_failed"]:
        return f"parser set-up failed: {obs['obs']}"
    missing = [n for n in obs["expect_negs"] if n not in obs["all"]]
    if missing:
        return f"documented negative option(s) {missing} not registered (have {obs['all']})"
    e = spec_expect(case)
    o = obs["obs"]
    if e[0] == "be" and o != ["ok", e[1]]:
        return f"expected {e[1]} for argv {obs['argv']}, observed {o}"
    if e[0] == "reject" and o[0] == "ok":
        return f"expected rejection of argv {obs['argv']}, observed {o}"
    return None


def signature(case, obs, reason):
    if obs["setup_failed"]:
        return "setup-failed:" + str(obs["obs"][1])
    e = spec_expect(case)
    kinds = "+".join(sorted({oc["kind"] for oc in case["occs"]})) or "empty"
    return f"{e[0]}:{obs['obs'][0]}:{kinds}"


def nontrivial(case, obs):
    return (not obs["setup_failed"]) and len(case["occs"]) > 0


def features(case, obs):
    s = case["setup"]
    return {"layout": s["layout"], "gen": s["gen"], "dash": s["dash"], "len": len(case["occs"]),
            "neg": "nopt" if s["nopt"] else ("np" if s["np"] else "default"),
            "default": s["default"], "outcome": obs["obs"][0] + (str(obs["obs"][1]) if obs["obs"][0] == "exit" else "")}


def to_coq(case, obs):
    s = case["setup"]
    np = s["np"] if s["np"] is not None else "--no"
    kinds = []
    for oc, o in zip(case["occs"], obs["used"] or [""] * len(case["occs"])):
        k = {"posbare": "PosBare", "negbare": "NegBare"}.get(oc["kind"])
        if k is None:
            k = f"({'PosVal' if oc['kind'] == 'posval' else 'NegVal'} {cstr(oc['value'])})"
        kinds.append(cpair(k, cstr(o)))
    o = obs["obs"]
    ob = outcome(["ok", cbool(o[1])] if o[0] == "ok" else o)
    return (f"mkcase {cstr(np)} {copt(cstr(s['nopt'])) if s['nopt'] is not None else 'None'} {cstr(obs['cpfx'])} "
            f"{cstrlist(obs['pos'])} {cstrlist(obs['all'])} {copt(cbool(s['default'])) if s['default'] is not None else 'None'} "
            f"{clist(kinds)} {cstrlist(obs['expect_negs'])} {ob}")


def shrink(case):
    occs = case["occs"]
    for i in range(len(occs)):
        yield dict(setup=case["setup"], occs=occs[:i] + occs[i + 1:])
    s = case["setup"]
    for k, v in (("layout", "single"), ("gen", "FLAT"), ("dash", "AUTO"), ("nm", "DEFAULT"), ("np", None), ("nopt", None)):
        if s[k] != v:
            s2 = dict(s)
            s2[k] = v
            if v == "single":
                s2["target"] = "a"
                s2["cr"] = "AUTO"
            yield dict(setup=s2, occs=occs)
