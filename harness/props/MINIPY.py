"""MINIPY — auxiliary engine: the MiniPy interpreter (coq/Model/MiniPy.v eval/exec/run), the trusted reading of Python for the
bridge theorems C10/C11/C12 `*_source_is_model`, against CPython itself (differential run), and at the same time the
translator harness/translate/minipy.py against its own inverse (print -> parse -> translate round trip on every program)."""
from __future__ import annotations

import ast
import copy
import random

from coqemit import cbool, clist, cnat, copt, cstr

ID = "MINIPY"
FACTS = []
COQ_HEADER = "From SPV Require Import CorrDefs.CorrMINIPY."
COQ_CASE_TYPE = "case"
RULE = ("random MiniPy programs (JSON asts over every constructor of expr and stmt) with a random typed environment "
        "(str incl. '', '-', '_', '.', quotes, braces, backslash; small naturals; bools; None; lists and tuples of these, nested "
        "to depth 2; plain names and the attributes self.acc / self.pre).  A typed generator makes ~3/4 of the programs "
        "well-typed (they may still end in IndexError / ValueError / AssertionError / a raise / a negative subtraction); the "
        "rest carry one injected fault that CPython rejects too (unbound name, operand of a wrong type per operator slot, "
        "method on a non-string, append to a non-list or unbound name, loop over a non-iterable, too-short unpacking, "
        "index out of range, assert of a falsy value, raise).  Exercised on purpose: nested loops and comprehensions, a "
        "comprehension variable named like an outer variable that is read afterwards, loop variables that shadow and "
        "leak, return inside for/if, bool-vs-int comparisons and membership, multi-character and empty needles of `in`, "
        "and ALIASING templates (b = a; a.append(..); b = [a]; for x in xs: x.append(..); for x in a: a.append(..)) "
        "which the translator must refuse.  Every program is printed to Python source through `ast` (the inverse of "
        "translate/minipy.py), parsed and translated back (must give the same term, else the tie is broken), executed by "
        "CPython as a function body with the environment as arguments (subtraction through a guard that raises "
        "MiniPyNegativeNumber on a negative result; 1 s alarm), and the result - tagged value or exception class - is "
        "compared in Coq with `run env prog`.  Non-trivial = translatable and at least 3 statements or depth >= 3; "
        "distinct by full case.")
TRUSTED = ["CPython 3.12 as /venv/bin/python executes the printed source; utils.get_nesting_level is the repository's own function",
           "ast.unparse / ast.parse of the standard library (used to print the program; the round trip through "
           "translate/minipy.py is checked on every program)"]
ASSUMPTIONS = ["MiniPy is deliberately UNDEFINED (MiniPyTypeError) on dynamically typed uses that Python accepts, and these are "
               "never generated: str() of a non-string inside an f-string; iterating / joining / unpacking / extending with a str "
               "or a tuple (for, comprehensions, zip, dict.fromkeys, sorted); list('abc'); 'abc'[0]; "
               "bool used as a number (True + 1, '-' * True, True > 0); ordering of strings or lists with >; "
               "dict.fromkeys / sorted(key=len) of lists whose items are not strings; a bridge theorem can never go through "
               "such a use (its conclusion is a value or a named exception)",
               "x.append(e) / x.extend(e) where x is not a list AND e itself raises: the interpreter reports e's exception, "
               "CPython the AttributeError/NameError on x (never generated: the argument of an ill-typed append is a literal)",
               "integers: naturals only; a subtraction with a negative result is an error of the fragment (guarded in the runner)",
               "string literals are printable ASCII; replace / split / lstrip / repetition take one-character literals (enforced by "
               "the translator); local `def` inlining by the translator is not part of the term language and not exercised here",
               "the environment binds each name to its own object (no two parameters share a list)",
               "dict keys (stored or looked up) are hashable values; the interpreter does not check it (CPython raises TypeError for a "
               "list / dict key); `k in obj` is generated for argparse.Namespace objects only (other objects: TypeError in CPython, "
               "attribute membership in the interpreter); argparse.SUPPRESS is a sentinel distinct from every string (it IS the string "
               "'==SUPPRESS==' in CPython); == on objects is structural (class and attributes); list item assignment xs[i] = v, "
               "views (d.keys(), zip, vars) outside iteration positions and evaluation-order differences inside one nested item "
               "assignment are outside the fragment (the translator refuses the views)"]

ATTR_VARS = ["self.pre", "self.acc"]          # attribute variables; self.acc is also an assignment / append target
STRS = ["", "a", "-", "--", "_", ".", "a_b", "--x.y", "a.b.c", "-f", "x-y", "__", "ab", "A b", "{}", "it's", 'q"q', "\\", "aa",
        "--no", "a.", ".a", "b", "{x}", "-_-", " a ", "a#b ", "  ", "x: int", "a'''b"]
CHARS = ["-", "_", ".", "a", " ", "b", "x"]
NAMES = ["a", "b", "c", "s", "t", "xs", "ys", "n", "m", "k", "flag", "opt", "parts", "acc", "item", "x", "y", "v", "w"]
EXC = ["NotImplementedError", "ValueError", "KeyError", "RuntimeError", "InconsistentArgumentError"]

S, N, B, NONE = ("str",), ("nat",), ("bool",), ("none",)


def L(t):
    return ("list", t)


def T(t):
    return ("tuple", t)


BASE = [S, S, S, N, N, B, NONE]


def rand_type(rng, depth=2):
    r = rng.random()
    if depth > 0 and r < 0.38:
        return L(rand_type(rng, depth - 1))
    if depth > 0 and r < 0.46:
        return T(rand_type(rng, depth - 1))
    return rng.choice(BASE)


def rand_value(rng, t):
    k = t[0]
    if k == "str":
        return rng.choice(STRS)
    if k == "nat":
        return rng.choice([0, 0, 1, 1, 2, 3, 4, 5])
    if k == "bool":
        return rng.random() < 0.5
    if k == "none":
        return None
    n = rng.choice([0, 1, 2, 2, 3, 3, 4])
    items = [rand_value(rng, t[1]) for _ in range(n)]
    return {"list": items} if k == "list" else {"tuple": items}


# --------------------------------------------------------------------------------------------------
# typed generator


class G:
    def __init__(self, rng, fault=None):
        self.rng = rng
        self.fault = fault          # None | "armed" (one ill-typed slot still to be injected) | "done"
        self.fresh = 0
        self.mutating = rng.random() < 0.55   # the other programs have no append / extend at all (no aliasing question)
        self.noappend = set()                 # loop variables, unpacking targets: never appended to (outside the alias templates)

    # ---- helpers
    def vars_of(self, scope, t):
        if isinstance(t, tuple) and len(t) == 2 and t[1] == "any":
            return [x for x, u in scope.items() if u[0] == t[0]]
        return [x for x, u in scope.items() if u == t]

    def lit(self, t, depth=1):
        if t == "any":
            t = rand_type(self.rng, 0)
        rng, k = self.rng, t[0]
        if k == "str":
            return ["EStr", rng.choice(STRS)]
        if k == "nat":
            return ["ENat", rng.choice([0, 1, 1, 2, 2, 3, 5])]
        if k == "bool":
            return ["EBool", rng.random() < 0.5]
        if k == "none":
            return ["ENone"]
        if k == "list":
            return ["EList", [self.lit(t[1]) for _ in range(rng.choice([0, 1, 2, 2, 3, 3]))]]
        return self.lit(L(t[1]))  # no tuple display in the fragment: the list of the same items

    def maybe_fault(self, slot_bad, scope, depth):
        """With an armed fault, sometimes return an expression that CPython rejects in this slot."""
        if self.fault == "armed" and self.rng.random() < 0.22:
            self.fault = "done"
            kind = self.rng.choice(slot_bad + ["unbound"])
            if kind == "unbound":
                return ["EVar", self.rng.choice(["zz", "undefined_name", "q9"])]
            return self.e(kind, scope, min(depth, 1))
        return None

    # ---- expressions
    def e(self, t, scope, depth):
        rng = self.rng
        if t == "any":
            t = rand_type(rng, 1)
        vs = self.vars_of(scope, t)
        if depth <= 0 or rng.random() < 0.18:
            if vs and rng.random() < 0.7:
                return ["EVar", rng.choice(vs)]
            l = self.lit(t)
            if l is not None:
                return l
            if vs:
                return ["EVar", rng.choice(vs)]
        r = getattr(self, "e_" + t[0])(t, scope, depth - 1)
        if r is None:       # a tuple type without a variable of that type: the list of the same items serves the slot as well
            r = self.e(L(t[1]), scope, depth)
        return r

    def cond(self, scope, depth):
        return self.e(self.rng.choice([B, B, B, S, N, L(S), "any"]), scope, depth)

    def str_arg(self, scope, depth, bad=(N, NONE, L(S))):
        return self.maybe_fault(list(bad), scope, depth) or self.e(S, scope, depth)

    def e_str(self, t, scope, d):
        rng = self.rng
        c = rng.choice(["fmt", "fmt", "replace", "join", "slice", "cond", "lstrip", "repeat", "add", "index", "andor", "var", "mul",
                        "strip", "partition", "charat", "slice2"])
        if c == "strip":
            return ["EStrip", self.str_arg(scope, d)]
        if c == "partition":
            return ["EIndex", ["EPartition", self.str_arg(scope, d), rng.choice(["#", ":", "=", ".", "--", "a", "'" * 3])], rng.choice([0, 1, 2])]
        if c == "charat":
            return ["EGetItem", self.maybe_fault([N, NONE, B], scope, d) or self.e(S, scope, d), self.nat_nonlit(scope, d)]
        if c == "slice2":
            return self.slice2(S, scope, d)
        if c == "mul":
            a = self.e(S, scope, d)
            if a[0] == "EStr":                   # a literal left operand of * is the one-character repetition form
                a = ["EAdd", a, ["EStr", ""]]
            return ["EMul", a, self.maybe_fault([S, NONE, L(S)], scope, d) or ["ENat", rng.choice([0, 1, 2, 3])]]
        if c == "fmt":
            parts, last_lit = [], False
            for _ in range(rng.choice([0, 1, 2, 3, 4])):
                if not last_lit and rng.random() < 0.45:
                    s = rng.choice([x for x in STRS if x])
                    parts.append(["EStr", s])
                    last_lit = True
                else:
                    p = self.e(S, scope, d)
                    if p[0] == "EStr":      # a literal part prints as text: keep literal parts non-empty and non-adjacent
                        if last_lit or not p[1]:
                            continue
                        last_lit = True
                    else:
                        last_lit = False
                    parts.append(p)
            return ["EFmt", parts]
        if c == "replace":
            return ["EReplace", self.str_arg(scope, d), rng.choice(CHARS), rng.choice(CHARS)]
        if c == "join":
            arg = self.maybe_fault([N, NONE, L(N), L(L(S))], scope, d) or self.e(L(S), scope, d)
            return ["EJoin", rng.choice([".", "", "-", ", ", "__"]), arg]
        if c == "slice":
            return ["ESliceFrom", self.maybe_fault([N, NONE, B], scope, d) or self.e(S, scope, d), rng.choice([0, 1, 1, 2, 3, 7])]
        if c == "cond":
            return ["ECond", self.cond(scope, d), self.e(S, scope, d), self.e(S, scope, d)]
        if c == "lstrip":
            return ["ELstrip", self.str_arg(scope, d), rng.choice(CHARS)]
        if c == "repeat":
            return ["ERepeat", rng.choice(CHARS), self.maybe_fault([S, NONE, L(S)], scope, d) or self.e(N, scope, d)]
        if c == "add":
            return ["EAdd", self.maybe_fault([N, NONE, L(S)], scope, d) or self.e(S, scope, d), self.e(S, scope, d)]
        if c == "index":
            return self.index_of(S, scope, d)
        if c == "andor":
            return [rng.choice(["EAnd", "EOr"]), self.e(S, scope, d), self.e(S, scope, d)]
        return self.e(S, scope, 0)

    def nat_nonlit(self, scope, d):
        n = self.maybe_fault([S, NONE, L(N)], scope, d) or self.e(N, scope, min(d, 1))
        if n[0] in ("ENat", "EBool"):             # a literal subscript is the EIndex / ESliceFrom form
            n = ["EAdd", n, ["ENat", 0]] if n[0] == "ENat" else ["ELen", ["EStr", "ab"]]
        return n

    def slice2(self, t, scope, d):
        rng = self.rng
        seq = self.maybe_fault([N, NONE, B], scope, d) or self.e(t, scope, d)
        lo = None if rng.random() < 0.4 else self.nat_nonlit(scope, d)
        hi = None if (lo is not None and rng.random() < 0.4) else self.nat_nonlit(scope, d)
        return ["ESlice", seq, lo, hi]

    def index_of(self, t, scope, d):
        rng = self.rng
        seq = self.maybe_fault([N, NONE, B], scope, d) or self.e(rng.choice([L(t), L(t), T(t)]), scope, d)
        return ["EIndex", seq, rng.choice([0, 0, 0, 0, 0, 0, 1, 1, 2, 5] if self.fault else [0, 0, 0, 0, 0, 1])]

    def e_nat(self, t, scope, d):
        rng = self.rng
        c = rng.choice(["len", "len", "add", "sub", "mul", "nest", "cond", "index", "var", "indexof"])
        if c == "indexof":
            return ["EIndexOf", self.maybe_fault([N, NONE], scope, d) or self.e(S, scope, d),
                    self.maybe_fault([N, NONE, L(S)], scope, d) or self.e(S, scope, d)]
        if c == "len":
            arg = self.maybe_fault([N, NONE, B], scope, d) or self.e(rng.choice([S, L(S), L("any"), T(S)]), scope, d)
            return ["ELen", arg]
        if c == "add":
            return ["EAdd", self.maybe_fault([S, NONE, L(N)], scope, d) or self.e(N, scope, d), self.e(N, scope, d)]
        if c == "sub":
            a, b = self.e(N, scope, d), self.e(N, scope, d)
            if rng.random() < 0.6:
                a = ["EAdd", a, copy.deepcopy(b)]      # never negative
            return ["ESub", self.maybe_fault([S, NONE], scope, d) or a, b]
        if c == "mul":
            a = self.e(N, scope, d)
            if a[0] in ("ENat", "EStr", "EBool", "ENone"):   # a literal left operand of * is the string-repetition form
                a = ["EAdd", a, ["ENat", 0]]
            b = self.maybe_fault([NONE], scope, d) or ["ENat", rng.choice([0, 1, 2, 3])]
            return ["EMul", a, b]
        if c == "nest":
            return ["ENestLevel", self.e("any", scope, d)]
        if c == "cond":
            return ["ECond", self.cond(scope, d), self.e(N, scope, d), self.e(N, scope, d)]
        if c == "index":
            return self.index_of(N, scope, d)
        return self.e(N, scope, 0)

    def e_bool(self, t, scope, d):
        rng = self.rng
        c = rng.choice(["starts", "ends", "eq", "eq", "eqx", "in_str", "in_list", "in_x", "not", "gt", "isnone", "isinst", "andor", "cond", "all",
                        "isident"])
        if c == "isident":
            return ["EIsIdent", self.str_arg(scope, d)]
        if c == "all":
            w = rand_type(rng, 1)
            it = self.maybe_fault([N, NONE, B], scope, d) or self.e(L(w), scope, d)
            x = self.comp_var(scope)
            inner = dict(scope)
            inner[x] = w
            return ["EAll", self.cond(inner, d), x, it]
        if c == "starts":
            return ["EStartswith", self.str_arg(scope, d), rng.choice(["-", "--", "", "a", "--no", "_"])]
        if c == "ends":
            return ["EEndswith", self.str_arg(scope, d), rng.choice([".", "", "a", "b.c", "-"])]
        if c == "eq":
            u = rand_type(rng, 1)
            return ["EEq", self.e(u, scope, d), self.e(u, scope, d)]
        if c == "eqx":      # across types: bool vs int (True == 1), str vs None, list vs tuple ...
            u, w = rng.choice([(B, N), (N, B), (L(B), L(N)), (S, NONE), (L(S), T(S)), (N, S), (B, B)])
            return ["EEq", self.e(u, scope, d), self.e(w, scope, d)]
        if c == "in_str":
            needle = ["EStr", rng.choice(CHARS + ["", "ab", "--", "a.", "_b"])] if rng.random() < 0.6 else self.e(S, scope, d)
            needle = self.maybe_fault([N, NONE, L(S)], scope, d) or needle
            return ["EIn", needle, self.e(S, scope, d)]
        if c == "in_list":
            u = rng.choice([S, S, N, B, L(S)])
            hay = self.maybe_fault([N, NONE, B], scope, d) or self.e(rng.choice([L(u), L(u), T(u)]), scope, d)
            return ["EIn", self.e(u, scope, d), hay]
        if c == "in_x":     # 1 in [True], True in [0, 1]
            u, w = rng.choice([(N, B), (B, N), (S, N), (NONE, S)])
            return ["EIn", self.e(u, scope, d), self.e(L(w), scope, d)]
        if c == "not":
            return ["ENot", self.e("any", scope, d)]
        if c == "gt":
            return ["EGt", self.maybe_fault([S, NONE, L(N)], scope, d) or self.e(N, scope, d), self.e(N, scope, d)]
        if c == "isnone":
            return ["EIsNone", self.e(rng.choice([NONE, S, "any"]), scope, d)]
        if c == "isinst":
            cls = rng.choice([["list"], ["tuple"], ["str"], ["list", "tuple"], ["tuple", "list"], ["str", "list"]])
            return ["EIsInst", self.e("any", scope, d), cls]
        if c == "andor":
            return [rng.choice(["EAnd", "EOr"]), self.e(B, scope, d), self.e(B, scope, d)]
        return ["ECond", self.cond(scope, d), self.e(B, scope, d), self.e(B, scope, d)]

    def e_none(self, t, scope, d):
        vs = self.vars_of(scope, NONE)
        return ["EVar", self.rng.choice(vs)] if vs and self.rng.random() < 0.5 else ["ENone"]

    def comp_var(self, scope, avoid=()):
        rng = self.rng
        names = [x for x in scope if "." not in x and x not in avoid]
        if names and rng.random() < 0.45:
            return rng.choice(names)          # shadows an outer variable (which keeps its value after the comprehension)
        return rng.choice([x for x in NAMES if x not in avoid])

    def e_list(self, t, scope, d):
        rng, u = self.rng, t[1]
        alts = ["lit", "slice", "comp", "comp", "add", "tolist", "mul", "cond", "index", "var"]
        if u == S:
            alts += ["split", "split", "dedupe", "dedupe2", "sortlen", "comp", "splitn", "splitn"]
        if u == N:
            alts += ["range", "range"]
        alts += ["slice2"]
        c = rng.choice(alts)
        if c == "splitn":
            return ["ESplitN", self.str_arg(scope, d), self.maybe_fault([N, L(S)], scope, d) or self.e(S, scope, d), rng.choice([0, 1, 1, 2, 2, 5])]
        if c == "range":
            return ["EToList", ["ERange", self.maybe_fault([S, NONE], scope, d) or self.e(N, scope, min(d, 1)),
                                self.maybe_fault([S, NONE, L(N)], scope, d) or self.e(N, scope, min(d, 1))]]
        if c == "slice2":
            return self.slice2(t, scope, d)
        if c == "lit":
            return ["EList", [self.e(u, scope, d) for _ in range(rng.choice([0, 1, 2, 3]))]]
        if c == "split":
            return ["ESplit", self.str_arg(scope, d), rng.choice([".", "-", "_", " ", "a"])]
        if c == "slice":
            return ["ESliceFrom", self.maybe_fault([N, NONE], scope, d) or self.e(t, scope, d), rng.choice([0, 1, 1, 2, 4])]
        if c == "comp":
            w = rand_type(rng, 1)
            it = self.maybe_fault([N, NONE, B], scope, d) or self.e(L(w), scope, d)
            x = self.comp_var(scope)
            inner = dict(scope)
            inner[x] = w
            cond = self.cond(inner, d) if rng.random() < 0.45 else None
            return ["EComp", self.e(u, inner, d), x, it, cond]
        if c == "add":
            return ["EAdd", self.maybe_fault([S, NONE, N], scope, d) or self.e(t, scope, d), self.e(t, scope, d)]
        if c == "tolist":
            return ["EToList", self.maybe_fault([N, NONE, B], scope, d) or self.e(rng.choice([t, T(u)]), scope, d)]
        if c == "mul":
            a = self.e(t, scope, d)
            n = self.maybe_fault([S, NONE, L(N)], scope, d) or self.e(N, scope, min(d, 1))
            if rng.random() < 0.25 and n[0] not in ("ENat", "EStr", "EBool", "ENone"):
                return ["EMul", n, a]            # number * sequence
            return ["EMul", a, n]
        if c == "cond":
            return ["ECond", self.cond(scope, d), self.e(t, scope, d), self.e(t, scope, d)]
        if c == "index":
            return self.index_of(t, scope, d)
        if c == "dedupe":
            return ["EDedupe", self.maybe_fault([N, NONE, L(L(S))], scope, d) or self.e(L(S), scope, d)]
        if c == "dedupe2":
            w1, w2 = rand_type(rng, 0), rand_type(rng, 0)
            x = self.comp_var(scope)
            y = self.comp_var(scope, avoid=(x,))
            inner = dict(scope)
            inner[x], inner[y] = w1, w2
            return ["EDedupe", ["EComp2", self.e(S, inner, d), x, y, self.e(L(w1), scope, d),
                                self.maybe_fault([N, NONE], scope, d) or self.e(L(w2), scope, d)]]
        if c == "sortlen":
            return ["ESortLen", self.maybe_fault([N, NONE, L(N)], scope, d) or self.e(L(S), scope, d)]
        return self.e(t, scope, 0)

    def e_tuple(self, t, scope, d):
        rng = self.rng
        vs = self.vars_of(scope, t)
        if not vs:
            return None
        c = rng.choice(["var", "var", "mul", "cond", "add", "slice"])
        if c == "add":
            return ["EAdd", ["EVar", rng.choice(vs)], self.e(t, scope, d)]
        if c == "slice":
            return ["ESliceFrom", ["EVar", rng.choice(vs)], rng.choice([0, 1, 2])]
        if c == "mul":
            return ["EMul", ["EVar", rng.choice(vs)], ["ENat", rng.choice([0, 1, 2])]]
        if c == "cond":
            return ["ECond", self.cond(scope, d), ["EVar", rng.choice(vs)], ["EVar", rng.choice(vs)]]
        return ["EVar", rng.choice(vs)]

    # ---- statements
    def name_for(self, scope, t, allow_attr=True):
        rng = self.rng
        same = [x for x in self.vars_of(scope, t) if allow_attr or "." not in x]
        if same and rng.random() < 0.4:
            return rng.choice(same)
        free = [x for x in NAMES if x not in scope]
        if not free:
            self.fresh += 1
            return f"v{self.fresh}"
        return rng.choice(free)

    def block(self, scope, depth, n, in_loop=False):
        """Returns (statements, scope after) - the scope keeps only what is certainly bound with a known type."""
        out = []
        for _ in range(n):
            st, scope = self.stmt(scope, depth, in_loop)
            out += st
        return out, scope

    def stmt(self, scope, depth, in_loop):
        rng = self.rng
        kinds = ["assign"] * 5 + ["append"] * 3 + ["extend", "if", "if", "for", "for", "unpack", "assert", "alias"]
        if depth <= 0:
            kinds = [k for k in kinds if k not in ("if", "for")]
        if not self.mutating:
            kinds = [k for k in kinds if k not in ("append", "extend", "alias")]
        k = rng.choice(kinds)
        lists = [x for x, u in scope.items() if u[0] == "list" and x not in self.noappend]
        if k == "assign":
            t = rand_type(rng, 2)
            while t[0] == "tuple" and not self.vars_of(scope, t):
                t = rand_type(rng, 2)
            x = self.name_for(scope, t)
            if x == "self.pre":
                x = "self.acc" if scope.get("self.acc") == t else self.name_for(scope, t, False)
            ex = self.e(t, scope, rng.choice([1, 2, 2, 3]))
            if self.mutating and t[0] == "list" and ex[0] in ("EVar", "ECond", "EIndex", "EAnd", "EOr") and rng.random() < 0.85:
                ex = ["EAdd", ex, ["EList", []]]       # a fresh copy: the name may be appended to later
            scope = dict(scope)
            scope[x] = t
            return [["SAssign", x, ex]], scope
        if k == "append":
            if self.fault == "armed" and rng.random() < 0.25:
                self.fault = "done"
                bad = [x for x, u in scope.items() if u[0] in ("str", "nat", "none", "tuple", "bool") and "." not in x] + ["zz_unbound"]
                return [[rng.choice(["SAppend", "SExtend"]), rng.choice(bad), self.lit(L(S))]], scope   # argument: a literal
            if not lists:
                return self.stmt(scope, depth, in_loop) if rng.random() < 0.5 else ([], scope)
            x = rng.choice(lists)
            return [["SAppend", x, self.e(scope[x][1], scope, 2)]], scope
        if k == "extend":
            if not lists:
                return [], scope
            x = rng.choice(lists)
            arg = self.maybe_fault([N, NONE], scope, 1) or self.e(scope[x], scope, 2)
            return [["SExtend", x, arg]], scope
        if k == "if":
            th, s1 = self.block(dict(scope), depth - 1, rng.choice([1, 1, 2, 3]), in_loop)
            el, s2 = self.block(dict(scope), depth - 1, rng.choice([0, 0, 1, 2]), in_loop)
            if rng.random() < 0.2:
                th = th + [["SReturn", self.e("any", s1, 2)]]
            elif rng.random() < 0.08:
                th = th + [["SRaise", rng.choice(EXC)]]
            merged = {x: u for x, u in s1.items() if s2.get(x) == u}
            return [["SIf", self.cond(scope, 2), th, el]], merged
        if k == "for":
            w = rand_type(rng, 1)
            it = self.maybe_fault([N, NONE, B], scope, 2) or self.e(L(w), scope, 2)
            cands = [x for x in self.vars_of(scope, w) if "." not in x]
            x = rng.choice(cands) if cands and rng.random() < 0.4 else rng.choice([y for y in NAMES if y not in scope] or ["lv"])
            inner = dict(scope)
            inner[x] = w
            self.noappend.add(x)
            body, s1 = self.block(inner, depth - 1, rng.choice([1, 1, 2, 3]), True)
            if rng.random() < 0.15:
                body = body + [["SIf", self.cond(s1, 1), [["SReturn", self.e("any", s1, 1)]], []]]
            # after the loop: what was bound before, with the same type (the loop may not have run)
            after = {y: u for y, u in scope.items() if s1.get(y) == u}
            if rng.random() < 0.3:      # for .. else with a break
                body = body + [["SIf", self.cond(s1, 1), [["SBreak"]], []]]
                els, s2 = self.block(dict(after), 0, rng.choice([0, 1, 1]), in_loop)
                after = {y: u for y, u in after.items() if s2.get(y) == u}
                return [["SForBE", x, it, body, els]], after
            return [["SFor", x, it, body]], after
        if k == "unpack":
            u = rand_type(rng, 0)
            if rng.random() < 0.5:
                src = ["EList", [self.e(u, scope, 1) for _ in range(rng.choice([2, 2, 3, 4, 1] if self.fault == "armed" else [2, 3, 4]))]]
            elif u == S:
                src = ["ESplit", self.e(S, scope, 1), "."]     # may be too short: ValueError
            else:
                src = self.maybe_fault([N, NONE], scope, 1) or self.e(L(u), scope, 1)
            free = [y for y in NAMES if y not in scope]
            if len(free) < 3:
                return [], scope
            a, m_, b = rng.sample(free, 3)
            self.noappend.update((a, m_, b))
            scope = dict(scope)
            scope[a], scope[m_], scope[b] = u, L(u), u
            return [["SUnpack3", a, m_, b, src]], scope
        if k == "assert":
            c = self.cond(scope, 2)
            if not (self.fault == "armed" and rng.random() < 0.5):
                c = ["EOr", c, ["EBool", True]] if rng.random() < 0.6 else ["ENot", ["EAnd", c, ["EBool", False]]]
            return [["SAssert", c]], scope
        if k == "alias":
            return self.alias_template(scope)
        return [], scope

    def alias_template(self, scope):
        """Patterns in which a list is mutated while it is reachable through another name: Python lists are shared references,
        MiniPy values are copies; translate/minipy.py must refuse these programs."""
        rng = self.rng
        lists = [x for x, u in scope.items() if u[0] == "list" and "." not in x]
        if not lists:
            return [], scope
        a = rng.choice(lists)
        t = scope[a]
        free = [y for y in NAMES if y not in scope]
        if len(free) < 2:
            return [], scope
        b, x = free[0], free[1]
        scope = dict(scope)
        k = rng.choice(["copy_then_mutate", "copy_mutate_copy", "boxed", "elem", "self_iter", "cond_alias", "appended"])
        el = self.e(t[1], scope, 1)
        if k == "copy_then_mutate":
            scope[b] = t
            return [["SAssign", b, ["EVar", a]], ["SAppend", a, el]], scope
        if k == "copy_mutate_copy":
            scope[b] = t
            return [["SAssign", b, ["EVar", a]], ["SAppend", b, el]], scope
        if k == "boxed":
            scope[b] = L(t)
            return [["SAssign", b, ["EList", [["EVar", a]]]], ["SExtend", a, ["EList", [el]]]], scope
        if k == "elem" and t[1][0] == "list":
            return [["SFor", x, ["EVar", a], [["SAppend", x, self.e(t[1][1], scope, 1)]]]], scope
        if k == "self_iter":
            return [["SFor", x, ["EVar", a], [["SAppend", a, ["EVar", x]]]]], scope
        if k == "cond_alias":
            scope[b] = t
            return [["SAssign", b, ["ECond", self.cond(scope, 1), ["EVar", a], ["EList", []]]], ["SAppend", b, el]], scope
        if k == "appended":
            ll = [y for y, u in scope.items() if u == L(t)]
            if ll:
                return [["SAppend", ll[0], ["EVar", a]], ["SAppend", a, el]], scope
        scope[b] = t
        return [["SAssign", b, ["EVar", a]], ["SAppend", a, el]], scope


def gen_program(rng, ill):
    g = G(rng, "armed" if ill else None)
    env, scope = [], {}
    names = rng.sample(NAMES, rng.choice([2, 3, 4, 5]))
    for x in names:
        t = rand_type(rng, 2)
        env.append([x, rand_value(rng, t)])
        scope[x] = t
    if rng.random() < 0.5:
        env.append(["self.pre", rng.choice(STRS)])
        scope["self.pre"] = S
        t = L(rng.choice([S, S, N]))
        env.append(["self.acc", rand_value(rng, t)])
        scope["self.acc"] = t
    body, scope = g.block(scope, rng.choice([1, 2, 2, 3]), rng.choice([1, 2, 3, 4, 5, 6]))
    r = rng.random()
    if r < 0.55:
        keep = [x for x in scope if rng.random() < 0.7][:6]
        ret = ["EList", [["EVar", x] for x in keep] + ([g.e("any", scope, 2)] if rng.random() < 0.5 else [])]
    elif r < 0.95:
        ret = g.e("any", scope, 3)
    else:
        ret = None                      # falls off the end: None
    if ret is not None:
        body.append(["SReturn", ret])
    if g.fault == "armed":              # no slot took the fault: a closing failing statement
        k = rng.choice(["unbound", "assert", "raise", "index", "unpack", "neg"])
        tail = {"unbound": ["SReturn", ["EVar", "never_bound"]],
                "assert": ["SAssert", ["EEq", ["ENat", 1], ["ENat", 2]]],
                "raise": ["SRaise", rng.choice(EXC)],
                "index": ["SReturn", ["EIndex", ["EList", [["EStr", "a"]]], 3]],
                "unpack": ["SUnpack3", "u1", "u2", "u3", ["EList", [["ENat", 1]]]],
                "neg": ["SReturn", ["ESub", ["ENat", 1], ["ENat", 2]]]}[k]
        body.insert(rng.randrange(len(body) + 1), tail)
    return {"env": env, "prog": body, "ill": ill}


class _TooBig(Exception):
    pass


def _size(v, budget):
    if isinstance(v, bool) or v is None:
        return 1
    if isinstance(v, int):
        if v > 80:
            raise _TooBig()
        return 1
    if isinstance(v, str):
        if len(v) > 80:
            raise _TooBig()
        return 1
    if isinstance(v, dict):
        v = list(v.keys()) + list(v.values())
    if isinstance(v, (list, tuple)):
        if len(v) > 60:
            raise _TooBig()
        n = 1
        for x in v:
            n += _size(x, budget)
            if n > budget:
                raise _TooBig()
        return n
    return 1


def _nesting(v):
    if not isinstance(v, (list, tuple)):
        return 0
    return 1 + max([_nesting(x) for x in v] + [0])


def small_enough(case):
    """Generation-time filter (deterministic: no clock): a program is kept when the translator refuses it (it is never executed)
    or when a traced dry run stays within 3000 line events with every local small after every line - loops that double a
    value are exponential, and the Coq side computes with unary naturals."""
    import sys
    import types

    from translate import minipy
    from translate.pyast import Unrecognised
    try:
        src, params = to_source(case)
        _translate(src)
    except Unrecognised as e:
        return "aliasing" in str(e)
    except Exception:  # noqa: BLE001
        return True          # printer / translator trouble is the runner's to report
    steps = [0]

    def tracer(frame, event, arg):
        if frame.f_code.co_filename != "<minipy-gen>":
            return None
        if event in ("line", "return"):
            steps[0] += 1
            if steps[0] > 3000:
                raise _TooBig()
            for v in frame.f_locals.values():
                if isinstance(v, (types.SimpleNamespace, _argparse.Namespace, _RecBase)):
                    for w in vars(v).values():
                        if not callable(w) and not isinstance(w, (_argparse.Namespace, _RecBase)):
                            _size(w, 400)
                else:
                    _size(v, 400)
            if event == "return":
                _size(arg, 400)
        return tracer

    glob = _globals(types.SimpleNamespace(get_nesting_level=_nesting, split_dest=lambda d: (d.rpartition(".")[0], d.rpartition(".")[2]),
                                          InconsistentArgumentError=type("InconsistentArgumentError", (Exception,), {})), lambda a, b: a - b)
    import warnings
    with warnings.catch_warnings():
        warnings.simplefilter("ignore")
        exec(compile(ast.parse(src), "<minipy-gen>", "exec", dont_inherit=True), glob)
    self_obj, args = types.SimpleNamespace(), {}
    for x, v in case["env"]:
        if x.startswith("self."):
            setattr(self_obj, x.split(".", 1)[1], _pyval(v))
            args["self"] = self_obj
        else:
            args[x] = _pyval(v)
    old = sys.gettrace()
    sys.settrace(tracer)
    try:
        glob["f"](**args)
    except _TooBig:
        return False
    except RecursionError:
        return False
    except BaseException:  # noqa: BLE001
        pass
    finally:
        sys.settrace(old)
    return True


# ---- fourth group: dicts, objects, sentinels, tables, continue, unpacking, procedures ("plumbing" programs) -------------------
KEYS = ["a", "b", "a.x", "b.x", "k", "", "zz"]
CONSTS = ["argparse.SUPPRESS", "dataclasses.MISSING"]


def _pv(rng):
    return rng.choice([0, 1, 2, "s", "a.x", True, None, {"list": [1, 2]}, {"list": []}, {"const": "argparse.SUPPRESS"}])


def gen_plumbing(rng, ill):
    """Programs over a dict d (str -> values), a dict of dicts dd, an object rec (with a nested object, a list, a dict and two
    function tables), a list of keys and a sentinel; keys are drawn from present and absent ones, so KeyError / AttributeError /
    the default of pop / get are all reached."""
    dkeys = rng.sample(KEYS, rng.choice([1, 2, 3]))
    d = {"dict": [[k, _pv(rng)] for k in dkeys]}
    dd = {"dict": [[k, {"dict": [[k2, _pv(rng)] for k2 in rng.sample(KEYS, rng.choice([0, 1, 2]))]}] for k in rng.sample(KEYS, rng.choice([1, 2]))]}
    tbl = {"dict": [[0, "zero"], [1, {"tuple": [{"const": "raise"}, "ValueError"]}], ["s", {"list": ["s", "s"]}], [None, 0]]}
    rec = {"rec": "Wrapper", "fields": [["name", rng.choice(STRS)], ["items", {"list": [rng.choice([0, 1, 2]) for _ in range(rng.choice([0, 1, 2, 3]))]}],
                                          ["flag", rng.random() < 0.5], ["inner", {"rec": "Field", "fields": [["init", rng.random() < 0.6]]}],
                                          ["opts", {"dict": [[k, _pv(rng)] for k in rng.sample(KEYS, rng.choice([0, 1, 2]))]}],
                                          ["table", tbl], ["default", _pv(rng)]]}
    ns = {"rec": "Namespace", "fields": [[k.replace(".", "_") or "e", _pv(rng)] for k in rng.sample(KEYS, rng.choice([1, 2, 3]))]}
    recs = {"list": [{"rec": "Wrapper", "fields": [["level", rng.choice([0, 1, 1, 2, 3])], ["name", rng.choice(KEYS)]]} for _ in range(rng.choice([0, 1, 2, 3, 4]))]}
    nobj = rng.choice([1, 2, 3, 4])
    store = {"dict": [[i, {"rec": "Wrapper", "fields": [["level", rng.choice([0, 1, 1, 2])], ["name", rng.choice(["", "a", "a.b"])]]}] for i in range(nobj)]}
    refs = {"list": [rng.randrange(nobj) for _ in range(rng.choice([0, 1, 2, 3, 4]))] if rng.random() < 0.4 else rng.sample(range(nobj), rng.choice(range(nobj + 1)))}
    env = [["d", d], ["dd", dd], ["rec", rec], ["ns", ns], ["recs", recs], ["FIELDS", store], ["refs", refs],
           ["ks", {"list": rng.sample(KEYS, rng.choice([1, 2, 3, 4]))}],
           ["c", {"const": rng.choice(CONSTS)}], ["n", rng.choice([0, 1, 2])]]
    nskeys = [k for k, _ in ns["fields"]]
    fresh = [0]

    def key(pool=None):
        pool = pool or KEYS
        r = rng.random()
        if r < 0.55:
            return ["EStr", rng.choice(pool)]
        if r < 0.8:
            return ["EVar", "k"] if "k" in bound else ["EStr", rng.choice(pool)]
        if r < 0.9:
            return ["EAttr", ["EVar", "rec"], "name"]
        return ["EIndex", ["EVar", "ks"], 0]

    def val():
        r = rng.random()
        alts = [lambda: ["ENat", rng.choice([0, 1, 2])], lambda: ["EStr", rng.choice(STRS)], lambda: ["ENone"],
                lambda: ["EConst", rng.choice(CONSTS)], lambda: ["EVar", "c"],
                lambda: ["EAttr", ["EVar", "rec"], rng.choice(["name", "flag", "default", "missing" if ill else "name"])],
                lambda: ["EAttr", ["EAttr", ["EVar", "rec"], "inner"], "init"],
                lambda: ["EGetItem", ["EVar", "d"], key(dkeys if not ill else None)],
                lambda: ["EGetItem", ["EGetItem", ["EVar", "dd"], key()], key()] if ill else ["EDictGet", ["EVar", "dd"], key(), ["EDict", []]],
                lambda: ["EDictGet", ["EVar", "d"], key(), val0()],
                lambda: ["EGetAttr", ["EVar", "ns"], ["EStr", rng.choice(nskeys + (["nope"] if ill else []))]],
                lambda: ["ECallTable", ["EAttr", ["EVar", "rec"], "table"], rng.choice([["ENat", 0], ["EStr", "s"], ["ENone"], ["ENat", 1] if ill else ["ENat", 0], ["EVar", "n"]])],
                lambda: ["ETuple", [val0() for _ in range(rng.choice([0, 1, 2, 3]))]],
                lambda: ["EDict", [[["EStr", k], val0()] for k in rng.sample(KEYS, rng.choice([0, 1, 2]))]],
                lambda: ["ESplitDest", rng.choice([["EStr", rng.choice(["a.b.c", "abc", "", ".", "a."])], ["EAttr", ["EVar", "rec"], "name"]])],
                lambda: ["ELen", ["EKeys", ["EVar", "d"]]], lambda: ["ELen", ["EVar", rng.choice(["d", "dd"])]],
                lambda: ["ELen", ["EVars", ["EVar", "ns"]]], lambda: ["ECopy", ["EVar", rng.choice(["d", "ks"])]],
                lambda: ["ESortAttr", ["EVar", "recs"], "level" if not ill or rng.random() < 0.5 else "nope", rng.random() < 0.6],
                lambda: ["ESortKey", ["EVar", "refs"], "w", rng.choice([["EAttr", ["EGetItem", ["EVar", "FIELDS"], ["EVar", "w"]], "level"], ["EVar", "w"],
                                                                     ["ELen", ["EAttr", ["EGetItem", ["EVar", "FIELDS"], ["EVar", "w"]], "name"]]]), rng.random() < 0.4],
                lambda: ["EAny", ["EGt", ["EAttr", ["EGetItem", ["EVar", "FIELDS"], ["EVar", "z"]], "level"], ["ENat", 1]], "z", ["EVar", "refs"]],
                lambda: ["ERec", "Pair", [["first", val0()], ["second", rng.choice([["EVar", "refs"], val0()])]]],
                lambda: ["ECountDistinct", ["EVar", rng.choice(["refs", "ks"])]],
                lambda: ["EAttr", ["EGetItem", ["EVar", "FIELDS"], rng.choice([["EVar", "n"], ["EIndex", ["EVar", "refs"], 0], ["EAdd", ["EVar", "n"], ["ENat", 7]] if ill else ["EVar", "n"]])], "name"],
                lambda: ["EAll", ["EIn", ["EVar", "z"], ["ETuple", [["ENone"], ["EConst", CONSTS[0]], ["ENat", 0]]]], "z", ["EValues", ["EVar", "d"]]],
                lambda: cond()]
        return rng.choice(alts)()

    def val0():
        return rng.choice([["ENat", rng.choice([0, 1, 2])], ["EStr", rng.choice(["", "a", "a.x"])], ["ENone"], ["EBool", True], ["EConst", CONSTS[0]]])

    def cond():
        alts = [lambda: ["EIn", key(), ["EVar", "d"]], lambda: ["ENot", ["EIn", key(), ["EVar", "dd"]]],
                lambda: ["EIn", ["EStr", rng.choice(nskeys + ["nope"])], ["EVar", "ns"]],
                lambda: ["EHasAttr", ["EVar", rng.choice(["ns", "rec"])], ["EStr", rng.choice(nskeys + ["name", "nope"])]],
                lambda: ["EIsConst", rng.choice([["EVar", "c"], ["EGetItem", ["EVar", "d"], key(dkeys)], ["ENone"]]), rng.choice(CONSTS)],
                lambda: ["ENot", ["EIsConst", ["EVar", "c"], rng.choice(CONSTS)]],
                lambda: ["EIn", ["EConst", CONSTS[0]], ["EValues", ["EVar", "d"]]],
                lambda: ["EEq", ["EVar", "d"], ["EDict", [[["EStr", k], val0()] for k in dkeys[:1]]]],
                lambda: ["EAttr", ["EVar", "rec"], "flag"], lambda: ["ENot", ["EAttr", ["EAttr", ["EVar", "rec"], "inner"], "init"]],
                lambda: ["EIsInst", ["EVar", rng.choice(["d", "rec", "ns", "ks"])], rng.choice([["dict"], ["Wrapper"], ["list", "dict"], ["Namespace"]])],
                lambda: ["EAnd", cond(), cond()] if rng.random() < 0.5 else ["EVar", "d"]]
        return rng.choice(alts)()

    bound = set()

    def stmts(n, depth, in_loop):
        out = []
        for _ in range(n):
            k = rng.choice(["set", "set", "set2", "setattr", "pop", "pop", "popattr", "del", "delattr", "assign", "if", "forc", "for2", "unpack", "call", "append",
                            "callret", "forbe", "while", "group", "remove", "storeset"]
                           + (["continue"] if in_loop else []))
            if k == "set":
                out.append(["SSetPath", rng.choice(["d", "d", "dd"]), [[False, key()]], val()])
            elif k == "set2":
                # keys of a nested assignment: expressions that cannot raise (the interpreter evaluates all keys before it descends,
                # CPython descends first: with a raising inner key the exception class could differ - see ASSUMPTIONS)
                safe = lambda pool=None: rng.choice([["EStr", rng.choice(pool or KEYS)], ["EAttr", ["EVar", "rec"], "name"]])
                tgt = rng.choice([("dd", [[False, key([x for x, _ in dd["dict"]] if not ill else None)], [False, safe()]]),
                                  ("rec", [[True, ["EStr", "opts"]], [False, key()]]),
                                  ("rec", [[True, ["EStr", "inner"]], [True, ["EStr", "init"]]])])
                out.append(["SSetPath", tgt[0], tgt[1], val()])
            elif k == "setattr":
                x = rng.choice(["rec", "ns"])     # rec.name stays a string: it is used as a dict key
                out.append(["SSetPath", x, [[True, ["EStr", rng.choice(["extra", "flag"] + (nskeys if x == "ns" else []))]]], val()])
            elif k == "pop":
                fresh[0] += 1
                t = rng.choice(["v", "w", "_", f"p{fresh[0]}"])
                out.append(["SPop", t, rng.choice(["d", "dd"]), key(), val0() if rng.random() < (0.75 if not ill else 0.4) else None])
                bound.add(t)
            elif k == "popattr":
                t = rng.choice(["v", "w"])
                out.append(["SPopAttr", t, "ns", ["EStr", rng.choice(nskeys + ["nope"])] if rng.random() < 0.7 else key(), val0() if rng.random() < (0.8 if not ill else 0.4) else None])
                bound.add(t)
            elif k == "del":
                out.append(["SIf", ["EIn", key(dkeys), ["EVar", "d"]], [["SDelItem", "d", key(dkeys)]], []] if not ill and rng.random() < 0.7 else ["SDelItem", "d", key()])
            elif k == "delattr":
                nm = rng.choice(nskeys + ["nope"])
                out.append(["SIf", ["EHasAttr", ["EVar", "ns"], ["EStr", nm]], [["SDelAttr", "ns", ["EStr", nm]]], []] if not ill else ["SDelAttr", "ns", ["EStr", nm]])
            elif k == "assign":
                x = rng.choice(["v", "w", "k"])
                if x == "k":
                    out.append(["SAssign", "k", ["EStr", rng.choice(KEYS)]])
                else:
                    out.append(["SAssign", x, val()])
                bound.add(x)
            elif k == "if" and depth > 0:
                th = stmts(rng.choice([1, 2]), depth - 1, in_loop)
                el = stmts(rng.choice([0, 1]), depth - 1, in_loop)
                out.append(["SIf", cond(), th, el])
            elif k == "forc" and depth > 0:
                body = [["SIf", cond(), [["SContinue"]], []]] + stmts(rng.choice([1, 2]), depth - 1, True)
                it = rng.choice([["EVar", "ks"], ["EKeys", ["EVar", "d"]], ["EAttr", ["EVar", "rec"], "items"]])
                bound.add("k")
                out.append(["SForC", "k", it, body])
            elif k == "for2" and depth > 0:
                it = rng.choice([["EZip", ["EVar", "ks"], ["EAttr", ["EVar", "rec"], "items"]], ["EItems", ["EVar", "d"]],
                                 ["EZip", ["EKeys", ["EVar", "d"]], ["EVar", "ks"]]])
                body = ([["SIf", cond(), [["SContinue"]], []]] if rng.random() < 0.5 else []) + \
                    [rng.choice([["SSetPath", "dd", [[False, ["EStr", "acc"]]], ["EDict", []]], ["SAssign", "w", ["EVar", "y2"]]]),
                     ["SSetPath", "rec", [[True, ["EStr", "opts"]], [False, ["EVar", "k"]]], ["EVar", "y2"]]]
                bound.update(("k", "y2", "w"))
                out.append(["SFor2", "k", "y2", it, body])
            elif k == "unpack":
                src = rng.choice([["ESplitDest", ["EStr", rng.choice(["a.b", "ab", "a.b.c"])]], ["ETuple", [val0(), val0()]],
                                  ["EList", [val0()] * (2 if not ill else rng.choice([1, 2, 3]))]])
                bound.update(("v", "w"))
                out.append(["SUnpack", ["v", "w"], src])
            elif k == "call":
                body = [["SIf", ["EVar", "flag"], [["SReturn", ["ENone"]]], []],
                        ["SSetPath", "target", [[False, ["EVar", "key"]]], ["EVar", "value"]],
                        ["SAssign", "value", ["ENone"]]]
                if rng.random() < 0.5:
                    body.insert(1, ["SSetPath", "ns", [[True, ["EStr", "seen"]]], ["EVar", "key"]])
                    outs = [["target", rng.choice(["d", "dd"])], ["ns", "ns"]]
                else:
                    outs = [["target", rng.choice(["d", "dd"])]]
                ins = [["flag", cond()], ["key", key()], ["value", val0()], ["target", ["EVar", outs[0][1]]]] + ([["ns", ["EVar", "ns"]]] if len(outs) == 2 else [])
                out.append(["SCall", body, ins, outs])
            elif k == "callret":
                body = [["SIf", ["EVar", "flag"], [["SForBE", "it", ["EVar", "items"], [["SIf", ["EEq", ["EVar", "it"], ["EVar", "probe"]], [["SBreak"]], []]],
                                                     [["SReturn", ["ENone"]]]]], []],
                        ["SReturn", ["ECallTable", ["EVar", "table"], ["EVar", "probe"]]]]
                ins = [["flag", cond()], ["items", ["EAttr", ["EVar", "rec"], "items"]], ["probe", rng.choice([["ENat", 0], ["ENat", 2], ["EVar", "n"], ["EStr", "s"]])],
                       ["table", ["EAttr", ["EVar", "rec"], "table"]]]
                t = rng.choice(["v", "w"])
                bound.add(t)
                out.append(["SCallRet", t, body, ins, []])
            elif k == "forbe" and depth > 0:
                body = stmts(rng.choice([0, 1]), depth - 1, False) + [["SIf", cond(), [["SBreak"]], [["SIf", cond(), [["SContinue"]], []]] if rng.random() < 0.4 else []]]
                els = stmts(rng.choice([0, 1, 1]), depth - 1, in_loop)
                bound.add("k")
                out.append(["SForBE", "k", rng.choice([["EVar", "ks"], ["EAttr", ["EVar", "rec"], "items"]]), body, els])
            elif k == "while" and depth > 0 and not in_loop:
                body = stmts(rng.choice([0, 1]), 0, False) + ([["SIf", cond(), [["SBreak"]], []]] if rng.random() < 0.3 else []) + \
                    [["SAssign", "i", ["EAdd", ["EVar", "i"], ["ENat", 1]]]]
                bound.add("i")
                out.append(["SAssign", "i", ["ENat", 0]])
                out.append(["SWhile", WHILE_FUEL, ["EGt", rng.choice([["ELen", ["EVar", "refs"]], ["ENat", rng.choice([0, 2, 5])], ["EVar", "n"]]), ["EVar", "i"]], body])
            elif k == "group":
                out.append(["SAssign", "groups", ["EDict", []]])
                out.append(["SFor", "z", ["EVar", "refs"], [["SDictAppend", "groups", rng.choice([["EAttr", ["EGetItem", ["EVar", "FIELDS"], ["EVar", "z"]], "name"],
                                                                                                    ["EAttr", ["EGetItem", ["EVar", "FIELDS"], ["EVar", "z"]], "level"]]), ["EVar", "z"]]]])
                bound.update(("groups", "z"))
                out.append(["SFor2", "k", "y2", ["EItems", ["EVar", "groups"]], [["SIf", ["EGt", ["ELen", ["EVar", "y2"]], ["ENat", 1]], [["SAssign", "w", ["ERec", "Pair", [["first", ["EVar", "k"]], ["second", ["EVar", "y2"]]]]]], []]]])
                bound.update(("k", "y2", "w"))
            elif k == "remove":
                out.append(["SRemove", "refs", rng.choice([["ENat", 0], ["ENat", 1], ["EIndex", ["EVar", "refs"], 0]])] if ill or rng.random() < 0.5
                           else ["SIf", ["EIn", ["ENat", 1], ["EVar", "refs"]], [["SRemove", "refs", ["ENat", 1]]], []])
            elif k == "storeset":
                idx = rng.choice([["EVar", "n"], ["EIndex", ["EVar", "refs"], 0]])
                out.append(["SSetPath", "FIELDS", [[False, idx], [True, ["EStr", "name"]]],
                            ["EAdd", ["EStr", rng.choice(["x.", ""])], ["EAttr", ["EGetItem", ["EVar", "FIELDS"], idx], "name"]]])
            elif k == "append":
                out.append(["SAppend", "ks", key()])
            elif k == "continue":
                out.append(["SIf", cond(), [["SContinue"]], []])
        return out

    body = stmts(rng.choice([2, 3, 4, 5, 6]), 2, False)
    if rng.random() < 0.06:        # aliasing on dicts: must be refused
        body.insert(rng.randrange(len(body) + 1), rng.choice([["SAssign", "alias", ["EVar", "d"]], ["SSetPath", "dd", [[False, ["EStr", "self"]]], ["EVar", "d"]],
                                                               ["SAssign", "alias", ["EGetItem", ["EVar", "dd"], ["EStr", "a"]]]]))
        body.append(["SSetPath", "d", [[False, ["EStr", "late"]]], ["ENat", 1]])
        if body[0][0] == "SAssign" and body[0][1] == "alias":
            body.append(["SSetPath", "alias", [[False, ["EStr", "x"]]], ["ENat", 2]])
    ret = ["ETuple", [["EVar", x] for x in ("d", "dd", "rec", "ns", "ks", "FIELDS", "refs")] + ([["ESortAttr", ["EVar", "recs"], "level", rng.random() < 0.5]] if rng.random() < 0.3 else []) + [["EVar", x] for x in sorted(bound) if x != "_" and rng.random() < 0.5 and not ill]]
    body.append(["SReturn", ret])
    return {"env": env, "prog": body, "ill": ill}


def gen(tier, seed):
    rng = random.Random(f"MINIPY-{seed}")
    n = 2000 if tier == "quick" else 30000
    cases = list(FIXED)
    while len(cases) < n:
        c = gen_plumbing(rng, rng.random() < 0.3) if rng.random() < 0.3 else gen_program(rng, rng.random() < 0.25)
        if small_enough(c):
            cases.append(c)
    return cases


def _p(env, *stmts):
    return {"env": env, "prog": list(stmts), "ill": False}


# hand-written programs that every run includes: the aliasing and scoping questions, bool vs int, needles of `in`
FIXED = [
    _p([["a", {"list": [1]}]], ["SAssign", "b", ["EVar", "a"]], ["SAppend", "a", ["ENat", 1]], ["SReturn", ["EVar", "b"]]),
    _p([["a", {"list": [1]}]], ["SAssign", "b", ["EList", [["EVar", "a"]]]], ["SAppend", "a", ["ENat", 1]], ["SReturn", ["EVar", "b"]]),
    _p([["xs", {"list": [{"list": []}, {"list": [2]}]}]], ["SFor", "x", ["EVar", "xs"], [["SAppend", "x", ["ENat", 7]]]], ["SReturn", ["EVar", "xs"]]),
    _p([["a", {"list": [1, 2]}]], ["SFor", "x", ["EVar", "a"], [["SAppend", "a", ["EVar", "x"]]]], ["SReturn", ["EVar", "a"]]),
    _p([["a", {"list": ["p"]}]], ["SAssign", "b", ["EAdd", ["EVar", "a"], ["EList", []]]], ["SAppend", "a", ["EStr", "q"]], ["SReturn", ["EList", [["EVar", "a"], ["EVar", "b"]]]]),
    _p([["x", "outer"], ["xs", {"list": ["i", "j"]}]], ["SAssign", "ys", ["EComp", ["EFmt", [["EVar", "x"], ["EStr", "!"]]], "x", ["EVar", "xs"], None]],
       ["SReturn", ["EList", [["EVar", "x"], ["EVar", "ys"]]]]),
    _p([["xs", {"list": ["i", "j"]}]], ["SAssign", "ys", ["EComp", ["EVar", "x"], "x", ["EVar", "xs"], None]], ["SReturn", ["EVar", "x"]]),
    _p([["x", "outer"], ["xs", {"list": ["i", "j"]}]], ["SFor", "x", ["EVar", "xs"], []], ["SReturn", ["EVar", "x"]]),
    _p([["x", "outer"]], ["SFor", "x", ["EList", []], []], ["SReturn", ["EVar", "x"]]),
    _p([["xs", {"list": [{"list": ["a", "b"]}, {"list": ["c"]}]}]],
       ["SReturn", ["EComp", ["EComp", ["EAdd", ["EVar", "y"], ["EVar", "y"]], "y", ["EVar", "x"], None], "x", ["EVar", "xs"], ["EVar", "x"]]]),
    _p([], ["SReturn", ["EList", [["EEq", ["EBool", True], ["ENat", 1]], ["EEq", ["EBool", False], ["ENat", 0]], ["EEq", ["EBool", True], ["ENat", 2]],
                                   ["EIn", ["ENat", 1], ["EList", [["EBool", True]]]], ["EIn", ["EBool", False], ["EList", [["ENat", 0]]]],
                                   ["EEq", ["EList", [["EBool", True]]], ["EList", [["ENat", 1]]]]]]]),
    _p([["s", "a.b--c"]], ["SReturn", ["EList", [["EIn", ["EStr", ""], ["EVar", "s"]], ["EIn", ["EStr", "--"], ["EVar", "s"]], ["EIn", ["EStr", "-a"], ["EVar", "s"]],
                                                ["EIn", ["EStr", "b-"], ["EVar", "s"]], ["EIn", ["EVar", "s"], ["EVar", "s"]], ["EIn", ["EStr", "a.b--cd"], ["EVar", "s"]]]]]),
    _p([["t", {"tuple": ["a", "b"]}], ["l", {"list": ["a", "b"]}]],
       ["SReturn", ["EList", [["EEq", ["EVar", "t"], ["EVar", "l"]], ["EEq", ["EToList", ["EVar", "t"]], ["EVar", "l"]], ["EIsInst", ["EVar", "t"], ["list"]],
                              ["EMul", ["EVar", "t"], ["ENat", 2]], ["ELen", ["EVar", "t"]], ["EIndex", ["EVar", "t"], 1], ["ENestLevel", ["EList", [["EVar", "t"]]]]]]]),
    _p([["xs", {"list": ["bb", "a", "cc", "a", "", "ddd", "bb"]}]], ["SReturn", ["ESortLen", ["EDedupe", ["EVar", "xs"]]]]),
    _p([["xs", {"list": [1, 2, 3]}]], ["SFor", "x", ["EVar", "xs"], [["SFor", "y", ["EVar", "xs"], [["SIf", ["EGt", ["EAdd", ["EVar", "x"], ["EVar", "y"]], ["ENat", 4]],
        [["SReturn", ["EList", [["EVar", "x"], ["EVar", "y"]]]]], []]]]]], ["SReturn", ["ENone"]]),
]


# --------------------------------------------------------------------------------------------------
# JSON ast -> Python ast (the inverse of translate/minipy.py)


def _name(x):
    if "." in x:
        base, attr = x.split(".", 1)
        return ast.Attribute(value=ast.Name(id=base, ctx=ast.Load()), attr=attr, ctx=ast.Load())
    return ast.Name(id=x, ctx=ast.Load())


def _call(f, *args, keywords=()):
    return ast.Call(func=f, args=list(args), keywords=list(keywords))


def _meth(obj, name, *args):
    return _call(ast.Attribute(value=obj, attr=name, ctx=ast.Load()), *args)


def _c(v):
    return ast.Constant(value=v)


def py_expr(e):
    k = e[0]
    if k == "EStr":
        return _c(e[1])
    if k == "ENat":
        return _c(int(e[1]))
    if k == "EBool":
        return _c(bool(e[1]))
    if k == "ENone":
        return _c(None)
    if k == "EVar":
        return _name(e[1])
    if k == "EFmt":
        vals = [(_c(p[1]) if p[0] == "EStr" else ast.FormattedValue(value=py_expr(p), conversion=-1, format_spec=None)) for p in e[1]]
        return ast.JoinedStr(values=vals)
    if k == "EReplace":
        return _meth(py_expr(e[1]), "replace", _c(e[2]), _c(e[3]))
    if k == "EStartswith":
        return _meth(py_expr(e[1]), "startswith", _c(e[2]))
    if k == "EEndswith":
        return _meth(py_expr(e[1]), "endswith", _c(e[2]))
    if k == "ESplit":
        return _meth(py_expr(e[1]), "split", _c(e[2]))
    if k == "ELstrip":
        return _meth(py_expr(e[1]), "lstrip", _c(e[2]))
    if k == "EJoin":
        return _meth(_c(e[1]), "join", py_expr(e[2]))
    if k == "ESliceFrom":
        return ast.Subscript(value=py_expr(e[1]), slice=ast.Slice(lower=_c(int(e[2])), upper=None, step=None), ctx=ast.Load())
    if k == "EIndex":
        return ast.Subscript(value=py_expr(e[1]), slice=_c(int(e[2])), ctx=ast.Load())
    if k == "ELen":
        return _call(ast.Name(id="len", ctx=ast.Load()), py_expr(e[1]))
    if k == "EEq":
        return ast.Compare(left=py_expr(e[1]), ops=[ast.Eq()], comparators=[py_expr(e[2])])
    if k == "EIn":
        return ast.Compare(left=py_expr(e[1]), ops=[ast.In()], comparators=[py_expr(e[2])])
    if k == "EGt":
        return ast.Compare(left=py_expr(e[1]), ops=[ast.Gt()], comparators=[py_expr(e[2])])
    if k == "EIsNone":
        return ast.Compare(left=py_expr(e[1]), ops=[ast.Is()], comparators=[_c(None)])
    if k == "ENot":
        return ast.UnaryOp(op=ast.Not(), operand=py_expr(e[1]))
    if k == "ECond":
        return ast.IfExp(test=py_expr(e[1]), body=py_expr(e[2]), orelse=py_expr(e[3]))
    if k == "EList":
        return ast.List(elts=[py_expr(x) for x in e[1]], ctx=ast.Load())
    if k == "EComp":
        gen_ = ast.comprehension(target=ast.Name(id=e[2], ctx=ast.Store()), iter=py_expr(e[3]),
                                 ifs=[py_expr(e[4])] if e[4] is not None else [], is_async=0)
        return ast.ListComp(elt=py_expr(e[1]), generators=[gen_])
    if k == "EDedupe":
        inner = e[1]
        if inner[0] == "EComp2":
            tgt = ast.Tuple(elts=[ast.Name(id=inner[2], ctx=ast.Store()), ast.Name(id=inner[3], ctx=ast.Store())], ctx=ast.Store())
            it = _call(ast.Name(id="zip", ctx=ast.Load()), py_expr(inner[4]), py_expr(inner[5]))
            arg = ast.GeneratorExp(elt=py_expr(inner[1]), generators=[ast.comprehension(target=tgt, iter=it, ifs=[], is_async=0)])
        else:
            arg = py_expr(inner)
        fk = ast.Attribute(value=ast.Name(id="dict", ctx=ast.Load()), attr="fromkeys", ctx=ast.Load())
        return _call(ast.Name(id="list", ctx=ast.Load()), _call(fk, arg))
    if k == "ESortLen":
        return _call(ast.Name(id="sorted", ctx=ast.Load()), py_expr(e[1]), keywords=[ast.keyword(arg="key", value=ast.Name(id="len", ctx=ast.Load()))])
    if k == "ERepeat":
        return ast.BinOp(left=_c(e[1]), op=ast.Mult(), right=py_expr(e[2]))
    if k in ("EAdd", "ESub", "EMul"):
        op = {"EAdd": ast.Add, "ESub": ast.Sub, "EMul": ast.Mult}[k]()
        return ast.BinOp(left=py_expr(e[1]), op=op, right=py_expr(e[2]))
    if k in ("EAnd", "EOr"):
        return ast.BoolOp(op=ast.And() if k == "EAnd" else ast.Or(), values=[py_expr(e[1]), py_expr(e[2])])
    if k == "EIsInst":
        cls = [ast.Name(id=c, ctx=ast.Load()) for c in e[2]]
        return _call(ast.Name(id="isinstance", ctx=ast.Load()), py_expr(e[1]), cls[0] if len(cls) == 1 else ast.Tuple(elts=cls, ctx=ast.Load()))
    if k == "EToList":
        return _call(ast.Name(id="list", ctx=ast.Load()), py_expr(e[1]))
    if k == "ENestLevel":
        return _call(ast.Attribute(value=ast.Name(id="utils", ctx=ast.Load()), attr="get_nesting_level", ctx=ast.Load()), py_expr(e[1]))
    if k == "EConst":
        return _name(e[1])
    if k == "EIsConst":
        return ast.Compare(left=py_expr(e[1]), ops=[ast.Is()], comparators=[_name(e[2])])
    if k == "ETuple":
        return ast.Tuple(elts=[py_expr(x) for x in e[1]], ctx=ast.Load())
    if k == "EDict":
        return ast.Dict(keys=[py_expr(kv[0]) for kv in e[1]], values=[py_expr(kv[1]) for kv in e[1]])
    if k == "EAttr":
        return ast.Attribute(value=py_expr(e[1]), attr=e[2], ctx=ast.Load())
    if k in ("EGetAttr", "EHasAttr"):
        return _call(ast.Name(id="getattr" if k == "EGetAttr" else "hasattr", ctx=ast.Load()), py_expr(e[1]), py_expr(e[2]))
    if k == "EVars":
        return _call(ast.Name(id="vars", ctx=ast.Load()), py_expr(e[1]))
    if k == "EGetItem":
        return ast.Subscript(value=py_expr(e[1]), slice=py_expr(e[2]), ctx=ast.Load())
    if k == "EDictGet":
        return _meth(py_expr(e[1]), "get", py_expr(e[2]), py_expr(e[3]))
    if k == "ECopy":
        return _meth(py_expr(e[1]), "copy")
    if k in ("EKeys", "EValues", "EItems"):
        return _meth(py_expr(e[1]), k[1:].lower())
    if k == "EZip":
        return _call(ast.Name(id="zip", ctx=ast.Load()), py_expr(e[1]), py_expr(e[2]))
    if k == "ECallTable":
        return _call(py_expr(e[1]), py_expr(e[2]))
    if k == "ESplitDest":
        return _call(ast.Attribute(value=ast.Name(id="utils", ctx=ast.Load()), attr="split_dest", ctx=ast.Load()), py_expr(e[1]))
    if k == "ESortAttr":
        lam = ast.Lambda(args=ast.arguments(posonlyargs=[], args=[ast.arg(arg="obj")], kwonlyargs=[], kw_defaults=[], defaults=[]),
                         body=ast.Attribute(value=ast.Name(id="obj", ctx=ast.Load()), attr=e[2], ctx=ast.Load()))
        kws = [ast.keyword(arg="key", value=lam)] + ([ast.keyword(arg="reverse", value=_c(True))] if e[3] else [])
        return _call(ast.Name(id="sorted", ctx=ast.Load()), py_expr(e[1]), keywords=kws)
    if k in ("EAll", "EAny"):
        g = ast.comprehension(target=ast.Name(id=e[2], ctx=ast.Store()), iter=py_expr(e[3]), ifs=[], is_async=0)
        return _call(ast.Name(id="all" if k == "EAll" else "any", ctx=ast.Load()), ast.GeneratorExp(elt=py_expr(e[1]), generators=[g]))
    if k == "ERec":
        return _call(ast.Name(id=e[1], ctx=ast.Load()), *[py_expr(a) for _, a in e[2]])
    if k == "ESortKey":
        lam = ast.Lambda(args=ast.arguments(posonlyargs=[], args=[ast.arg(arg=e[2])], kwonlyargs=[], kw_defaults=[], defaults=[]), body=py_expr(e[3]))
        kws = [ast.keyword(arg="key", value=lam)] + ([ast.keyword(arg="reverse", value=_c(True))] if e[4] else [])
        return _call(ast.Name(id="sorted", ctx=ast.Load()), py_expr(e[1]), keywords=kws)
    if k == "ECountDistinct":
        return _call(ast.Name(id="len", ctx=ast.Load()), _call(ast.Name(id="set", ctx=ast.Load()), py_expr(e[1])))
    if k == "EStrip":
        return _meth(py_expr(e[1]), "strip")
    if k == "EIsIdent":
        return _meth(py_expr(e[1]), "isidentifier")
    if k == "EPartition":
        return _meth(py_expr(e[1]), "partition", _c(e[2]))
    if k == "ESplitN":
        return ast.Call(func=ast.Attribute(value=py_expr(e[1]), attr="split", ctx=ast.Load()), args=[py_expr(e[2])],
                        keywords=[ast.keyword(arg="maxsplit", value=_c(int(e[3])))])
    if k == "EIndexOf":
        return _meth(py_expr(e[1]), "index", py_expr(e[2]))
    if k == "ERange":
        return _call(ast.Name(id="range", ctx=ast.Load()), py_expr(e[1]), py_expr(e[2]))
    if k == "ESlice":
        return ast.Subscript(value=py_expr(e[1]), slice=ast.Slice(lower=None if e[2] is None else py_expr(e[2]),
                                                                  upper=None if e[3] is None else py_expr(e[3]), step=None), ctx=ast.Load())
    raise ValueError(f"unknown expression constructor {k}")


def _store(x):
    n = _name(x)
    n.ctx = ast.Store()
    return n


def py_block(ss):
    return [py_stmt(s) for s in ss] or [ast.Pass()]


def py_stmt(s):
    k = s[0]
    if k == "SAssign":
        if s[1] in DEFAULTDICT_VARS and s[2] == ["EDict", []]:
            return ast.Assign(targets=[_store(s[1])], value=_call(ast.Name(id="defaultdict", ctx=ast.Load()), ast.Name(id="list", ctx=ast.Load())), lineno=0)
        return ast.Assign(targets=[_store(s[1])], value=py_expr(s[2]), lineno=0)
    if k in ("SAppend", "SExtend"):
        return ast.Expr(value=_meth(_name(s[1]), "append" if k == "SAppend" else "extend", py_expr(s[2])))
    if k == "SIf":
        return ast.If(test=py_expr(s[1]), body=py_block(s[2]), orelse=[py_stmt(x) for x in s[3]])
    if k == "SFor":
        return ast.For(target=_store(s[1]), iter=py_expr(s[2]), body=py_block(s[3]), orelse=[], lineno=0)
    if k == "SReturn":
        return ast.Return(value=py_expr(s[1]))
    if k == "SUnpack3":
        tgt = ast.Tuple(elts=[_store(s[1]), ast.Starred(value=_store(s[2]), ctx=ast.Store()), _store(s[3])], ctx=ast.Store())
        return ast.Assign(targets=[tgt], value=py_expr(s[4]), lineno=0)
    if k == "SAssert":
        return ast.Assert(test=py_expr(s[1]), msg=None)
    if k == "SRaise":
        f = ast.Name(id=s[1], ctx=ast.Load())
        if s[1] == "InconsistentArgumentError":
            f = ast.Attribute(value=ast.Name(id="utils", ctx=ast.Load()), attr=s[1], ctx=ast.Load())
        return ast.Raise(exc=_call(f, _c("raised by the generated program")), cause=None)
    if k == "SContinue":
        return ast.Continue()
    if k == "SForC":
        return ast.For(target=_store(s[1]), iter=py_expr(s[2]), body=py_block(s[3]), orelse=[], lineno=0)
    if k == "SFor2":
        tgt = ast.Tuple(elts=[_store(s[1]), _store(s[2])], ctx=ast.Store())
        return ast.For(target=tgt, iter=py_expr(s[3]), body=py_block(s[4]), orelse=[], lineno=0)
    if k == "SUnpack":
        return ast.Assign(targets=[ast.Tuple(elts=[_store(x) for x in s[1]], ctx=ast.Store())], value=py_expr(s[2]), lineno=0)
    if k == "SSetPath":
        t = ast.Name(id=s[1], ctx=ast.Load())
        for is_attr, key in s[2]:
            t = ast.Attribute(value=t, attr=key[1], ctx=ast.Load()) if is_attr else ast.Subscript(value=t, slice=py_expr(key), ctx=ast.Load())
        t.ctx = ast.Store()
        return ast.Assign(targets=[t], value=py_expr(s[3]), lineno=0)
    if k == "SDelItem":
        return ast.Delete(targets=[ast.Subscript(value=ast.Name(id=s[1], ctx=ast.Load()), slice=py_expr(s[2]), ctx=ast.Del())])
    if k == "SDelAttr":
        return ast.Expr(value=_call(ast.Name(id="delattr", ctx=ast.Load()), ast.Name(id=s[1], ctx=ast.Load()), py_expr(s[2])))
    if k in ("SPop", "SPopAttr"):
        obj = ast.Name(id=s[2] if k == "SPop" else "view_of_" + s[2], ctx=ast.Load())
        call = _meth(obj, "pop", py_expr(s[3]), *([py_expr(s[4])] if s[4] is not None else []))
        if s[1] == "_":
            return ast.Expr(value=call)
        return ast.Assign(targets=[_store(s[1])], value=call, lineno=0)
    if k == "SCall":
        return ast.Expr(value=_call(ast.Name(id=s[4], ctx=ast.Load()), keywords=[ast.keyword(arg=p, value=py_expr(a)) for p, a in s[2]]))
    if k == "SCallRet":
        call = _call(ast.Name(id=s[5], ctx=ast.Load()), keywords=[ast.keyword(arg=p, value=py_expr(a)) for p, a in s[3]])
        return ast.Assign(targets=[_store(s[1])], value=call, lineno=0)
    if k == "SBreak":
        return ast.Break()
    if k == "SWhile":
        return ast.While(test=py_expr(s[2]), body=py_block(s[3]), orelse=[])
    if k == "SDictAppend":
        tgt = ast.Subscript(value=ast.Name(id=s[1], ctx=ast.Load()), slice=py_expr(s[2]), ctx=ast.Load())
        return ast.Expr(value=_meth(tgt, "append", py_expr(s[3])))
    if k == "SRemove":
        return ast.Expr(value=_meth(ast.Name(id=s[1], ctx=ast.Load()), "remove", py_expr(s[2])))
    if k == "SForBE":
        return ast.For(target=_store(s[1]), iter=py_expr(s[2]), body=py_block(s[3]), orelse=[py_stmt(x) for x in s[4]], lineno=0)
    raise ValueError(f"unknown statement constructor {k}")


DEFAULTDICT_VARS = ["groups"]        # printed as defaultdict(list): only ever assigned {} and appended to with x[k].append(v)
WHILE_FUEL = 6


def _walk_stmts(ss):
    for st in ss:
        yield st
        if st[0] == "SWhile":
            yield from _walk_stmts(st[3])
        if st[0] == "SIf":
            yield from _walk_stmts(st[2])
            yield from _walk_stmts(st[3])
        elif st[0] in ("SFor", "SForC"):
            yield from _walk_stmts(st[3])
        elif st[0] == "SFor2":
            yield from _walk_stmts(st[4])
        elif st[0] == "SCall":
            yield from _walk_stmts(st[1])
        elif st[0] == "SCallRet":
            yield from _walk_stmts(st[2])
        elif st[0] == "SForBE":
            yield from _walk_stmts(st[3])
            yield from _walk_stmts(st[4])


def to_source(case):
    params = []
    for x, _ in case["env"]:
        p = x.split(".", 1)[0]
        if p not in params:
            params.append(p)
    # procedures (SCall): one module-level def each; the call site names it (slot 4 of the statement, printing only)
    defs = []
    for st in _walk_stmts(case["prog"]):
        if st[0] in ("SCall", "SCallRet"):
            o = 0 if st[0] == "SCall" else 1          # SCallRet carries the target in slot 1
            name = f"proc_{len(defs)}"
            if len(st) == 4 + o:
                st.append(name)
            else:
                st[4 + o] = name
            defs.append(ast.FunctionDef(name=name, args=ast.arguments(posonlyargs=[], args=[ast.arg(arg=p) for p, _ in st[2 + o]], kwonlyargs=[],
                                                                      kw_defaults=[], defaults=[]),
                                        body=py_block(st[1 + o]), decorator_list=[], returns=None, lineno=0, type_params=[]))
    views = []
    for st in _walk_stmts(case["prog"]):
        if st[0] == "SPopAttr" and st[2] not in views:
            views.append(st[2])
    prelude = [ast.Assign(targets=[ast.Name(id="view_of_" + x, ctx=ast.Store())], value=_call(ast.Name(id="vars", ctx=ast.Load()), ast.Name(id=x, ctx=ast.Load())), lineno=0)
               for x in views]
    body = prelude + py_block(case["prog"])
    fn = ast.FunctionDef(name="f", args=ast.arguments(posonlyargs=[], args=[ast.arg(arg=p) for p in params], kwonlyargs=[], kw_defaults=[], defaults=[]),
                         body=body, decorator_list=[], returns=None, lineno=0, type_params=[])
    mod = ast.Module(body=defs + [fn], type_ignores=[])
    ast.fix_missing_locations(mod)
    return ast.unparse(mod), params


# --------------------------------------------------------------------------------------------------
# JSON ast -> Coq text (the same text translate/minipy.py produces)


def coq_expr(e):
    k = e[0]
    if k == "EStr":
        return f"(EStr {cstr(e[1])})"
    if k == "ENat":
        return f"(ENat {int(e[1])})"
    if k == "EBool":
        return f"(EBool {'true' if e[1] else 'false'})"
    if k == "ENone":
        return "ENone"
    if k == "EVar":
        return f"(EVar {cstr(e[1])})"
    if k == "EFmt":
        return "(EFmt [" + "; ".join(coq_expr(p) for p in e[1]) + "])"
    if k == "EReplace":
        return f"(EReplace {coq_expr(e[1])} {cstr(e[2])} {cstr(e[3])})"
    if k in ("EStartswith", "EEndswith", "ESplit", "ELstrip"):
        return f"({k} {coq_expr(e[1])} {cstr(e[2])})"
    if k == "EJoin":
        return f"(EJoin {cstr(e[1])} {coq_expr(e[2])})"
    if k in ("ESliceFrom", "EIndex"):
        return f"({k} {coq_expr(e[1])} {int(e[2])})"
    if k in ("ELen", "ENot", "EDedupe", "ESortLen", "EIsNone", "EToList", "ENestLevel"):
        return f"({k} {coq_expr(e[1])})"
    if k in ("EEq", "EIn", "EGt", "EAdd", "ESub", "EMul", "EAnd", "EOr"):
        return f"({k} {coq_expr(e[1])} {coq_expr(e[2])})"
    if k == "ECond":
        return f"(ECond {coq_expr(e[1])} {coq_expr(e[2])} {coq_expr(e[3])})"
    if k == "EList":
        return "(EList [" + "; ".join(coq_expr(x) for x in e[1]) + "])"
    if k == "EComp":
        cond = f"(Some {coq_expr(e[4])})" if e[4] is not None else "None"
        return f"(EComp {coq_expr(e[1])} {cstr(e[2])} {coq_expr(e[3])} {cond})"
    if k == "EComp2":
        return f"(EComp2 {coq_expr(e[1])} {cstr(e[2])} {cstr(e[3])} {coq_expr(e[4])} {coq_expr(e[5])})"
    if k == "ERepeat":
        return f"(ERepeat {cstr(e[1])} {coq_expr(e[2])})"
    if k == "EIsInst":
        return f"(EIsInst {coq_expr(e[1])} [{'; '.join(cstr(c) for c in e[2])}])"
    if k == "EConst":
        return f"(EConst {cstr(e[1])})"
    if k == "EIsConst":
        return f"(EIsConst {coq_expr(e[1])} {cstr(e[2])})"
    if k == "ETuple":
        return "(ETuple [" + "; ".join(coq_expr(x) for x in e[1]) + "])"
    if k == "EDict":
        return "(EDict [" + "; ".join(f"({coq_expr(kv[0])}, {coq_expr(kv[1])})" for kv in e[1]) + "])"
    if k == "EAttr":
        return f"(EAttr {coq_expr(e[1])} {cstr(e[2])})"
    if k in ("EGetAttr", "EHasAttr", "EGetItem", "EZip", "ECallTable"):
        return f"({k} {coq_expr(e[1])} {coq_expr(e[2])})"
    if k in ("EVars", "ECopy", "EKeys", "EValues", "EItems", "ESplitDest"):
        return f"({k} {coq_expr(e[1])})"
    if k == "EDictGet":
        return f"(EDictGet {coq_expr(e[1])} {coq_expr(e[2])} {coq_expr(e[3])})"
    if k == "ESortAttr":
        return f"(ESortAttr {coq_expr(e[1])} {cstr(e[2])} {'true' if e[3] else 'false'})"
    if k in ("EAll", "EAny"):
        return f"({k} {coq_expr(e[1])} {cstr(e[2])} {coq_expr(e[3])})"
    if k == "ERec":
        return f"(ERec {cstr(e[1])} [" + "; ".join(f"({cstr(n)}, {coq_expr(a)})" for n, a in e[2]) + "])"
    if k == "ESortKey":
        return f"(ESortKey {coq_expr(e[1])} {cstr(e[2])} {coq_expr(e[3])} {'true' if e[4] else 'false'})"
    if k == "ECountDistinct":
        return f"(ECountDistinct {coq_expr(e[1])})"
    if k in ("EStrip", "EIsIdent"):
        return f"({k} {coq_expr(e[1])})"
    if k == "EPartition":
        return f"(EPartition {coq_expr(e[1])} {cstr(e[2])})"
    if k == "ESplitN":
        return f"(ESplitN {coq_expr(e[1])} {coq_expr(e[2])} {int(e[3])})"
    if k in ("EIndexOf", "ERange"):
        return f"({k} {coq_expr(e[1])} {coq_expr(e[2])})"
    if k == "ESlice":
        o = lambda x: "None" if x is None else f"(Some {coq_expr(x)})"
        return f"(ESlice {coq_expr(e[1])} {o(e[2])} {o(e[3])})"
    raise ValueError(k)


def coq_stmt(s):
    k = s[0]
    if k in ("SAssign", "SAppend", "SExtend"):
        return f"{k} {cstr(s[1])} {coq_expr(s[2])}"
    if k == "SIf":
        return f"SIf {coq_expr(s[1])} [{'; '.join(coq_stmt(x) for x in s[2])}] [{'; '.join(coq_stmt(x) for x in s[3])}]"
    if k == "SFor":
        return f"SFor {cstr(s[1])} {coq_expr(s[2])} [{'; '.join(coq_stmt(x) for x in s[3])}]"
    if k in ("SReturn", "SAssert"):
        return f"{k} {coq_expr(s[1])}"
    if k == "SUnpack3":
        return f"SUnpack3 {cstr(s[1])} {cstr(s[2])} {cstr(s[3])} {coq_expr(s[4])}"
    if k == "SRaise":
        return f"SRaise {cstr(s[1])}"
    if k == "SContinue":
        return "SContinue"
    if k == "SForC":
        return f"SForC {cstr(s[1])} {coq_expr(s[2])} [{'; '.join(coq_stmt(x) for x in s[3])}]"
    if k == "SFor2":
        return f"SFor2 {cstr(s[1])} {cstr(s[2])} {coq_expr(s[3])} [{'; '.join(coq_stmt(x) for x in s[4])}]"
    if k == "SUnpack":
        return f"SUnpack [{'; '.join(cstr(x) for x in s[1])}] {coq_expr(s[2])}"
    if k == "SSetPath":
        path = "; ".join(f"({'true' if a else 'false'}, {coq_expr(key)})" for a, key in s[2])
        return f"SSetPath {cstr(s[1])} [{path}] {coq_expr(s[3])}"
    if k in ("SDelItem", "SDelAttr"):
        return f"{k} {cstr(s[1])} {coq_expr(s[2])}"
    if k in ("SPop", "SPopAttr"):
        d = f"(Some {coq_expr(s[4])})" if s[4] is not None else "None"
        return f"{k} {cstr(s[1])} {cstr(s[2])} {coq_expr(s[3])} {d}"
    if k == "SCall":
        ins = "; ".join(f"({cstr(p)}, {coq_expr(a)})" for p, a in s[2])
        outs = "; ".join(f"({cstr(p)}, {cstr(x)})" for p, x in s[3])
        return f"SCall [{'; '.join(coq_stmt(x) for x in s[1])}] [{ins}] [{outs}]"
    if k == "SCallRet":
        ins = "; ".join(f"({cstr(p)}, {coq_expr(a)})" for p, a in s[3])
        outs = "; ".join(f"({cstr(p)}, {cstr(x)})" for p, x in s[4])
        return f"SCallRet {cstr(s[1])} [{'; '.join(coq_stmt(x) for x in s[2])}] [{ins}] [{outs}]"
    if k == "SBreak":
        return "SBreak"
    if k == "SWhile":
        return f"SWhile {int(s[1])} {coq_expr(s[2])} [{'; '.join(coq_stmt(x) for x in s[3])}]"
    if k == "SDictAppend":
        return f"SDictAppend {cstr(s[1])} {coq_expr(s[2])} {coq_expr(s[3])}"
    if k == "SRemove":
        return f"SRemove {cstr(s[1])} {coq_expr(s[2])}"
    if k == "SForBE":
        return f"SForBE {cstr(s[1])} {coq_expr(s[2])} [{'; '.join(coq_stmt(x) for x in s[3])}] [{'; '.join(coq_stmt(x) for x in s[4])}]"
    raise ValueError(k)


def coq_val(v):
    if isinstance(v, bool):
        return f"(VB {cbool(v)})"
    if isinstance(v, int):
        return f"(VN {cnat(v)})"
    if isinstance(v, str):
        return f"(VS {cstr(v)})"
    if v is None:
        return "VNone"
    if "list" in v:
        return f"(VL {clist([coq_val(x) for x in v['list']])})"
    if "dict" in v:
        return "(VD " + clist([f"({coq_val(k)}, {coq_val(x)})" for k, x in v["dict"]]) + ")"
    if "rec" in v:
        return f"(VR {cstr(v['rec'])} " + clist([f"({cstr(k)}, {coq_val(x)})" for k, x in v["fields"]]) + ")"
    if "const" in v:
        return f"(VC {cstr(v['const'])})"
    return f"(VT {clist([coq_val(x) for x in v['tuple']])})"


def to_coq(case, obs):
    env = clist([f"({cstr(x)}, {coq_val(v)})" for x, v in case["env"]])
    prog = "[" + "; ".join(coq_stmt(s) for s in case["prog"]) + "]"
    o = obs["outcome"]
    res = f"(Ok {coq_val(o[1])})" if o[0] == "ok" else f"(Err (Raise {cstr(o[1])}))"
    return f"mkcase {env} {prog} {cbool(obs['translator'] == 'ok')} {res}"


# --------------------------------------------------------------------------------------------------
# runs inside the implementation interpreter


import argparse as _argparse
import dataclasses as _dataclasses

_RAISE = type("RaiseMarker", (), {"__repr__": lambda self: "<raise>"})()
_CONST = {"argparse.SUPPRESS": _argparse.SUPPRESS, "dataclasses.MISSING": _dataclasses.MISSING, "raise": _RAISE}
_CLASSES = {}


class MiniPyUnknownCall(Exception):
    pass


class _RecBase:
    """a plain object with attributes (a wrapper): not a Namespace, so `k in obj` is a TypeError as for any object"""


def _rec_class(name):
    """Objects are argparse.Namespace instances (`in`, vars, setattr, ==) of a class named like the MiniPy class tag;
    == also compares the class (MiniPy val_eqb on VR)."""
    if name not in _CLASSES:
        def eq(self, other):
            return type(self) is type(other) and vars(self) == vars(other)
        _CLASSES[name] = _argparse.Namespace if name == "Namespace" else type(name, (_RecBase,), {"__eq__": eq, "__hash__": None})
    return _CLASSES[name]


def _table_fn(table):
    pairs = [(_pyval(k), _pyval(v)) for k, v in table["dict"]]

    def call(a):
        for k, v in pairs:
            if k == a:
                if isinstance(v, tuple) and len(v) == 2 and v[0] is _RAISE:
                    raise {"ValueError": ValueError, "KeyError": KeyError, "TypeError": TypeError}.get(v[1], RuntimeError)()
                return v
        raise MiniPyUnknownCall()
    call.minipy_table = table
    return call


def _pyval(v, as_table=False):
    if isinstance(v, dict):
        if "list" in v:
            return [_pyval(x) for x in v["list"]]
        if "dict" in v:
            return _table_fn(v) if as_table else {_pyval(k): _pyval(x) for k, x in v["dict"]}
        if "rec" in v:
            o = _rec_class(v["rec"])()
            for k, x in v["fields"]:
                setattr(o, k, _pyval(x, as_table=(k == "table")))
            return o
        if "const" in v:
            return _CONST[v["const"]]
        return tuple(_pyval(x) for x in v["tuple"])
    return v


def _canon(v):
    if isinstance(v, str) and v == _argparse.SUPPRESS:
        return {"const": "argparse.SUPPRESS"}
    if isinstance(v, bool) or v is None or isinstance(v, str):
        if isinstance(v, str) and any(ord(c) < 32 or ord(c) > 126 for c in v):
            raise ValueError("non-ASCII result")
        return v
    if isinstance(v, int):
        if v < 0 or v >= 5000:
            raise ValueError("integer result outside 0..4999")
        return v
    if isinstance(v, list):
        return {"list": [_canon(x) for x in v]}
    if isinstance(v, tuple):
        return {"tuple": [_canon(x) for x in v]}
    if isinstance(v, dict):
        return {"dict": [[_canon(k), _canon(x)] for k, x in v.items()]}
    if isinstance(v, (_argparse.Namespace, _RecBase)):
        return {"rec": type(v).__name__, "fields": [[k, _canon(x)] for k, x in vars(v).items()]}
    if v is _dataclasses.MISSING:
        return {"const": "dataclasses.MISSING"}
    if v is _RAISE:
        return {"const": "raise"}
    if callable(v) and hasattr(v, "minipy_table"):
        return v.minipy_table
    raise ValueError(f"result of type {type(v).__name__}")


REC_CLASSES = ["Wrapper", "Field", "Namespace"]


def _translate(src):
    """translate/minipy.py on the printed module: the last def is the program, the others are the procedures it calls."""
    from translate import minipy
    mod = ast.parse(src)
    kw = dict(attr_vars=ATTR_VARS, prims={"utils.get_nesting_level": "ENestLevel", "utils.split_dest": "ESplitDest"}, objects=True,
              consts={"argparse.SUPPRESS": "argparse.SUPPRESS", "dataclasses.MISSING": "dataclasses.MISSING"}, tables=["rec.table", "table"],
              record_classes=REC_CLASSES, record_ctors={"Pair": ["first", "second"]}, while_fuel=WHILE_FUEL, strings=True)
    procs = {f.name: (f, minipy.Ctx(**kw), None) for f in mod.body[:-1]}
    c = minipy.Ctx(attr_targets=["self.acc"], procs=procs, refs=("FIELDS", {"w"}), **kw)
    return minipy.method_block(mod.body[-1], c)[0]


def _globals(utils_ns, sub):
    import collections
    g = {"utils": utils_ns, "_minipy_sub": sub, "argparse": _argparse, "dataclasses": _dataclasses, "defaultdict": collections.defaultdict}
    for n in REC_CLASSES:
        g[n] = _rec_class(n)
    pair = _rec_class("Pair")

    def mk(first, second):
        o = pair()
        o.first, o.second = first, second
        return o
    g["Pair"] = mk
    return g


class _GuardSub(ast.NodeTransformer):
    """a - b  ->  _minipy_sub(a, b): the fragment has naturals only."""
    def visit_BinOp(self, node):
        self.generic_visit(node)
        if isinstance(node.op, ast.Sub):
            return ast.copy_location(ast.Call(func=ast.Name(id="_minipy_sub", ctx=ast.Load()), args=[node.left, node.right], keywords=[]), node)
        return node


def run_impl(cases):
    import signal
    import types
    import warnings

    warnings.simplefilter("ignore")

    from simple_parsing import utils as sp_utils
    from translate import minipy
    from translate.pyast import Unrecognised

    class MiniPyNegativeNumber(Exception):
        pass

    def _sub(a, b):
        r = a - b
        if isinstance(r, int) and r < 0:
            raise MiniPyNegativeNumber()
        return r

    class Timeout(BaseException):
        pass

    def on_alarm(signum, frame):
        raise Timeout()

    signal.signal(signal.SIGALRM, on_alarm)
    utils_ns = types.SimpleNamespace(get_nesting_level=sp_utils.get_nesting_level, split_dest=sp_utils.split_dest,
                                     InconsistentArgumentError=sp_utils.InconsistentArgumentError)
    out = []
    for case in cases:
        obs = {"translator": "ok", "roundtrip": "ok", "outcome": ["raise", "NotRun"]}
        try:
            src, params = to_source(case)
        except Exception as e:  # noqa: BLE001
            obs["roundtrip"] = f"printer failed: {type(e).__name__}: {e}"
            out.append(obs)
            continue
        obs["source"] = src
        # ---- the translator on the printed source must give the term back
        try:
            blk = _translate(src)
            want = "[" + ";\n   ".join(coq_stmt(s) for s in case["prog"]) + "]"
            if blk != want:
                obs["roundtrip"] = "translate(parse(print(p))) differs from p"
                obs["got"] = blk[:2000]
                obs["want"] = want[:2000]
        except Unrecognised as e:
            if "aliasing" in str(e):
                obs["translator"] = "rejected: " + str(e)[:200]
            else:
                obs["roundtrip"] = "translator refused the printed program: " + str(e)[:300]
        except Exception as e:  # noqa: BLE001
            obs["roundtrip"] = f"translator crashed: {type(e).__name__}: {e}"
        if obs["translator"] != "ok":
            out.append(obs)        # nothing is claimed about refused programs; they are not executed
            continue
        # ---- CPython
        tree = _GuardSub().visit(ast.parse(src))
        ast.fix_missing_locations(tree)
        glob = _globals(utils_ns, _sub)
        exec(compile(tree, "<minipy>", "exec", dont_inherit=True), glob)
        self_obj = types.SimpleNamespace()
        args = {}
        for x, v in case["env"]:
            if x.startswith("self."):
                setattr(self_obj, x.split(".", 1)[1], _pyval(v))
                args["self"] = self_obj
            else:
                args[x] = _pyval(v)
        signal.setitimer(signal.ITIMER_REAL, 1.0)
        try:
            r = glob["f"](**args)
            signal.setitimer(signal.ITIMER_REAL, 0)
            try:
                obs["outcome"] = ["ok", _canon(r)]
            except ValueError as e:
                obs["outcome"] = ["raise", "Uncanonical: " + str(e)]
        except Timeout:
            obs["outcome"] = ["raise", "Timeout"]
        except BaseException as e:  # noqa: BLE001
            signal.setitimer(signal.ITIMER_REAL, 0)
            name = type(e).__name__
            if isinstance(e, NameError):
                name = "NameError"          # UnboundLocalError is the same event for a name that is assigned later
            obs["outcome"] = ["raise", name]
        finally:
            signal.setitimer(signal.ITIMER_REAL, 0)
        out.append(obs)
    return out


# --------------------------------------------------------------------------------------------------
# judging on the Python side, evidence


def py_spec(case, obs):
    if obs["roundtrip"] != "ok":
        return "round trip broken: " + obs["roundtrip"]
    if obs["translator"] == "ok" and obs["outcome"][0] == "raise" and obs["outcome"][1] in ("Timeout", "NotRun"):
        return "the printed program did not finish under CPython: " + obs["outcome"][1]
    if obs["translator"] == "ok" and obs["outcome"][0] == "raise" and obs["outcome"][1].startswith("Uncanonical"):
        return "result outside the value language: " + obs["outcome"][1]
    return None


def signature(case, obs, reason):
    return reason.split(":")[0].replace(" ", "-")[:60]


def _depth(e):
    if not isinstance(e, list):
        return 0
    return 1 + max([_depth(x) for x in e] + [0])


def _ctors(x, acc):
    if isinstance(x, list):
        if x and isinstance(x[0], str) and x[0][:1] in ("E", "S") and x[0][1:2].isupper():
            acc.add(x[0])
        for y in x:
            _ctors(y, acc)


def nontrivial(case, obs):
    return obs["translator"] == "ok" and (len(case["prog"]) >= 3 or _depth(case["prog"]) >= 5)


def features(case, obs):
    o = obs["outcome"]
    f = {"stream": "faulty" if case.get("ill") else "typed",
         "translator": "ok" if obs["translator"] == "ok" else "refused-aliasing",
         "outcome": ("value" if o[0] == "ok" else o[1]) if obs["translator"] == "ok" else "not-run"}
    acc = set()
    _ctors(case["prog"], acc)
    for c in acc:
        f["uses_" + c] = 1
    return f


def shrink(case):
    prog = case["prog"]
    for i in range(len(prog)):
        c = dict(case)
        c["prog"] = prog[:i] + prog[i + 1:]
        yield c
