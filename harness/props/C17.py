"""C17 — how a dataclass is written does not change its command line.

Three kinds of case (see coq/CorrDefs/CorrC17.v):
  tree : one abstract dataclass (fields over the CLI type grammar, nested dataclass, enum, InitVar / ClassVar /
         init=False / cmd=False members) rendered to REAL module files in 4 annotation styles x {flat, inheritance chain}
         x {module scope, classes defined inside a function that is still executing while the parser runs};
         per rendering: the wrapper field list with the canonicalised FieldWrapper.type, and the outcome of every argv.
  norm : a written annotation evaluated by Python, then _replace_UnionType_with_typing_Union on the object.
  rw   : a string given to _get_old_style_annotation and to evaluate_string_annotation.
"""
from __future__ import annotations

import hashlib
import itertools
import json
import random

from coqemit import cbool, clist, cpair, cstr, outcome

ID = "C17"
FACTS = ["Annot"]
COQ_HEADER = "From SPV Require Import CorrDefs.CorrC17."
COQ_CASE_TYPE = "case"
RULE = ("corpus/C17 (minimised past failures) first. Per rendering also the registered options (strings, nargs, required, default, choices) and, for exits, status and stream; values and resolved types carry the identity of the rendering's own classes. tree: 1-5 fields drawn from the CLI type grammar (int float str bool Enum, Optional[T], List[T], Tuple fixed and "
        "variadic, Union of primitives, nested dataclass, Optional[nested], Optional of list/tuple/union; with lower weight "
        "List[Union], List[Optional], List[Tuple], Tuple[Union,..], Dict) plus optional InitVar / ClassVar / init=False / "
        "cmd=False members; every tree is written to 16 real modules = {typing generics, builtin generics, PEP 604 bars, "
        "`from __future__ import annotations` strings (bars, or typing/builtin spelling)} x {flat, 2-3 level inheritance "
        "chain, optionally re-declaring a field} x {module scope, inside a running function}, imported with importlib, and "
        "parsed with 4-7 argvs (empty, all-valid, single valid, invalid value, unknown option, missing value) through "
        "ArgumentParser.add_arguments or simple_parsing.parse. norm: every grammar type in the three spellings, plus random "
        "mixed-spelling expressions (bare generics, wrong arities, nested/duplicate unions). rw: the text of every grammar "
        "type, random printed expressions, every string with a bar over {a [ ] | , space} up to length 4 (5 in thorough), "
        "random longer strings. Non-trivial = a tree whose parser was set up in at least one rendering / an annotation "
        "that evaluates / a string containing the bar; distinct by full case.")
TRUSTED = [
    "CPython 3.12 typing semantics as modelled by Model/Annot.v `eval` (validated on every norm case against the real objects)",
    "get_type_hints / frame and module namespace lookup: not modelled, covered by the pairwise comparison of real modules only",
    "harness canonicalisers canon_type / rty_of (typing.get_origin / get_args based)",
]
ASSUMPTIONS = [
    "type equality used when unions drop duplicates is structural (Python compares nested unions as sets: not generated)",
    "typing's subscription caches are emptied before each generated module / evaluated expression (CPython files "
    "Optional[Union[str, int]] under a key that compares unions as sets, so an earlier Optional[Union[int, str]] in the "
    "same process would otherwise come back; one member order per member set is generated)",
    "atoms are class names without delimiter characters; strings given to the rewriter are ASCII",
    "on Python >= 3.10 the textual rewriter is reached through evaluate_string_annotation (serialization) and as the "
    "fallback of get_field_type_from_annotations only; the parse path normalises runtime objects instead",
]

PRIMS = ["int", "float", "str", "bool"]
STYLES = ["typing", "builtin", "pep604", "future"]


# ==================================================================================================
# canonical types (JSON): ["atom", n] ["none"] ["dots"] ["list", t] ["tuple", [ts]] ["tuplevar", t] ["dict", k, v]
#                         ["union", [ts]] ["bad"]
# written annotations (JSON): ["n", name] ["s", name, [args]] ["b", [ts]]

def A(n):
    return ["atom", n]


NONE = ["none"]
RESERVED = ["None", "NoneType", "...", "List", "list", "Tuple", "tuple", "Dict", "dict", "Set", "set", "Type", "type",
            "Optional", "Union"]


def gen_name(sp, o):
    return o.capitalize() if sp == "typing" else o


def render(sp, c):
    k = c[0]
    if k == "atom":
        return ["n", c[1]]
    if k == "none":
        return ["n", "None"]
    if k == "dots":
        return ["n", "..."]
    if k == "list":
        return ["s", gen_name(sp, "list"), [render(sp, c[1])]]
    if k == "tuple":
        return ["s", gen_name(sp, "tuple"), [render(sp, x) for x in c[1]]]
    if k == "tuplevar":
        return ["s", gen_name(sp, "tuple"), [render(sp, c[1]), ["n", "..."]]]
    if k == "dict":
        return ["s", gen_name(sp, "dict"), [render(sp, c[1]), render(sp, c[2])]]
    if k == "union":
        rl = [render(sp, x) for x in c[1]]
        if sp == "pep604":
            return ["b", rl]
        if any(t == ["n", "None"] for t in rl):
            non = [t for t in rl if t != ["n", "None"]]
            return ["s", "Optional", [non[0]]] if len(non) == 1 else ["s", "Optional", [["s", "Union", non]]]
        return ["s", "Union", rl]
    return ["n", "object"]


def pr(t):
    if t[0] == "n":
        return t[1]
    if t[0] == "s":
        return t[1] + "[" + ", ".join(pr(x) for x in t[2]) + "]"
    return " | ".join(pr(x) for x in t[1])


def cunion(l):
    flat = []
    for c in l:
        flat += c[1] if c[0] == "union" else [c]
    out = []
    for c in flat:
        if c not in out:
            out.append(c)
    if not out:
        return ["bad"]
    return out[0] if len(out) == 1 else ["union", out]


def denote(t):
    if t[0] == "n":
        return NONE if t[1] == "None" else ["dots"] if t[1] == "..." else A(t[1])
    if t[0] == "b":
        return cunion([denote(x) for x in t[1]])
    n, args = t[1], t[2]
    if n in ("List", "list"):
        return ["list", denote(args[0])] if len(args) == 1 else ["bad"]
    if n in ("Tuple", "tuple"):
        if not args:
            return ["bad"]
        if len(args) == 2 and args[1] == ["n", "..."]:
            return ["tuplevar", denote(args[0])]
        return ["tuple", [denote(x) for x in args]]
    if n in ("Dict", "dict"):
        return ["dict", denote(args[0]), denote(args[1])] if len(args) == 2 else ["bad"]
    if n == "Optional":
        return cunion([denote(args[0]), NONE]) if len(args) == 1 else ["bad"]
    if n == "Union":
        return cunion([denote(x) for x in args])
    return ["bad"]


DELIMS = set("[]|, \t\n\r\x0b\x0c\x1c\x1d\x1e\x1f")


def wf_name(n):
    return n not in RESERVED and n != "" and not (set(n) & DELIMS)


def wf_cty(c):
    k = c[0]
    if k == "atom":
        return wf_name(c[1])
    if k in ("none", "dots", "bad"):
        return False
    if k in ("list", "tuplevar"):
        return wf_cty(c[1])
    if k == "tuple":
        return bool(c[1]) and all(wf_cty(x) for x in c[1])
    if k == "dict":
        return wf_cty(c[1]) and wf_cty(c[2])
    l = c[1]
    return (len(l) >= 2 and NONE not in l[:-1] and all(l[i] not in l[i + 1:] for i in range(len(l)))
            and all(x == NONE or (x[0] != "union" and wf_cty(x)) for x in l))


def in_604_grammar(t):
    c = denote(t)
    return c if wf_cty(c) and pr(render("pep604", c)) == pr(t) else None


def parse_ann(s):
    """annotation text -> written-annotation JSON, through Python's own parser (None: not in the little grammar)."""
    import ast
    try:
        e = ast.parse(s.strip(), mode="eval").body
    except (SyntaxError, ValueError):
        return None

    def go(n):
        if isinstance(n, ast.Name):
            return ["n", n.id]
        if isinstance(n, ast.Constant) and n.value is None:
            return ["n", "None"]
        if isinstance(n, ast.Constant) and n.value is Ellipsis:
            return ["n", "..."]
        if isinstance(n, ast.Subscript) and isinstance(n.value, ast.Name):
            sl = n.slice
            args = list(sl.elts) if isinstance(sl, ast.Tuple) else [sl]
            if not args:
                raise ValueError
            return ["s", n.value.id, [go(a) for a in args]]
        if isinstance(n, ast.BinOp) and isinstance(n.op, ast.BitOr):
            l, r = go(n.left), go(n.right)
            return ["b", (l[1] if l[0] == "b" else [l]) + [r]]
        raise ValueError

    try:
        return go(e)
    except ValueError:
        return None


# ==================================================================================================
# the CLI type grammar with sample command-line values

GOOD = {"int": ["7", "12"], "float": ["2.5", "3"], "str": ["hello", "x1"], "bool": ["true", "false"], "E": ["BLUE", "RED"]}
BAD = {"int": "x1", "float": "y", "bool": "maybe", "E": "GREEN"}
DEFAULT = {"int": "3", "float": "1.5", "str": "'s'", "bool": "False", "E": "E.RED"}


def shapes():
    """name -> (cty, default expr, valid value tokens, invalid value tokens | None, class: core | ext)"""
    out = {}
    atoms = PRIMS + ["E"]
    for p in atoms:
        out[p] = (A(p), DEFAULT[p], [GOOD[p][0]], [BAD[p]] if p in BAD else None, "core")
        out[f"opt-{p}"] = (["union", [A(p), NONE]], "None", [GOOD[p][1]], [BAD[p]] if p in BAD else None, "core")
        out[f"list-{p}"] = (["list", A(p)], "field(default_factory=list)", GOOD[p], [GOOD[p][0], BAD[p]] if p in BAD else None, "core")
        out[f"tupvar-{p}"] = (["tuplevar", A(p)], f"({DEFAULT[p]},)", GOOD[p] + GOOD[p][:1], [BAD[p]] if p in BAD else None, "core")
        out[f"optlist-{p}"] = (["union", [["list", A(p)], NONE]], "None", GOOD[p], [BAD[p]] if p in BAD else None, "core")
        out[f"opttupvar-{p}"] = (["union", [["tuplevar", A(p)], NONE]], "None", GOOD[p], [BAD[p]] if p in BAD else None, "core")
    for a, b in [("int", "str"), ("str", "int"), ("float", "bool"), ("E", "int"), ("bool", "float")]:
        out[f"tup-{a}-{b}"] = (["tuple", [A(a), A(b)]], f"({DEFAULT[a]}, {DEFAULT[b]})", [GOOD[a][0], GOOD[b][0]],
                               [BAD[a], GOOD[b][0]] if a in BAD else [GOOD[a][0]], "core")
        out[f"opttup-{a}-{b}"] = (["union", [["tuple", [A(a), A(b)]], NONE]], "None", [GOOD[a][1], GOOD[b][1]],
                                  [GOOD[a][0]], "core")
    out["tup-int"] = (["tuple", [A("int")]], "(1,)", ["4"], ["q"], "core")
    out["tup-int-float-bool"] = (["tuple", [A("int"), A("float"), A("bool")]], "(1, 1.0, True)", ["2", "2.5", "false"], ["2", "2.5"], "core")
    # one member order per member set: typing caches subscriptions under keys that compare unions as SETS, so
    # Optional[Union[str, int]] evaluated after Optional[Union[int, str]] is the latter object (CPython, not SimpleParsing)
    for ms in [("int", "str"), ("int", "float"), ("float", "str"), ("int", "float", "str"), ("str", "bool"), ("E", "str")]:
        tag = "-".join(ms)
        out[f"union-{tag}"] = (["union", [A(m) for m in ms]], DEFAULT[ms[0]], [GOOD[ms[-1]][0]], None, "core")
        out[f"optunion-{tag}"] = (["union", [A(m) for m in ms] + [NONE]], "None", [GOOD[ms[0]][0]], None, "core")
    out["nested"] = (A("In"), "field(default_factory=In)", None, None, "core")
    out["optnested"] = (["union", [A("In"), NONE]], "None", None, None, "core")
    # lower weight: containers of unions / tuples, dict
    out["list-union"] = (["list", ["union", [A("int"), A("str")]]], "field(default_factory=list)", ["1", "x"], None, "ext")
    out["list-opt"] = (["list", ["union", [A("int"), NONE]]], "field(default_factory=list)", ["1", "2"], ["x"], "ext")
    out["list-tup"] = (["list", ["tuple", [A("int"), A("str")]]], "field(default_factory=list)", ["1", "a", "2", "b"], None, "ext")
    out["tup-union"] = (["tuple", [["union", [A("int"), A("str")]], A("int")]], "(1, 1)", ["x", "2"], ["x", "y"], "ext")
    out["dict"] = (["dict", A("str"), A("int")], "field(default_factory=dict)", None, None, "ext")
    out["optlist-union"] = (["union", [["list", ["union", [A("int"), A("str")]]], NONE]], "None", ["1", "x"], None, "ext")
    return out


SHAPES = shapes()
CORE = [k for k, v in SHAPES.items() if v[4] == "core"]
EXT = [k for k, v in SHAPES.items() if v[4] == "ext"]
NAMES = ["a", "b", "c", "d", "e", "f", "g"]


def mk_field(name, shape, required=False, kind="field", init=True, cmd=True):
    c, dflt, good, bad, _ = SHAPES[shape]
    return dict(name=name, ty=c, default=None if required else dflt, kind=kind, init=init, cmd=cmd, shape=shape)


def gen_tree(rng, shape_first=None, ext_p=0.12):
    n = rng.choice([1, 2, 2, 3, 3, 4, 5])
    fields = []
    for i in range(n):
        if i == 0 and shape_first is not None:
            sh = shape_first
        else:
            sh = rng.choice(EXT) if rng.random() < ext_p else rng.choice(CORE)
        fields.append(mk_field(NAMES[i], sh))
    if sum(1 for f in fields if f["shape"] in ("nested", "optnested")) > 1:
        # one nested member at most (two would share --k / --w and bring conflict resolution in)
        seen = False
        for f in fields:
            if f["shape"] in ("nested", "optnested"):
                if seen:
                    f.update(mk_field(f["name"], rng.choice(["int", "opt-str", "list-int"])))
                seen = True
    # required members come first
    nreq = rng.choice([0, 0, 0, 1, 1, 2])
    req = [f for f in fields[:nreq] if f["shape"] not in ("optnested",) and not f["shape"].startswith("opt")]
    for f in req:
        f["default"] = None
    fields = [f for f in fields if f["default"] is None] + [f for f in fields if f["default"] is not None]
    extras = []
    r = rng.random()
    if r < 0.18:
        sh = rng.choice(["int", "str", "opt-int", "union-int-str", "tup-int-str", "opttupvar-int"])
        extras.append(mk_field("iv", sh, kind="initvar"))
    elif r < 0.28:
        extras.append(mk_field("cv", rng.choice(["int", "str", "opt-int"]), kind="classvar"))
    elif r < 0.38:
        extras.append(mk_field("ni", rng.choice(["int", "opt-str"]), init=False))
    elif r < 0.48:
        extras.append(mk_field("nc", rng.choice(["int", "opt-int", "list-str"]), cmd=False))
    pos = rng.randrange(len([f for f in fields if f["default"] is None]), len(fields) + 1)
    flat = fields[:pos] + extras + fields[pos:]
    for f in flat:
        f.pop("shape_dummy", None)
    # the chain
    depth = rng.choice([2, 2, 3]) if len(flat) >= 2 else 2
    cuts = sorted(rng.sample(range(0, len(flat) + 1), depth - 1)) if len(flat) >= 1 else [0]
    bounds = [0] + cuts + [len(flat)]
    chain = [[dict(f) for f in flat[bounds[i]:bounds[i + 1]]] for i in range(depth)]
    redecl = None
    cands = [(si, fi) for si in range(depth - 1) for fi in range(len(chain[si])) if chain[si][fi]["kind"] == "field"
             and chain[si][fi]["init"] and chain[si][fi]["cmd"]]
    if cands and rng.random() < 0.35:
        si, fi = rng.choice(cands)
        real = chain[si][fi]
        decoy_shape = "int" if real["ty"] != A("int") else "str"
        decoy = mk_field(real["name"], decoy_shape, required=real["default"] is None)
        decoy["decoy"] = True
        chain[si][fi] = decoy
        sj = rng.randrange(si + 1, depth)
        chain[sj].insert(rng.randrange(0, len(chain[sj]) + 1), dict(real))
        redecl = real["name"]
    return flat, chain, redecl


def gen_argvs(rng, flat):
    vis = [f for f in flat if f["kind"] != "classvar" and f["init"] and f["cmd"]]
    argvs = [[]]

    def opt(f, toks):
        return ["--" + f["name"]] + toks

    valued = [f for f in vis if SHAPES[f["shape"]][2] is not None]
    full = []
    for f in vis:
        good = SHAPES[f["shape"]][2]
        if good is not None:
            full += opt(f, good)
        elif f["default"] is None and f["shape"] == "nested":
            pass
    argvs.append(full)
    nested = [f for f in vis if f["shape"] in ("nested", "optnested")]
    req = []
    for f in vis:
        if f["default"] is None and SHAPES[f["shape"]][2] is not None:
            req += opt(f, SHAPES[f["shape"]][2])
    if valued:
        f = rng.choice(valued)
        argvs.append(req + (opt(f, SHAPES[f["shape"]][2]) if f["default"] is not None else []))
    withbad = [f for f in valued if SHAPES[f["shape"]][3] is not None]
    if withbad:
        f = rng.choice(withbad)
        base = [] if f["default"] is None else req
        argvs.append(base + opt(f, SHAPES[f["shape"]][3]))
    if nested:
        argvs.append(req + ["--k", "5", "--w", "u"])
        argvs.append(req + ["--k", "zz"])
    argvs.append(req + ["--nope", "1"])
    if valued:
        f = rng.choice(valued)
        argvs.append(req + ["--" + f["name"]] if f["default"] is not None else ["--" + f["name"]])
    hidden = [f for f in flat if f not in vis]
    if hidden:
        argvs.append(req + ["--" + hidden[0]["name"], "1"])
    out = []
    for a in argvs:
        if a not in out:
            out.append(a)
    return out[:7]


# ---- written annotations for the norm / rw streams ------------------------------------------------

def grammar_types():
    seen, out = [], []
    for k, v in SHAPES.items():
        if v[0] not in seen:
            seen.append(v[0])
            out.append(v[0])
    extra = [
        ["list", ["list", A("int")]], ["list", ["tuplevar", A("int")]], ["tuple", [["list", A("int")], A("str")]],
        ["union", [["list", A("int")], ["tuple", [A("int"), A("str")]], NONE]], ["tuplevar", ["union", [A("int"), NONE]]],
        ["dict", A("str"), ["union", [A("int"), NONE]]], ["dict", A("str"), ["list", ["union", [A("int"), A("str")]]]],
        ["union", [["dict", A("str"), A("int")], NONE]], ["tuple", [["tuple", [A("int"), A("str")]], ["union", [A("int"), A("str")]]]],
        ["list", ["tuple", [["union", [A("int"), A("str")]], A("int")]]], ["union", [["list", ["tuplevar", A("int")]], NONE]],
        ["tuple", [["list", ["union", [A("int"), A("str")]]], A("int")]], ["union", [A("In"), A("E"), NONE]],
        ["list", ["list", ["union", [A("int"), A("str")]]]], ["union", [["tuple", [["union", [A("int"), NONE]], A("str")]], NONE]],
    ]
    return out + [c for c in extra if c not in out]


ATOMS = ["int", "str", "float", "bool", "E", "In", "None"]
BARE = ["list", "tuple", "dict", "List", "Dict"]
HEADS = ["List", "list", "Tuple", "tuple", "Dict", "dict", "Optional", "Union", "Set", "set", "Type", "type"]


def rand_texp(rng, depth):
    r = rng.random()
    if depth <= 0 or r < 0.3:
        return ["n", rng.choice(BARE)] if rng.random() < 0.06 else ["n", rng.choice(ATOMS)]
    if r < 0.55:
        k = rng.choice([2, 2, 2, 3])
        ms = [rand_texp(rng, depth - 1) for _ in range(k)]
        ms = [m for m in ms if m[0] != "b"] or [["n", "int"]]
        if len(ms) < 2:
            ms.append(["n", rng.choice(["None", "str"])])
        return ["b", ms]
    h = rng.choice(HEADS)
    want = {"List": 1, "list": 1, "Set": 1, "set": 1, "Type": 1, "type": 1, "Optional": 1, "Dict": 2, "dict": 2}.get(h)
    if want is None:
        want = rng.choice([1, 2, 2, 3])
    if rng.random() < 0.05:
        want = max(1, want + rng.choice([-1, 1]))
    args = [rand_texp(rng, depth - 1) for _ in range(want)]
    if h in ("Tuple", "tuple") and want == 2 and rng.random() < 0.3:
        args[1] = ["n", "..."]
    return ["s", h, args]


def _unions(t, acc):
    """member texts of every union written in t (bars, Union[..], Optional[..]), flattened one level"""
    if t[0] == "n":
        return
    kids = t[2] if t[0] == "s" else t[1]
    for k in kids:
        _unions(k, acc)
    if t[0] == "b" or (t[0] == "s" and t[1] in ("Union", "Optional")):
        ms = []
        for k in kids:
            if k[0] == "b" or (k[0] == "s" and k[1] in ("Union", "Optional")):
                ms += acc[-1] if acc else []
            ms.append(pr(k))
        if t[0] == "s" and t[1] == "Optional":
            ms.append("None")
        acc.append(ms)


def texp_ok_for_model(t):
    """Keeps the random stream inside what Model/Annot.v `eval` claims to follow exactly: Python compares unions as
    SETS (also when it drops duplicate members and in typing's subscription cache), the model structurally; so two
    unions with the same members in different orders never occur in one expression."""
    acc = []
    _unions(t, acc)
    flat = []
    for ms in acc:
        toks = []
        for m in ms:
            toks += [x.strip() for x in m.replace("Union[", "").replace("Optional[", "").replace("]", "").split("|")]
        flat.append(toks)
    for i in range(len(flat)):
        for j in range(i + 1, len(flat)):
            if flat[i] != flat[j] and sorted(set(" ".join(flat[i]).replace(",", " ").split())) == sorted(set(" ".join(flat[j]).replace(",", " ").split())):
                return False
    return True


def _corpus():
    """corpus/C17/*.json: minimised past failures (kept after the repair), replayed first on every run"""
    import glob
    import os
    d = os.path.join(os.path.dirname(os.path.dirname(os.path.dirname(os.path.abspath(__file__)))), "corpus", "C17")
    out = []
    for f in sorted(glob.glob(os.path.join(d, "*.json"))):
        out += json.load(open(f))["cases"]
    return out


def gen(tier, seed):
    rng = random.Random(f"C17-{seed}")
    quick = tier == "quick"
    cases = _corpus()
    # ---- trees: every shape leads one tree, then random trees
    lead = list(SHAPES)
    n_tree = len(lead) + 10 if quick else 800
    trees = []
    for i in range(n_tree):
        first = lead[i] if i < len(lead) else None
        flat, chain, redecl = gen_tree(rng, first)
        trees.append(dict(kind="tree", flat=flat, chain=chain, redecl=redecl, argvs=gen_argvs(rng, flat),
                          api=rng.choice(["parser", "parse"]), future_spelling=rng.choice(["pep604", "pep604", "typing", "builtin"])))
    cases += trees
    # ---- norm
    gts = grammar_types()
    for c in gts:
        for sp in ("pep604", "typing", "builtin"):
            cases.append(dict(kind="norm", t=render(sp, c)))
    n_norm = 500 if quick else 8000
    got = 0
    while got < n_norm:
        t = rand_texp(rng, rng.choice([1, 2, 2, 3]))
        if t[0] != "n" and texp_ok_for_model(t):
            cases.append(dict(kind="norm", t=t))
            got += 1
    # ---- rw
    for c in gts:
        cases.append(dict(kind="rw", s=pr(render("pep604", c)), check_eval=True))
    n_rw = 250 if quick else 4000
    got = 0
    while got < n_rw:
        t = rand_texp(rng, rng.choice([1, 2, 3]))
        if t[0] != "n" and texp_ok_for_model(t):
            s = pr(t)
            if rng.random() < 0.15:
                s = s.replace(" | ", rng.choice(["|", "  |  ", " |"])).replace(", ", rng.choice([",", ", ", " , "]))
            if rng.random() < 0.1:
                s = " " + s + "  "
            cases.append(dict(kind="rw", s=s, check_eval="|" in s and s == pr(t)))
            got += 1
    alphabet = ["a", "[", "]", "|", ",", " "]
    for n in range(1, 5 if quick else 6):
        for tup in itertools.product(alphabet, repeat=n):
            s = "".join(tup)
            if "|" in s:
                cases.append(dict(kind="rw", s=s, check_eval=False))
    toks = ["a", "b", "int", "list", "[", "]", "|", ",", " ", " | ", ", ", "...", "x[", "]]", "None"]
    for _ in range(150 if quick else 3000):
        s = "".join(rng.choice(toks) for _ in range(rng.randrange(3, 12)))
        cases.append(dict(kind="rw", s=s, check_eval=False))
    return cases


# ==================================================================================================
# implementation side

HEAD = ("from dataclasses import dataclass, field, InitVar\n"
        "from typing import ClassVar, Dict, List, Optional, Tuple, Union\n"
        "import enum\n"
        "from simple_parsing import field as sp_field\n\n")


def _ann(f, sp):
    s = pr(render(sp, f["ty"]))
    if f["kind"] == "initvar":
        return f"InitVar[{s}]"
    if f["kind"] == "classvar":
        return f"ClassVar[{s}]"
    return s


def _field_line(f, sp):
    s = f"    {f['name']}: {_ann(f, sp)}"
    d = f["default"]
    if not f["cmd"]:
        return s + (f" = sp_field(default={d}, cmd=False)" if not d.startswith("field(") else
                    " = sp_field(" + d[len("field("):-1] + ", cmd=False)")
    if not f["init"]:
        return s + (f" = field(default={d}, init=False)" if not d.startswith("field(") else
                    " = field(" + d[len("field("):-1] + ", init=False)")
    if d is not None:
        s += " = " + d
    return s


def render_module(case, style, layout, scope):
    fut = style == "future"
    sp = case["future_spelling"] if fut else style
    lines = ["class E(enum.Enum):", "    RED = 'RED'", "    BLUE = 'BLUE'", "",
             "@dataclass", "class In:", f"    k: {pr(render(sp, A('int')))} = 1",
             f"    w: {pr(render(sp, ['union', [A('str'), NONE]]))} = None", ""]
    segs = [case["flat"]] if layout == "flat" else case["chain"]
    names = [f"Base{i}" for i in range(len(segs) - 1)] + ["Cfg"]
    has_iv = any(f["kind"] == "initvar" for f in case["flat"])
    for i, (nm, seg) in enumerate(zip(names, segs)):
        base = f"({names[i - 1]})" if i else ""
        lines += ["@dataclass", f"class {nm}{base}:"]
        body = [_field_line(f, sp) for f in seg]
        if nm == "Cfg" and has_iv:
            body += ["    iv_seen: str = field(default='', init=False)", "    def __post_init__(self, *a):",
                     "        self.iv_seen = repr(a)"]
        lines += body or ["    pass"]
        lines.append("")
    src = ("from __future__ import annotations\n" if fut else "") + HEAD
    if scope == "module":
        src += "\n".join(lines) + "\n\ndef run(observe):\n    return observe(Cfg, {'Cfg': Cfg, 'In': In, 'E': E})\n"
    else:
        src += "def run(observe):\n" + "\n".join(("    " + ln if ln else "") for ln in lines) + "\n    return observe(Cfg, {'Cfg': Cfg, 'In': In, 'E': E})\n"
    return src


def canon_type(t, ns=None):
    """canonical form of a resolved annotation; a class that merely has the NAME of one of the rendering's own classes
    (E / In / Cfg of another module or of an earlier call) is marked: the declared class is what the statement is about"""
    import types
    import typing
    if t is None or t is type(None):
        return NONE
    if t is Ellipsis:
        return ["dots"]
    if isinstance(t, str):
        return ["atom", "str:" + t]
    o, a = typing.get_origin(t), typing.get_args(t)
    if isinstance(t, types.UnionType) or o is typing.Union:
        return ["union", [canon_type(x, ns) for x in a]]
    if o is list:
        return ["list", canon_type(a[0], ns)] if len(a) == 1 else ["bad"]
    if o is tuple:
        if len(a) == 2 and a[1] is Ellipsis:
            return ["tuplevar", canon_type(a[0], ns)]
        return ["tuple", [canon_type(x, ns) for x in a]]
    if o is dict:
        return ["dict", canon_type(a[0], ns), canon_type(a[1], ns)] if len(a) == 2 else ["bad"]
    if o is not None:
        return ["bad"]
    if isinstance(t, type):
        if ns is not None and t.__name__ in ns and ns[t.__name__] is not t:
            return A(t.__name__ + "!not-the-declared-class")
        return A(t.__name__)
    return ["bad"]


def canonv(v, ns):
    """canonical form of a parsed value: Python type of every part (bool/int, tuple/list, ...), floats by repr, field
    order, and for Enum members / dataclass instances the declared CLASS of this rendering (by identity, not by name)"""
    import dataclasses
    import enum
    import re
    if isinstance(v, bool):
        return {"t": "bool", "v": v}

    def cname(c):
        n = c.__name__
        return n + "!not-the-declared-class" if ns is not None and n in ns and ns[n] is not c else n

    if isinstance(v, enum.Enum):
        return {"t": "enum", "c": cname(type(v)), "v": v.name}
    if isinstance(v, int):
        return {"t": "int", "v": str(v)}
    if isinstance(v, float):
        return {"t": "float", "v": repr(v)}
    if isinstance(v, str):
        return {"t": "str", "v": v}
    if v is None:
        return {"t": "none"}
    if isinstance(v, tuple):
        return {"t": "tuple", "v": [canonv(x, ns) for x in v]}
    if isinstance(v, list):
        return {"t": "list", "v": [canonv(x, ns) for x in v]}
    if isinstance(v, dict):
        return {"t": "dict", "c": type(v).__name__, "v": [[canonv(k, ns), canonv(x, ns)] for k, x in v.items()]}
    if isinstance(v, type):
        return {"t": "class", "c": cname(v)}
    if dataclasses.is_dataclass(v):
        fs = []
        for f in dataclasses.fields(v):
            try:
                fs.append([f.name, canonv(getattr(v, f.name), ns)])
            except AttributeError:
                fs.append([f.name, {"t": "unset"}])
        return {"t": "dc", "c": cname(type(v)), "v": fs}
    return {"t": "other", "c": type(v).__name__, "v": re.sub(r" at 0x[0-9a-fA-F]+", "", repr(v))[:200]}


def rty_of(v):
    import types
    import typing
    if v is None:
        return ["none"]
    if v is Ellipsis:
        return ["dots"]
    names = {list: "OList", tuple: "OTuple", dict: "ODict", set: "OSet", type: "OType"}
    if isinstance(v, types.UnionType):
        return ["utype", [rty_of(x) for x in typing.get_args(v)]]
    o = typing.get_origin(v)
    if o is typing.Union:
        return ["tunion", [rty_of(x) for x in typing.get_args(v)]]
    if isinstance(v, types.GenericAlias) and o in names:
        return ["gen", False, names[o], [rty_of(x) for x in typing.get_args(v)]]
    if isinstance(v, (typing._GenericAlias, typing._SpecialGenericAlias)) and o in names:  # noqa: SLF001
        return ["gen", True, names[o], [rty_of(x) for x in typing.get_args(v)]]
    if isinstance(v, type):
        return ["cls", v.__name__]
    return ["cls", "?" + repr(v)[:60]]


def _digest(o):
    return hashlib.sha1(json.dumps(o, sort_keys=True, default=str).encode()).hexdigest()[:10]


def _word(msg):
    """first identifier-like word of an exception message (NotImplementedError(Ellipsis) -> 'Ellipsis')"""
    import re
    m = re.match(r"[^A-Za-z]*([A-Za-z_]+)", str(msg))
    return m.group(1) if m else ""


def _short(o):
    if o[0] == "ok":
        return "ok"
    if o[0] == "exit":
        return f"exit{o[1]}" + ("" if len(o) < 4 or (o[2] and not o[3]) or o[1] == 0 else f"(stderr={o[2]},stdout={o[3]})")
    return o[0] + ":" + str(o[1]) + (f"({_word(o[2])})" if len(o) > 2 else "")


def _observer(case):
    from implutil import outcome_of, reset_simple_parsing_state

    def observe(cls, ns):
        import dataclasses
        import simple_parsing as sp
        from simple_parsing.wrappers.dataclass_wrapper import _get_dataclass_fields

        def setup():
            p = sp.ArgumentParser()
            p.add_arguments(cls, "cfg")
            w = [w for w in p._wrappers if w.dest == "cfg"][0]
            got, kind = {}, {}
            for fw in w.fields:
                got[fw.field.name] = fw.type
                kind[fw.field.name] = "field"
            for ch in w._children:
                t = ch._field.type
                got[ch._field.name] = t.type if isinstance(t, dataclasses.InitVar) else t
                kind[ch._field.name] = "optchild" if ch.optional else "child"
            names = [f.name for f in _get_dataclass_fields(cls) if f.name in got]
            return [[n, canon_type(got[n], ns)] for n in names], [[n, kind[n]] for n in names]

        def options():
            """what the parser registered: which command lines are accepted does not depend on the sampled argvs only"""
            p = sp.ArgumentParser()
            p.add_arguments(cls, "cfg")
            p._preprocessing(args=[])
            out = []
            for a in p._actions:
                if "-h" in a.option_strings:
                    continue
                out.append([sorted(a.option_strings), a.dest, repr(a.nargs), bool(a.required), canonv(a.default, ns),
                            None if a.choices is None else canonv(list(a.choices), ns), type(a).__name__])
            return {"t": "options", "v": out}

        def full(o):
            # exit: status + which stream the message went to; raise: class + message; ok: the canonical value
            if o[0] == "exit":
                return ["exit", o[1], bool(o[2].strip()), bool(o[3].strip())]
            return o[:3] if o[0] == "raise" else o[:2]

        reset_simple_parsing_state()
        r = outcome_of(setup)
        kinds_ = []
        if r[0] == "ok":
            kinds_ = r[1][1]
            r = ["ok", r[1][0]]
        types_ = r[:2] if r[0] != "raise" else [r[0], r[1], _word(r[2])]
        reset_simple_parsing_state()
        outs = [full(outcome_of(options))]
        for argv in case["argvs"]:
            reset_simple_parsing_state()

            def go():
                if case["api"] == "parse":
                    return canonv(sp.parse(cls, args=argv), ns)
                p = sp.ArgumentParser()
                p.add_arguments(cls, "cfg")
                return canonv(p.parse_args(argv).cfg, ns)

            outs.append(full(outcome_of(go)))
        return types_, kinds_, outs

    return observe


class _Mods:
    """Scratch directory for generated modules: under the check's work dir (removed by the check), else a temp dir."""

    def __init__(self):
        import os
        import sys
        import tempfile
        cwd = os.getcwd()
        if "/.work/" in cwd + "/":
            self.dir = os.path.join(cwd, f"c17mods-{os.getpid()}")
            os.makedirs(self.dir, exist_ok=True)
        else:
            self.dir = tempfile.mkdtemp(prefix="c17mods-")
        sys.path.insert(0, self.dir)
        self.n = 0

    def load(self, src):
        import importlib
        import os
        self.n += 1
        name = f"c17gen_{os.getpid()}_{self.n}"
        with open(os.path.join(self.dir, name + ".py"), "w") as f:
            f.write(src)
        importlib.invalidate_caches()
        return name, importlib.import_module(name)

    def close(self):
        import shutil
        import sys
        if self.dir in sys.path:
            sys.path.remove(self.dir)
        shutil.rmtree(self.dir, ignore_errors=True)


RENDERINGS = [(st, lay, sc) for st in STYLES for lay in ("flat", "chain") for sc in ("module", "func")]


def _run_tree(case, mods):
    import sys
    from implutil import outcome_of
    out = []
    for style, layout, scope in RENDERINGS:
        src = render_module(case, style, layout, scope)
        holder = {}

        def go():
            _fresh_typing()
            name, mod = mods.load(src)
            holder["name"] = name
            return mod.run(_observer(case))

        r = outcome_of(go)
        if r[0] == "ok":
            types_, kinds_, outs = r[1]
        else:  # the module itself could not be imported
            types_, kinds_, outs = ["raise", "import:" + str(r[1])], [], [["raise", "import:" + str(r[1]), ""] for _ in [None] + case["argvs"]]
        sys.modules.pop(holder.get("name", ""), None)
        # outs[0] / digest[0] / vals[0] = the registered options, then one entry per argv; the digest covers the value (or
        # exit status and stream, or exception class), the message of an exception is kept for the classifier only
        out.append(dict(style=style, layout=layout, scope=scope, types=types_, kinds=kinds_, outs=[_short(o) for o in outs],
                        digest=[_digest(o[:2] if o[0] == "raise" else o) for o in outs], vals=outs))
    return dict(rends=out)


def _ns():
    import dataclasses
    import enum
    import sys
    import types
    import typing
    name = "c17_names"
    if name in sys.modules:
        return sys.modules[name]
    m = types.ModuleType(name)
    sys.modules[name] = m
    src = ("import enum, dataclasses\nfrom typing import *\n"
           "class E(enum.Enum):\n    RED = 'RED'\n    BLUE = 'BLUE'\n"
           "@dataclasses.dataclass\nclass In:\n    k: int = 1\n")
    exec(compile(src, "<c17_names>", "exec", dont_inherit=True), m.__dict__)
    return m


def _cls(e):
    return type(e).__name__


def _fresh_typing():
    """typing memoises subscriptions under keys that compare unions as sets (Optional[Union[str, int]] can come back as
    an earlier Optional[Union[int, str]]): every module / expression is evaluated with empty caches so that what is
    observed does not depend on what the worker process evaluated before."""
    import typing
    for f in typing._cleanups:  # noqa: SLF001
        f()


def _run_norm(case):
    from simple_parsing.annotation_utils.get_field_annotations import _replace_UnionType_with_typing_Union as norm
    m = _ns()
    s = pr(case["t"])
    _fresh_typing()
    try:
        v = eval(compile(s, "<ann>", "eval", dont_inherit=True), dict(m.__dict__))
    except Exception as e:  # noqa: BLE001
        return dict(ev=["raise", _cls(e)], norm=["raise", _cls(e)], s=s)
    ev = ["ok", rty_of(v)]
    try:
        n = ["ok", rty_of(norm(v))]
    except Exception as e:  # noqa: BLE001
        n = ["raise", _cls(e)]
    return dict(ev=ev, norm=n, s=s)


def _run_rw(case):
    from simple_parsing.annotation_utils.get_field_annotations import (_get_old_style_annotation,
                                                                       evaluate_string_annotation)
    m = _ns()
    s = case["s"]
    _fresh_typing()
    try:
        rw = ["ok", _get_old_style_annotation(s)]
    except BaseException as e:  # noqa: BLE001
        rw = ["raise", _cls(e)]
    ev = None
    if case["check_eval"]:
        try:
            ev = ["ok", canon_type(evaluate_string_annotation(s, m.In))]
        except BaseException as e:  # noqa: BLE001
            ev = ["raise", _cls(e)]
    return dict(rw=rw, ev=ev)


def run_impl(cases):
    mods = None
    out = []
    try:
        for case in cases:
            if case["kind"] == "tree":
                if mods is None:
                    mods = _Mods()
                out.append(_run_tree(case, mods))
            elif case["kind"] == "norm":
                out.append(_run_norm(case))
            else:
                out.append(_run_rw(case))
    finally:
        if mods is not None:
            mods.close()
    return out


# ==================================================================================================
# spec (Python mirror of CorrC17.spec_ok), Coq emission, bookkeeping

def _visible(decls):
    return [[f["name"], f["ty"]] for f in decls if f["kind"] != "classvar" and f["init"] and f["cmd"]]


def _spec_flat(chain):
    allf = [f for seg in chain for f in seg]
    names = []
    for f in allf:
        if f["name"] not in names:
            names.append(f["name"])
    return [[f for f in allf if f["name"] == n][-1] for n in names]


DCS = ["In"]


def _spec_kind(ty, dnone):
    """Python mirror of AnnotSpec.spec_wkind (None = unsupported)"""
    def is_dc(c):
        return c[0] == "atom" and c[1] in DCS

    def seq(c):
        return (c[0] in ("list", "tuplevar") and is_dc(c[1])) or (c[0] == "tuple" and bool(c[1]) and is_dc(c[1][0]))

    def contains(c):
        return is_dc(c) or seq(c) or (c[0] == "union" and any(contains(x) for x in c[1]))

    if seq(ty):
        return None
    if ty[0] == "union" and all(is_dc(x) for x in ty[1]):
        return "field"
    if is_dc(ty) and not dnone:
        return "child"
    return "optchild" if contains(ty) else "field"


def _want_kinds(decls):
    return [[f["name"], _spec_kind(f["ty"], f["default"] == "None")] for f in decls
            if f["kind"] != "classvar" and f["init"] and f["cmd"]]


def _rw_problem(case, obs):
    t = parse_ann(case["s"])
    c = in_604_grammar(t) if t is not None else None
    if c is None:
        return None
    if obs["rw"][0] != "ok":
        return f"_get_old_style_annotation({case['s']!r}) raised {obs['rw'][1]} on the text of the CLI-grammar type {pr(render('typing', c))}"
    t2 = parse_ann(obs["rw"][1])
    if t2 is None or denote(t2) != c:
        return f"_get_old_style_annotation({case['s']!r}) = {obs['rw'][1]!r}, which does not mean {pr(render('typing', c))}"
    if case["check_eval"] and obs["ev"] != ["ok", c]:
        return f"evaluate_string_annotation({case['s']!r}) gave {obs['ev']}, demanded the type {pr(render('typing', c))}"
    return None


def py_spec(case, obs):
    k = case["kind"]
    if k == "norm":
        c = in_604_grammar(case["t"])
        if c is None or obs["ev"][0] != "ok" or obs["ev"][1][0] != "utype":
            return None
        if obs["norm"][0] != "ok":
            return (f"_replace_UnionType_with_typing_Union({obs['s']}) raised {obs['norm'][1]}; the annotation is the CLI-grammar "
                    f"type {pr(render('typing', c))} written with bars")
        return None if _canon_rty(obs["norm"][1]) == c else f"normalising {obs['s']} changed its meaning: {obs['norm'][1]}"
    if k == "rw":
        return _rw_problem(case, obs)
    want = _visible(_spec_flat(case["chain"]))
    wantk = _want_kinds(_spec_flat(case["chain"]))
    ref = obs["rends"][0]
    for r in obs["rends"]:
        tag = f"{r['style']}/{r['layout']}/{r['scope']}"
        if r["types"] != ["ok", want]:
            return (f"rendering {tag}: field list / resolved types {r['types']} differ from the fields the class denotes "
                    f"{want}")
        if r["kinds"] != wantk:
            return (f"rendering {tag}: members are wrapped as {r['kinds']}, the class denotes {wantk} "
                    "(option / nested group / optional nested group)")
    first = None
    for r in obs["rends"][1:]:
        tag = f"{r['style']}/{r['layout']}/{r['scope']}"
        for i, (argv, a, b, da, db) in enumerate(zip(["<the registered options>"] + case["argvs"], ref["outs"], r["outs"],
                                                     ref["digest"], r["digest"])):
            if da != db:
                msg = (f"argv {argv}: rendering {tag} ended with {b}, rendering typing/flat/module with {a}"
                       + (" (different values)" if a == b else ""))
                if _pair_evidence(case, obs, r, i) is None:
                    return msg          # a deviation that no listed finding explains is named first
                first = first or msg
    return first


def _canon_rty(r):
    k = r[0]
    if k == "cls":
        return NONE if r[1] == "NoneType" else A(r[1])
    if k == "none":
        return NONE
    if k == "dots":
        return ["dots"]
    if k in ("tunion", "utype"):
        return ["union", [_canon_rty(x) for x in r[1]]]
    o, args = r[2], r[3]
    if o == "OList" and len(args) == 1:
        return ["list", _canon_rty(args[0])]
    if o == "OTuple":
        if len(args) == 2 and args[1] == ["dots"]:
            return ["tuplevar", _canon_rty(args[0])]
        return ["tuple", [_canon_rty(x) for x in args]]
    if o == "ODict" and len(args) == 2:
        return ["dict", _canon_rty(args[0]), _canon_rty(args[1])]
    return ["bad"]


def _deviating(case, obs):
    """(spellings whose renderings deviate, only-postponed?, first deviation, [(rendering, index into outs)]) relative to
    what the class denotes / to the typing-generics flat module-scope rendering"""
    want = ["ok", _visible(_spec_flat(case["chain"]))]
    ref = obs["rends"][0]
    dev, what, pairs = set(), None, []

    def eff(r):
        return (case["future_spelling"] if r["style"] == "future" else r["style"], r["style"] == "future")

    wantk = _want_kinds(_spec_flat(case["chain"]))
    for r in obs["rends"]:
        if r["types"] == want and r.get("kinds") != wantk:
            dev.add(eff(r))
            what = what or "setup:kinds"
        if r["types"] != want:
            dev.add(eff(r))
            what = what or ("setup:" + (f"{r['types'][1]}({r['types'][2] if len(r['types']) > 2 else ''})"
                                        if r["types"][0] != "ok" else "types"))
    setup_dev = what is not None
    for r in obs["rends"][1:]:
        for i, (a, b, da, db) in enumerate(zip(ref["outs"], r["outs"], ref["digest"], r["digest"])):
            if da != db:
                pairs.append((r, i))
                if not setup_dev:
                    dev.add(eff(r))
                    what = what or (("options:" if i == 0 else "outcome:") + (b if a != b else "value"))
    return sorted({d[0] for d in dev}), bool(dev) and all(d[1] for d in dev), what, pairs, setup_dev


def _option_tokens(argv, name):
    """the tokens given to --name on this command line (None when the option does not occur)"""
    if "--" + name not in argv:
        return None
    i = argv.index("--" + name) + 1
    j = i
    while j < len(argv) and not argv[j].startswith("--"):
        j += 1
    return argv[i:j]


def _field_value(val, name):
    if not (isinstance(val, dict) and val.get("t") == "dc"):
        return None
    for n, v in val["v"]:
        if n == name:
            return v
    return None


def _nested_union_texts(c, top=True):
    """PEP 604 text of every union written INSIDE a generic of c (not c itself / not c minus its None)"""
    out = []
    k = c[0]
    kids = [c[1]] if k in ("list", "tuplevar") else c[1] if k in ("tuple", "union") else [c[1], c[2]] if k == "dict" else []
    if k == "union" and not top:
        out.append(pr(render("pep604", c)))
    for x in kids:
        out += _nested_union_texts(x, top=(top and k == "union"))
    return out


def _pair_evidence(case, obs, r, i):
    """which LISTED defect explains that rendering r deviates from the reference at outs[i] (None: none of them)"""
    ref = obs["rends"][0]
    flat = [f for f in case["flat"] if f["kind"] != "classvar" and f["init"] and f["cmd"]]
    labels = [None] + case["argvs"]
    sp = case["future_spelling"] if r["style"] == "future" else r["style"]
    a, b = ref["vals"][i], r["vals"][i]
    # where today's code DOES normalise (a string annotation whose top level is a union, not wrapped in InitVar) the
    # nested bar becomes typing.Union and the member works: a failure there is another defect
    nested = [t for f in flat for t in _nested_union_texts(f["ty"])
              if not (r["style"] == "future" and f["ty"][0] == "union" and f["kind"] != "initvar")]
    # (2) a bar nested inside a builtin generic is never normalised: argparse refuses the raw types.UnionType as
    #     type= ("int | str is not callable") when the argument is added, whatever the command line
    msg = b[2] if b[0] == "raise" and len(b) > 2 else ""
    if sp == "pep604" and b[0] == "raise" and b[1] == "ValueError" and msg.endswith(" is not callable") \
            and msg[: -len(" is not callable")] in nested:
        return "nested-bar-uniontype-not-callable"
    # (1) list of fixed tuples written with builtin generics: argparse gets the raw alias `tuple[int, str]` as type=,
    #     which is callable (tuple(token)), so every token becomes a 1-tuple of str; typing.Tuple[..] is not: exit 2
    if sp != "typing" and i and a[0] == "exit" and a[1] == 2 and b[0] == "ok":
        for f in flat:
            toks = _option_tokens(labels[i], f["name"])
            if f["ty"][0] == "list" and f["ty"][1][0] == "tuple" and toks and _field_value(b[1], f["name"]) == \
                    {"t": "list", "v": [{"t": "tuple", "v": [{"t": "str", "v": t}]} for t in toks]}:
                return "list-of-tuple-tokens-become-1-tuples"
    return None


def _known_evidence(case, obs, spellings, pairs, setup_dev):
    """The observations that single out each LISTED defect (everything else keeps the symptom signature, which is
    never listed).  EVERY deviating (rendering, argv) pair must be explained by one of them, each pair on its own
    evidence; existential in the fields, so that the shrinker can drop the other fields / command lines."""
    if setup_dev or not pairs:
        return None
    found = [_pair_evidence(case, obs, r, i) for r, i in pairs]
    return None if None in found else sorted(found)[0]


# ---- the rewriter as it stands, pinned: the listed rewriter findings are exactly the places where THIS algorithm
# asserts / refuses; an exception anywhere else, or a different one, is a different defect -------------------------------

def _ref_old_style(annotation):
    if "|" not in annotation:
        return annotation
    annotation = annotation.strip()
    if "[" not in annotation:
        if "]" in annotation:
            raise AssertionError
        return "Union[" + ", ".join(v.strip() for v in annotation.split("|")) + "]"
    before, lsep, rest = annotation.partition("[")
    middle, rsep, after = rest.rpartition("]")
    if after.strip():
        raise AssertionError
    if "|" in before or "|" in after:
        raise NotImplementedError
    if "|" not in middle:
        raise AssertionError
    if "," in middle:
        middle = ", ".join(_ref_old_style(part.strip()) for part in middle.split(","))
    return before + lsep + _ref_old_style(middle) + rsep + after


def _rw_shape(t):
    """where a printed annotation leaves what the rewriter handles"""
    def has_bar(u):
        return u[0] == "b" or (u[0] == "s" and any(has_bar(x) for x in u[2]))

    def comma_free(u):
        return u[0] == "n" or (u[0] == "s" and len(u[2]) == 1 and comma_free(u[2][0])) or (u[0] == "b" and all(comma_free(x) for x in u[1]))

    def go(u, top):
        if u[0] == "n":
            return None
        if u[0] == "b":
            subs = [i for i, x in enumerate(u[1]) if x[0] != "n"]
            return "bar-with-subscripted-member" if subs else None
        for x in u[2]:
            if has_bar(x):
                if not comma_free(x):
                    return "argument-with-bar-and-comma"
                r = go(x, False)
                if r:
                    return r
        return None

    return go(t, True) or "handled"


def signature(case, obs, reason):
    k = case["kind"]
    if k == "norm":
        text = obs.get("s", "")
        feat = "ellipsis" if "..." in text else "+".join(sorted({h.lower() for h in HEADS if h + "[" in text})) or "plain"
        return "norm:" + (str(obs["norm"][1]) if obs["norm"][0] != "ok" else "meaning") + ":" + feat
    if k == "rw":
        try:
            ref = ["ok", _ref_old_style(case["s"])]
        except (AssertionError, NotImplementedError) as e:
            ref = ["raise", type(e).__name__]
        got = obs["rw"][:2]
        if got != ref:
            return f"rewriter:changed:{got[1] if got[0] != 'ok' else 'text'}-instead-of-{ref[1] if ref[0] != 'ok' else 'text'}"
        if got[0] != "ok":
            t = parse_ann(case["s"])
            return f"rewriter:{got[1]}:{_rw_shape(t) if t is not None else 'unparsed'}"
        return "rewriter:" + ("meaning" if "does not mean" in (reason or "") else "evaluate")
    spellings, postponed_only, what, pairs, setup_dev = _deviating(case, obs)
    ev = _known_evidence(case, obs, spellings, pairs, setup_dev)
    return f"tree:{ev or what}:{'+'.join(spellings)}" + (":postponed-only" if postponed_only else "")


def nontrivial(case, obs):
    k = case["kind"]
    if k == "tree":
        return any(r["types"][0] == "ok" for r in obs["rends"])
    if k == "norm":
        return obs["ev"][0] == "ok"
    return "|" in case["s"]


def features(case, obs):
    k = case["kind"]
    if k == "tree":
        kinds = sorted({f["kind"] for f in case["flat"]} | ({"noinit"} if any(not f["init"] for f in case["flat"]) else set())
                       | ({"nocmd"} if any(not f["cmd"] for f in case["flat"]) else set()))
        return {"kind": k, "fields": len(case["flat"]), "chain": len(case["chain"]), "redecl": case["redecl"] is not None,
                "api": case["api"], "future_spelling": case["future_spelling"], "members": "+".join(kinds),
                "ext": any(f.get("shape") in EXT for f in case["flat"]),
                "all_agree": py_spec(case, obs) is None}
    if k == "norm":
        return {"kind": k, "eval": obs["ev"][0] if obs["ev"][0] != "ok" else obs["ev"][1][0],
                "norm": obs["norm"][0] if obs["norm"][0] == "ok" else obs["norm"][1]}
    return {"kind": k, "rw": obs["rw"][0] if obs["rw"][0] == "ok" else obs["rw"][1], "check_eval": case["check_eval"],
            "len": min(len(case["s"]), 20) // 5 * 5}


# ---- Coq terms ----

def c_cty(c):
    k = c[0]
    if k == "atom":
        return f"(CAtom {cstr(c[1])})"
    if k == "none":
        return "CNone"
    if k == "dots":
        return "CDots"
    if k == "list":
        return f"(CList {c_cty(c[1])})"
    if k == "tuple":
        return f"(CTuple {clist([c_cty(x) for x in c[1]])})"
    if k == "tuplevar":
        return f"(CTupleVar {c_cty(c[1])})"
    if k == "dict":
        return f"(CDict {c_cty(c[1])} {c_cty(c[2])})"
    if k == "union":
        return f"(CUnion {clist([c_cty(x) for x in c[1]])})"
    return "CBad"


def c_texp(t):
    if t[0] == "n":
        return f"(TName {cstr(t[1])})"
    if t[0] == "s":
        return f"(TSub {cstr(t[1])} {clist([c_texp(x) for x in t[2]])})"
    return f"(TBar {clist([c_texp(x) for x in t[1]])})"


def c_rty(r):
    k = r[0]
    if k == "cls":
        return f"(RCls {cstr(r[1])})"
    if k == "none":
        return "RNone"
    if k == "dots":
        return "REllipsis"
    if k == "tunion":
        return f"(RTUnion {clist([c_rty(x) for x in r[1]])})"
    if k == "utype":
        return f"(RUType {clist([c_rty(x) for x in r[1]])})"
    return f"(RGen {cbool(r[1])} {r[2]} {clist([c_rty(x) for x in r[3]])})"


def c_decl(f):
    kind = {"field": "KField", "initvar": "KInitVar", "classvar": "KClassVar"}[f["kind"]]
    return cpair(cstr(f["name"]), f"(mkf {c_cty(f['ty'])} {kind} {cbool(f['init'])} {cbool(f['cmd'])} {cbool(f['default'] == 'None')})")


def _res(o, f):
    if o[0] == "ok":
        return outcome(["ok", f(o[1])])
    if o[0] == "exit":
        return outcome(o[:2])
    return outcome(["raise", str(o[1])])


def to_coq(case, obs):
    k = case["kind"]
    if k == "norm":
        return f"CaseNorm {c_texp(case['t'])} {_res(obs['ev'], c_rty)} {_res(obs['norm'], c_rty)}"
    if k == "rw":
        ev = _res(obs["ev"], c_cty) if obs["ev"] is not None else "(Ok CBad)"
        return f"CaseRw {cstr(case['s'])} {_res(obs['rw'], cstr)} {cbool(case['check_eval'])} {ev}"
    sp_of = {"typing": "SpTyping", "builtin": "SpBuiltin", "pep604": "Sp604"}
    rends = []
    for r in obs["rends"]:
        fut = r["style"] == "future"
        sp = sp_of[case["future_spelling"] if fut else r["style"]]
        types_ = _res(r["types"], lambda l: clist([cpair(cstr(n), c_cty(t)) for n, t in l]))
        wk = {"field": "WField", "child": "WChild", "optchild": "WOptChild"}
        kinds_ = clist([cpair(cstr(n), wk[k]) for n, k in r["kinds"]])
        rends.append(f"(mkrend {sp} {cbool(fut)} {cbool(r['layout'] == 'chain')} {cbool(r['scope'] == 'func')} {types_} "
                     f"{kinds_} {clist([cstr(d) for d in r['digest']])})")
    chain = clist([clist([c_decl(f) for f in seg]) for seg in case["chain"]])
    return f"CaseTree {clist([cstr(d) for d in DCS])} {clist([c_decl(f) for f in case['flat']])} {chain} {clist(rends)}"


# ---- shrinking ----

def _sub_texps(t):
    kids = t[2] if t[0] == "s" else t[1] if t[0] == "b" else []
    for i, kid in enumerate(kids):
        yield kid
        if len(kids) > (2 if t[0] == "b" else 1):
            rest = kids[:i] + kids[i + 1:]
            yield ["s", t[1], rest] if t[0] == "s" else ["b", rest]
        for sub in _sub_texps(kid):
            new = kids[:i] + [sub] + kids[i + 1:]
            yield ["s", t[1], new] if t[0] == "s" else ["b", new]


def shrink(case):
    k = case["kind"]
    if k == "norm":
        for t in itertools.islice(_sub_texps(case["t"]), 20):
            if t[0] != "n":
                yield dict(kind="norm", t=t)
        return
    if k == "rw":
        t = parse_ann(case["s"])
        if t is not None:
            for u in itertools.islice(_sub_texps(t), 20):
                yield dict(kind="rw", s=pr(u), check_eval=case["check_eval"])
        return
    names = [f["name"] for f in case["flat"]]
    if len(names) > 1:
        for n in names:
            flat = [f for f in case["flat"] if f["name"] != n]
            chain = [[f for f in seg if f["name"] != n] for seg in case["chain"]]
            argvs = [a for a in case["argvs"] if "--" + n not in a] or [[]]
            yield dict(case, flat=flat, chain=chain, argvs=argvs, redecl=None if case["redecl"] == n else case["redecl"])
    if len(case["argvs"]) > 1:
        for i in range(len(case["argvs"])):
            yield dict(case, argvs=case["argvs"][:i] + case["argvs"][i + 1:])
    for f in case["flat"]:
        if f["default"] is None and f.get("shape") in SHAPES:
            flat = [dict(g, default=SHAPES[g["shape"]][1]) if g is f else g for g in case["flat"]]
            flat = [g for g in flat if g["default"] is None] + [g for g in flat if g["default"] is not None]
            yield dict(case, flat=flat, chain=[[dict(g) for g in flat], []], redecl=None,
                       argvs=[[]] + [a for a in case["argvs"] if a])
