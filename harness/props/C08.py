"""C08 — a parser's result depends only on its own definition and the argv of that call (process-level histories)."""
from __future__ import annotations

import itertools
import json
import os
import random
import subprocess
import sys

from coqemit import cbool, clist, cnat, copt, cpair, cstr, cstrlist

ID = "C08"
FACTS = ["History", "Conflicts"]
RULE = ("histories over a pool of 2 parsers (thorough: 3) and the alphabet {construct(settings, config-path flag), add_arguments, "
        "parse(valid argv), parse(invalid argv), print_help, format_help}: every well-formed abstract history of length <= 4 "
        "(thorough <= 5) is enumerated (slots first used in order; of the maximal-length ones without any parse one in ten is kept); "
        "the shorter ones are each made concrete once, the maximal-length ones fill a budget of 1500 (thorough 20000) draws from "
        "VERIF_SEED - in the quick tier each about three times, independently (settings from all 18 combinations; dataclasses "
        "{my_x:int}, +name:str, +pair:Tuple[int,str], +model:subgroups(ma|mb) at dest a, {other_y:int}, +tag:str at dest b; 30% of the dest-a classes instead carry container-of-Enum fields List[E]/Optional[E]/Tuple[E,E] over four Enum classes of which three are DISTINCT classes with the SAME qualified name c08cls.Mode (different members, or the same members); observations carry member name, VALUE and whether the member's class is the one the dataclass declares; 15% of the parsers use ConflictResolution.NONE and may then get {my_x:int} at dest b too, so that every set-up raises ConflictResolutionError; valid argv "
        "written in the parser's OWN spelling, optionally naming config files; invalid argv = unknown option, non-int, missing value, "
        "bad choice (the SET-UP fails), bad/short/repeated tuple, field of the other subgroup, stray word, missing or extension-less file, foreign "
        "spelling, --help/-h); plus the standing witnesses of the known defects, the Example of Properties/C08.v and 150 (thorough "
        "2000) random histories of length 5-10 (thorough 5-12) and 80 (thorough 1200) histories of 2-3 parsers that each get a dataclass with its own Enum class - or all the SAME dataclass (subgroup / tuple / plain) - and are set up and parsed one after the other. Plus 160 (thorough 2400) histories of a parser that reads process-global settings - a WITHOUT_ROOT parser with a config-path argument and root-less files, or the same field names at two destinations (AUTO/EXPLICIT/NONE) so that set-up needs the conflict resolver - with a differently configured parser constructed (and used) at every position: before its first parse, between its add_arguments calls, between its parses. EACH HISTORY RUNS IN ITS OWN PROCESS; every parse is compared with "
        "the model AND with a fresh-process run of the same definition + argv (the property's own oracle). Non-trivial = a parse "
        "preceded, since its parser was constructed, by another parse/help of that parser, a late add_arguments or the construction "
        "of another parser; distinct by full case.")
TRUSTED = ["harness/c08_driver.py: each history and each oracle run executes in a child forked from a parent whose only action was "
           "`import simple_parsing` (no parser constructed, no dataclass defined); the child asserts the FieldWrapper class attributes "
           "still have their initial values. C08_FRESH=spawn runs every job in a brand-new interpreter instead (same results)",
           "the slice of argparse (CPython 3.12) in Model/History.v: exact and abbreviated long options, nargs None/2/'*', choices, "
           "int/str conversion, left-to-right error order, help action",
           "read_file: a name without the .json suffix raises RuntimeError, a missing .json file FileNotFoundError"]
ASSUMPTIONS = ["argv tokens are canonical naturals, lower-case words/file names, upper-case Enum member names, long options without '=' and '-h' (in_scope checks it)",
               "config files: a WITHOUT_ROOT parser holding exactly one dataclass (at dest 'a', no subgroup field) names root-less files "
               "({field: value}), every other parser rooted ones ({dest: {field: value}}) and only once dest 'a' is declared; the other "
               "combinations raise or leave stray namespace attributes, paths the model does not follow. Only --config_path files, not the "
               "constructor's config_path=",
               "shared field names across the two destinations go through the conflict resolver model of C03 (Model/OptStr.v with the "
               "regenerated constants of Gen/FactsConflicts.v); tuple / Enum / subgroup classes only at dest 'a'",
               "threads are not modelled: the library has no synchronisation and the property's schedules are API-call interleavings"]
EXHAUSTIVE = {"quick": False, "thorough": False}

# ---- the dataclasses (single source for the Python source text and the Coq terms) ----------------------------------
CLASSES = {
    "K1": [("my_x", "int", 1)],
    "K2": [("my_x", "int", 1), ("name", "str", "d")],
    "K3": [("my_x", "int", 1), ("pair", "tup", (0, "z"))],
    "K4": [("my_x", "int", 1), ("model", "sub", {"alts": [("ma", "MA", "lr_a", 3), ("mb", "MB", "size_b", 5)], "default": "ma"})],
    "L1": [("other_y", "int", 2)],
    "L2": [("other_y", "int", 2), ("tag", "str", "t")],
    "L3": [("my_x", "int", 5)],          # shares a field name with the K classes: only given to NONE-mode parsers
}
# Enum classes; M1, M2, M3 are DISTINCT classes with the SAME qualified name c08cls.Mode (M3 has M1's members)
ENUM_MODULE = "c08cls"
ENUMS = {
    "M1": {"id": 1, "name": "Mode", "members": [("FAST", 1), ("SLOW", 2)]},
    "M2": {"id": 2, "name": "Mode", "members": [("SLOW", 1), ("SAFE", 2)]},
    "M3": {"id": 3, "name": "Mode", "members": [("FAST", 1), ("SLOW", 2)]},
    "CO": {"id": 4, "name": "Color", "members": [("RED", 1), ("BLUE", 2)]},
}
# container-of-Enum fields (these, not plain Enum fields, go through the module-level registry of parsing functions);
# one Enum class per dataclass
CLASSES.update({
    "E1": [("my_x", "int", 1), ("modes", "enum", ("list", "M1"))],
    "E2": [("my_x", "int", 1), ("modes", "enum", ("list", "M2"))],
    "E3": [("my_x", "int", 1), ("modes", "enum", ("list", "M3")), ("opt", "enum", ("opt", "M3"))],
    "E4": [("my_x", "int", 1), ("opt", "enum", ("opt", "M2")), ("pr", "enum", ("pair", "M2"))],
    "E5": [("my_x", "int", 1), ("pr", "enum", ("pair", "M1"))],
    "E6": [("my_x", "int", 1), ("modes", "enum", ("list", "CO"))],
})
E_CLASSES = ["E1", "E2", "E3", "E4", "E5", "E6"]
A_CLASSES, B_CLASSES = ["K1", "K2", "K3", "K4"], ["L1", "L2"]


def enum_render(ename, member):
    e = ENUMS[ename]
    return f"enum:{ENUM_MODULE}.{e['name']}.{member}={dict(e['members'])[member]}"


def enum_default(shape, ename):
    ms = [m for m, _ in ENUMS[ename]["members"]]
    return {"list": "list()", "opt": "none", "pair": f"tuple({enum_render(ename, ms[0])},{enum_render(ename, ms[1])})"}[shape]
# rooted files ({dest: {field: value}}) and root-less ones ({field: value}): a WITHOUT_ROOT parser holding ONE dataclass
# re-roots the content of a file under its destination, every other parser expects rooted files
FILES = {"c1.json": {"a": {"my_x": 7}}, "c2.json": {"a": {"my_x": 8}}, "r1.json": {"my_x": 17}, "r2.json": {"my_x": 18}}
ROOTED, ROOTLESS = ["c1.json", "c2.json"], ["r1.json", "r2.json"]


def file_value(name):
    c = FILES[name]
    return c["my_x"] if "my_x" in c else c["a"]["my_x"]


def files_for(pdef):
    """the config files a parser with this definition may name (None: none), by the rules of CorrC08.in_scope"""
    cfg, cfgarg, adds = pdef
    if not cfgarg:
        return None
    if cfg["nm"] == "WITHOUT_ROOT" and len(adds) == 1:
        c, d = adds[0]
        ok = d == "a" and not any(kd == "sub" for _, kd, _ in CLASSES[c])
        return ROOTLESS if ok else None
    return ROOTED if any(d == "a" for _, d in adds) else None
DASH = ["AUTO", "DASH", "UNDERSCORE_AND_DASH"]
GEN = ["FLAT", "NESTED", "BOTH"]
NM = ["DEFAULT", "WITHOUT_ROOT"]
DEFAULT_CFG = {"dash": "AUTO", "gen": "FLAT", "nm": "DEFAULT"}            # "cr" (AUTO | NONE) is optional, AUTO when absent
NONE_CFG = {"dash": "AUTO", "gen": "FLAT", "nm": "DEFAULT", "cr": "NONE"}


# classes used ONLY by the search that runs when the tie is broken by a translator (judged by the fresh-interpreter oracle alone;
# they have no Coq rendering): a Union whose members overlap on some tokens (seeded change C08-07)
SEARCH_CLASSES = {
    "U1": [("my_x", "int", 1), ("level", "uni", 0)],
    "U2": [("my_x", "int", 1), ("level", "uni", "auto")],
}


def search(seed, tie_broken, _cases):
    """extra histories for the failing-input search: only when a regenerated fact no longer translates (the Coq side is then not
    evaluated), since these classes exist on the Python side only"""
    if not any(t.get("kind") == "translator" for t in tie_broken):
        return []
    out = []
    for cls in SEARCH_CLASSES:
        for argvs in ([["--level", "high"], ["--level", "2"]], [[], ["--level", "2"]], [["--level", "2"], ["--level", "x"], ["--level", "3"]],
                      [["--level", "1.5"], ["--level=7"], []]):
            ops = [["construct", 0, dict(DEFAULT_CFG), False], ["add", 0, cls, "a"]] + [["parse", 0, list(a)] for a in argvs]
            out.append({"ops": ops, "search_only": True})
    return out


def classes_src():
    out = ["import enum", "from dataclasses import dataclass, field", "from typing import List, Optional, Tuple, Union",
           "from simple_parsing import subgroups", ""]
    for en, e in ENUMS.items():
        out.append(f"{en} = enum.Enum({e['name']!r}, {e['members']!r}, module={ENUM_MODULE!r})")
    out.append("")
    subs = {}
    for fields in CLASSES.values():
        for _, kind, d in fields:
            if kind == "sub":
                for key, cls, fname, fdef in d["alts"]:
                    subs[cls] = (fname, fdef)
    for cls, (fname, fdef) in subs.items():
        out += ["@dataclass", f"class {cls}:", f"    {fname}: int = {fdef}", ""]
    for cname, fields in list(CLASSES.items()) + list(SEARCH_CLASSES.items()):
        out += ["@dataclass", f"class {cname}:"]
        for name, kind, d in fields:
            if kind == "uni":
                out.append(f"    {name}: Union[int, str] = {d!r}")
            elif kind == "int":
                out.append(f"    {name}: int = {d}")
            elif kind == "str":
                out.append(f"    {name}: str = {d!r}")
            elif kind == "tup":
                out.append(f"    {name}: Tuple[int, str] = {d!r}")
            elif kind == "enum":
                shape, en = d
                ms = [m for m, _ in ENUMS[en]["members"]]
                out.append({"list": f"    {name}: List[{en}] = field(default_factory=list)",
                            "opt": f"    {name}: Optional[{en}] = None",
                            "pair": f"    {name}: Tuple[{en}, {en}] = ({en}.{ms[0]}, {en}.{ms[1]})"}[shape])
            else:
                alts = ", ".join(f"{k!r}: {c}" for k, c, _, _ in d["alts"])
                out.append(f"    {name}: object = subgroups({{{alts}}}, default={d['default']!r})")
        out.append("")
    return "\n".join(out)


def coq_class(cname):
    fs = []
    for name, kind, d in CLASSES[cname]:
        if kind == "int":
            fs.append(f"mkf {cstr(name)} FInt {cstr('int:%d' % d)}")
        elif kind == "str":
            fs.append(f"mkf {cstr(name)} FStr {cstr('str:' + d)}")
        elif kind == "tup":
            fs.append(f"mkf {cstr(name)} FTup {cstr('tuple(int:%d,str:%s)' % d)}")
        elif kind == "enum":
            shape, en = d
            sh = {"list": "EList", "opt": "EOpt", "pair": "EPair"}[shape]
            fs.append(f"mkf {cstr(name)} (FEnum {sh} enum_{en} false) {cstr(enum_default(shape, en))}")
        else:
            alts = clist([f"mkalt {cstr(k)} {cstr(c)} {cstr(fn)} {cstr('int:%d' % fd)}" for k, c, fn, fd in d["alts"]])
            fs.append(f"mkf {cstr(name)} (FSub {alts} {cstr(d['default'])}) \"\"")
    return f"(mkdc {cstr(cname)} {clist(fs)})"


def coq_files():
    rows = []
    for fname, content in FILES.items():
        kvs = [cpair(cstr(f"{k}.{k2}"), cstr(f"int:{v2}")) for k, v in content.items() if isinstance(v, dict) for k2, v2 in v.items()]
        kvs += [cpair(cstr(k), cstr(f"int:{v}")) for k, v in content.items() if not isinstance(v, dict)]
        rows.append(cpair(cstr(fname), clist(kvs)))
    return clist(rows)


def coq_enum(en):
    e = ENUMS[en]
    ms = clist([cpair(cstr(m), cstr(str(v))) for m, v in e["members"]])
    return f"(mkenum {cnat(e['id'])} {cstr(ENUM_MODULE + '.' + e['name'])} {ms})"


COQ_HEADER = ("From SPV Require Import CorrDefs.CorrC08.\nOpen Scope string_scope.\n"
              + "".join(f"Definition enum_{en} : enumdef := {coq_enum(en)}.\n" for en in ENUMS)
              + "".join(f"Definition cls_{c} : dcls := {coq_class(c)}.\n" for c in CLASSES)
              + f"Definition files_tbl : list (string * kv) := {coq_files()}.")
COQ_CASE_TYPE = "case"

# ---- generator -----------------------------------------------------------------------------------------------------
VALUES_INT = ["0", "3", "4", "12"]
VALUES_STR = ["q", "w", "abc"]


def spellings(cfg, path, name):
    """option strings FieldWrapper.option_strings generates for field `name` below destination path `path`"""
    flat = name
    full = path + [name]
    nested = ".".join(full if cfg["nm"] == "DEFAULT" else full[1:])
    cands = {"FLAT": [flat], "NESTED": [nested], "BOTH": [flat, nested]}[cfg["gen"]]
    out = []
    for c in cands:
        if cfg["dash"] == "DASH":
            out.append("--" + c.replace("_", "-"))
        elif cfg["dash"] == "UNDERSCORE_AND_DASH":
            out += ["--" + c, "--" + c.replace("_", "-")]
        else:
            out.append("--" + c)
    return sorted(set(out))


def other_cfg(rng, cfg):
    while True:
        c = {"dash": rng.choice(DASH), "gen": rng.choice(GEN), "nm": rng.choice(NM)}
        if any(c[k] != cfg[k] for k in c):
            return c


def groups_for(rng, cfg, adds, spell_cfg=None):
    """one [option, values...] group per settable field of the parser, spelled under spell_cfg (default: its own)"""
    sc = spell_cfg or cfg
    groups = {}
    all_names = [n for c, _ in adds for n, _, _ in CLASSES[c]]
    for cname, dest in adds:
        for fname_, kind, d in CLASSES[cname]:
            o = rng.choice(spellings(sc, [dest], fname_))
            if all_names.count(fname_) > 1 and cfg.get("cr", "AUTO") != "NONE":
                # a shared name: the resolver prefixes the option with the destination, whatever the generation mode
                o = rng.choice(spellings({"dash": sc["dash"], "gen": "NESTED", "nm": "DEFAULT"}, [dest], fname_))
            name = fname_ if fname_ not in groups else f"{fname_}@{dest}"
            if kind == "int":
                groups[name] = [o, rng.choice(VALUES_INT)]
            elif kind == "str":
                groups[name] = [o, rng.choice(VALUES_STR)]
            elif kind == "tup":
                groups[name] = [o, rng.choice(VALUES_INT), rng.choice(VALUES_STR)]
            elif kind == "enum":
                shape, en = d
                ms = [m for m, _ in ENUMS[en]["members"]]
                n = {"list": rng.choice([0, 1, 2, 2]), "opt": rng.choice([0, 1, 1]), "pair": 2}[shape]
                groups[name] = [o] + [rng.choice(ms) for _ in range(n)]
                groups[name + ":enum"] = [o, en, shape]
            else:
                key, _, fname, _ = rng.choice(d["alts"])
                groups[name] = [o, key]
                groups[name + ":alt"] = [rng.choice(spellings(sc, [dest, fname_], fname)), rng.choice(VALUES_INT)]
    return groups


def valid_argv(rng, pdef):
    cfg, cfgarg, adds = pdef
    groups = groups_for(rng, cfg, adds)
    names = [n for n in groups if ":" not in n]
    k = rng.choice([0, 1, 1, 2, 2, 3])
    chosen = rng.sample(names, min(k, len(names)))
    seq = []
    for n in chosen:
        seq.append(groups[n])
        if n + ":alt" in groups and rng.random() < 0.6:
            seq.append(groups[n + ":alt"])
    fl = files_for(pdef)
    if fl and rng.random() < 0.6:
        seq.append(["--config_path"] + rng.choice([[fl[0]], [fl[1]], [fl[0], fl[1]], [fl[1], fl[0]], []]))
    rng.shuffle(seq)
    return [t for g in seq for t in g]


def invalid_argv(rng, pdef):
    cfg, cfgarg, adds = pdef
    base = valid_argv(rng, pdef)
    groups = groups_for(rng, cfg, adds)
    kinds = ["unknown", "stray", "help"]
    if groups:
        kinds += ["foreign", "foreign", "missing-value"]
    if any(k in groups for k in ("my_x", "other_y")):
        kinds += ["non-int"]
    if "pair" in groups:
        kinds += ["bad-tuple", "short-tuple", "two-tuples"]
    if "model" in groups:
        kinds += ["bad-choice", "bad-choice", "bad-choice", "wrong-alt"]      # an invalid key makes the SET-UP fail
    fl = files_for(pdef)
    if fl:
        kinds += ["missing-file", "missing-file"]
    enum_fields = sorted(k[:-len(":enum")] for k in groups if k.endswith(":enum"))
    if enum_fields:
        kinds += ["bad-member", "other-enums-member", "other-enums-member"]
    kind = rng.choice(kinds)
    if kind == "unknown":
        return base + ["--bogus"] + ([rng.choice(VALUES_INT)] if rng.random() < 0.5 else [])
    if kind == "stray":
        return base + ["stray"]
    if kind == "help":
        return base + [rng.choice(["--help", "-h"])]
    if kind == "foreign":
        g = groups_for(rng, cfg, adds, spell_cfg=other_cfg(rng, cfg))
        n = rng.choice(sorted(k for k in g if ":" not in k))
        return g[n]
    if kind == "missing-value":
        n = rng.choice(sorted(k for k in groups if ":" not in k))
        return base + [groups[n][0]]
    if kind == "non-int":
        n = rng.choice([k for k in ("my_x", "other_y") if k in groups])
        return [groups[n][0], "zz"] + base
    if kind == "bad-tuple":
        return [groups["pair"][0], "x", "y"]
    if kind == "short-tuple":
        return [groups["pair"][0], "3"]
    if kind == "two-tuples":
        return groups["pair"] + groups["pair"]
    if kind in ("bad-member", "other-enums-member"):
        n = rng.choice(enum_fields)
        o, en, shape = groups[n + ":enum"]
        own = [m for m, _ in ENUMS[en]["members"]]
        foreign = sorted({m for e2 in ENUMS.values() for m, _ in e2["members"]} - set(own))
        bad = "ZZ" if kind == "bad-member" else rng.choice(foreign)
        return [o] + ([bad, rng.choice(own)] if shape != "opt" else [bad])
    if kind == "bad-choice":
        return [groups["model"][0], "zz"]
    if kind == "wrong-alt":
        # choose one group, then set the field of the OTHER group
        key = groups["model"][1]
        other = [a for a in CLASSES["K4"][1][2]["alts"] if a[0] != key][0]
        dest = [d for c, d in adds if c == "K4"][0]
        return groups["model"] + [rng.choice(spellings(cfg, [dest, "model"], other[2])), "4"]
    if kind == "missing-file":
        return ["--config_path"] + rng.choice([["nofile.json"], [fl[0], "nofile.json"], ["nofile.json", fl[0]],
                                               [fl[0], "notes"], ["c2"]])
    raise AssertionError(kind)


def random_cfg(rng):
    r = rng.random()
    if r < 0.3:
        return dict(DEFAULT_CFG)
    if r < 0.45:
        return {"dash": "DASH", "gen": "FLAT", "nm": "DEFAULT"}
    if r < 0.55:
        return {"dash": "AUTO", "gen": "NESTED", "nm": "DEFAULT"}
    return {"dash": rng.choice(DASH), "gen": rng.choice(GEN), "nm": rng.choice(NM)}


def concretise(rng, abstract, enum_bias=False, force_a=None):
    """abstract = [(symbol, slot)], symbol in C A PV PI H F -> concrete ops (ops that cannot be made concrete are dropped)"""
    defs = {}
    ops = []
    for sym, slot in abstract:
        if sym == "C":
            cfg = random_cfg(rng)
            cfgarg = rng.random() < 0.25
            if cfgarg and rng.random() < 0.4:
                cfg["nm"] = "WITHOUT_ROOT"        # config files of such a parser are re-rooted under its only destination
            r = rng.random()
            if r < 0.15:                          # no conflict resolution: a shared field name makes every set-up raise
                cfg["cr"] = "NONE"
            elif r < 0.25:
                cfg["cr"] = "EXPLICIT"
            if defs and rng.random() < 0.25:      # the same settings as an existing parser
                cfg = dict(rng.choice(list(defs.values()))[0])
            defs[slot] = (cfg, cfgarg, [])
            ops.append(["construct", slot, cfg, cfgarg])
            continue
        if slot not in defs:
            continue
        cfg, cfgarg, adds = defs[slot]
        if sym == "A":
            used = [d for _, d in adds]
            free = [d for d in ("a", "b") if d not in used]
            if not free:
                continue
            dest = "a" if ("a" in free and (enum_bias or force_a or len(free) == 1 or rng.random() < 0.8)) else free[-1]
            cname = rng.choice(A_CLASSES if dest == "a" else B_CLASSES)
            used_e = [c for d in defs.values() for c, _ in d[2] if c in E_CLASSES]
            if dest == "a" and rng.random() < (1.0 if enum_bias else 0.85 if used_e else 0.3):
                cname = rng.choice(E_CLASSES)       # once one Enum class is around, the others tend to follow
            if dest == "a" and force_a:
                cname = force_a
            if dest == "b" and rng.random() < (0.6 if cfg.get("cr") == "NONE" else 0.25):
                cname = rng.choice(["L3", "K1", "K2"])      # a field name shared with dest a: set-up needs the conflict resolver
            adds.append((cname, dest))
            ops.append(["add", slot, cname, dest])
        elif sym == "PV":
            ops.append(["parse", slot, valid_argv(rng, defs[slot])])
        elif sym == "PI":
            ops.append(["parse", slot, invalid_argv(rng, defs[slot])])
        elif sym == "H":
            ops.append(["print_help", slot])
        elif sym == "F":
            ops.append(["format_help", slot])
    return ops


def special_history(rng, kind):
    """One parser that depends on process-global settings at set-up / at every parse, with constructions (and uses) of a
    DIFFERENTLY configured parser at every position: before its first parse, between its parses.
    kind "noroot": WITHOUT_ROOT parser with a config-path argument and root-less files (re-rooting reads a nested mode);
    kind "clash":  the same field names at two destinations, so that set-up needs the conflict resolver (which reads the
                   generation mode / dash variant)."""
    if kind == "noroot":
        cfg0 = {"dash": rng.choice(DASH), "gen": rng.choice(GEN), "nm": "WITHOUT_ROOT"}
        cfgarg0, adds0 = True, [(rng.choice(["K1", "K2", "K2", "K3", "E1"]), "a")]
        cfg1 = {"dash": rng.choice(DASH), "gen": rng.choice(GEN), "nm": "DEFAULT"}
    else:
        cfg0 = {"dash": rng.choice(DASH), "gen": rng.choice(["FLAT", "FLAT", "BOTH", "NESTED"]), "nm": rng.choice(["DEFAULT", "DEFAULT", "WITHOUT_ROOT"]),
                "cr": rng.choice(["AUTO", "AUTO", "EXPLICIT", "NONE"])}
        cfgarg0 = rng.random() < 0.2
        adds0 = [(rng.choice(["K1", "K2", "K2", "K4"]), "a"), (rng.choice(["K1", "K2", "L3"]), "b")]
        cfg1 = other_cfg(rng, cfg0)
        if rng.random() < 0.7:
            cfg1["gen"] = rng.choice([g for g in GEN if g != cfg0["gen"]])
    def0 = (cfg0, cfgarg0, [])
    body = [["construct", 0, cfg0, cfgarg0]] + [["add", 0, c, d] for c, d in adds0]
    tail = []
    for _ in range(rng.choice([1, 2, 2, 3])):
        tail.append(rng.choice(["PV", "PV", "PV", "PI", "H"]))
    other = [["construct", 1, cfg1, rng.random() < 0.15]]
    if rng.random() < 0.5:
        oc = rng.choice(["K1", "K2", "K4", "E2"])
        other.append(["add", 1, oc, "a"])
        if rng.random() < 0.6:
            other.append(["parse", 1, valid_argv(rng, (cfg1, other[0][3], [(oc, "a")]))])
    # positions: somewhere after construct 0 (possibly between its add_arguments calls), before or between the parses
    slots = list(range(1, len(body) + len(tail) + 1))
    cut = rng.choice(slots)
    seq = [("op", o) for o in body] + [("sym", t) for t in tail]
    seq = seq[:cut] + [("op", o) for o in other] + seq[cut:]
    if rng.random() < 0.3:                                   # the other parser is constructed once more later on
        seq.insert(rng.randrange(cut, len(seq) + 1), ("op", ["construct", 1, dict(cfg1), False]))
    ops, adds = [], []
    for k, x in seq:
        if k == "op":
            ops.append(x)
            if x[0] == "add" and x[1] == 0:
                adds.append((x[2], x[3]))
            continue
        d = (cfg0, cfgarg0, list(adds))
        if x == "PV":
            ops.append(["parse", 0, valid_argv(rng, d)])
        elif x == "PI":
            ops.append(["parse", 0, invalid_argv(rng, d)])
        else:
            ops.append(["print_help", 0])
    return ops


def abstract_histories(nslots, maxlen):
    syms = [(s, i) for i in range(nslots) for s in ("C", "A", "PV", "PI", "H", "F")]
    out = []

    def rec(prefix, built):
        if prefix:
            out.append(list(prefix))
        if len(prefix) == maxlen:
            return
        for s, i in syms:
            if s == "C":
                if i > 0 and (i - 1) not in built and i not in built:
                    continue          # slots are first used in order (symmetry)
                rec(prefix + [(s, i)], built | {i})
            elif i in built:
                rec(prefix + [(s, i)], built)

    rec([], frozenset())
    return out


WITNESSES = [
    # 10 spelling overwritten by constructing another parser
    [["construct", 0, {"dash": "DASH", "gen": "FLAT", "nm": "DEFAULT"}, False], ["add", 0, "K1", "a"],
     ["construct", 1, dict(DEFAULT_CFG), False], ["parse", 0, ["--my-x", "4"]]],
    # 11 second parse of a parser with a config-path argument
    [["construct", 0, dict(DEFAULT_CFG), True], ["add", 0, "K1", "a"], ["parse", 0, []], ["parse", 0, []]],
    # 12 tuple counter
    [["construct", 0, dict(DEFAULT_CFG), False], ["add", 0, "K3", "a"], ["parse", 0, ["--pair", "3", "x"]],
     ["parse", 0, ["--pair", "3", "x"]]],
    # 13 subgroup frozen by the first argv / by print_help / late add_arguments
    [["construct", 0, dict(DEFAULT_CFG), False], ["add", 0, "K4", "a"], ["parse", 0, ["--model", "mb"]],
     ["parse", 0, ["--model", "ma"]]],
    [["construct", 0, dict(DEFAULT_CFG), False], ["add", 0, "K4", "a"], ["print_help", 0], ["parse", 0, ["--model", "mb"]]],
    [["construct", 0, dict(DEFAULT_CFG), False], ["add", 0, "K1", "a"], ["parse", 0, []], ["add", 0, "L1", "b"],
     ["parse", 0, ["--other_y", "3"]]],
    # 5' config-file defaults persist (read by a call that failed)
    [["construct", 0, dict(DEFAULT_CFG), True], ["add", 0, "K1", "a"], ["parse", 0, ["--config_path", "c1.json", "nofile.json"]],
     ["parse", 0, []]],
    # set-up frozen by print_help before the config file is read
    [["construct", 0, dict(DEFAULT_CFG), True], ["add", 0, "K2", "a"], ["print_help", 0],
     ["parse", 0, ["--config_path", "c1.json"]]],
    # a set-up that fails (invalid subgroup key / NONE-mode clash) must be redone by the next call (seeded change C08-03)
    [["construct", 0, dict(DEFAULT_CFG), False], ["add", 0, "K4", "a"], ["parse", 0, ["--model", "zz"]], ["parse", 0, []]],
    [["construct", 0, dict(DEFAULT_CFG), False], ["add", 0, "K4", "a"], ["parse", 0, ["--model", "zz"]],
     ["parse", 0, ["--model", "mb", "--size_b", "9", "--my_x", "4"]]],
    [["construct", 0, dict(DEFAULT_CFG), False], ["add", 0, "K4", "a"], ["parse", 0, ["--my_x", "3", "--model"]],
     ["print_help", 0], ["parse", 0, ["--model", "mb"]]],
    [["construct", 0, dict(NONE_CFG), False], ["add", 0, "K1", "a"], ["add", 0, "L3", "b"], ["parse", 0, []], ["parse", 0, []]],
    [["construct", 0, dict(NONE_CFG), False], ["add", 0, "K2", "a"], ["add", 0, "L3", "b"], ["print_help", 0],
     ["parse", 0, ["--name", "w"]], ["format_help", 0], ["parse", 0, []]],
    # NONE mode without a clash (nested spelling) works like any other parser
    [["construct", 0, {"dash": "AUTO", "gen": "NESTED", "nm": "DEFAULT", "cr": "NONE"}, False], ["add", 0, "K1", "a"],
     ["add", 0, "L3", "b"], ["parse", 0, ["--a.my_x", "4"]], ["parse", 0, ["--b.my_x", "3"]]],
    # distinct Enum classes with the same qualified name, parsed one after the other (seeded change C08-04)
    [["construct", 0, dict(DEFAULT_CFG), False], ["add", 0, "E1", "a"], ["parse", 0, ["--modes", "FAST", "SLOW"]],
     ["construct", 1, dict(DEFAULT_CFG), False], ["add", 1, "E2", "a"], ["parse", 1, ["--modes", "SLOW"]],
     ["parse", 1, ["--modes", "SAFE", "SLOW"]], ["parse", 1, []]],
    [["construct", 0, dict(DEFAULT_CFG), False], ["add", 0, "E1", "a"], ["print_help", 0],
     ["construct", 0, dict(DEFAULT_CFG), False], ["add", 0, "E4", "a"], ["parse", 0, ["--opt", "SAFE", "--pr", "SLOW", "SAFE"]],
     ["parse", 0, ["--opt"]]],
    [["construct", 0, dict(DEFAULT_CFG), False], ["add", 0, "E5", "a"], ["parse", 0, ["--pr", "SLOW", "FAST"]],
     ["construct", 1, dict(DEFAULT_CFG), False], ["add", 1, "E3", "a"], ["parse", 1, ["--modes", "FAST", "--opt", "SLOW"]],
     ["parse", 0, ["--pr", "FAST", "FAST"]]],
    [["construct", 0, dict(DEFAULT_CFG), False], ["add", 0, "E6", "a"], ["parse", 0, ["--modes", "RED"]],
     ["construct", 1, dict(DEFAULT_CFG), False], ["add", 1, "E2", "a"], ["parse", 1, ["--modes", "SAFE", "--my_x", "3"]],
     ["parse", 1, ["--modes", "RED"]], ["parse", 0, ["--modes", "BLUE", "RED"]]],
    # the config_path attribute of the result is this call's (repaired by /repo 0277e53)
    [["construct", 0, dict(DEFAULT_CFG), True], ["add", 0, "K1", "a"], ["parse", 0, ["--config_path", "c1.json", "--my_x", "3"]],
     ["parse", 0, ["--my_x", "3"]], ["parse", 0, ["--config_path", "--my_x", "3"]]],
    # (seeded C08-06) the nested mode set_defaults looks at must be the parser's own: WITHOUT_ROOT parser + root-less file,
    # another parser constructed before its first parse / before its add_arguments
    [["construct", 0, {"dash": "AUTO", "gen": "FLAT", "nm": "WITHOUT_ROOT"}, True], ["add", 0, "K2", "a"],
     ["construct", 1, dict(DEFAULT_CFG), False], ["parse", 0, ["--config_path", "r1.json"]]],
    [["construct", 0, {"dash": "AUTO", "gen": "FLAT", "nm": "WITHOUT_ROOT"}, True], ["construct", 1, dict(DEFAULT_CFG), False],
     ["add", 0, "K1", "a"], ["add", 1, "K1", "a"], ["parse", 0, ["--config_path", "r2.json", "r1.json", "--my_x", "3"]],
     ["parse", 1, ["--my_x", "4"]]],
    [["construct", 0, dict(DEFAULT_CFG), True], ["add", 0, "K2", "a"],
     ["construct", 1, {"dash": "AUTO", "gen": "FLAT", "nm": "WITHOUT_ROOT"}, False], ["parse", 0, ["--config_path", "c1.json"]]],
    # (seeded C03-06) the conflict resolver must read the parser's own settings: the same class at two destinations,
    # another parser with another generation mode constructed before the first parse
    [["construct", 0, dict(DEFAULT_CFG), False], ["add", 0, "K2", "a"], ["add", 0, "K2", "b"],
     ["construct", 1, {"dash": "AUTO", "gen": "NESTED", "nm": "DEFAULT"}, False], ["parse", 0, ["--a.my_x", "3", "--b.name", "q"]],
     ["parse", 0, []]],
    [["construct", 0, {"dash": "AUTO", "gen": "FLAT", "nm": "DEFAULT", "cr": "EXPLICIT"}, False], ["add", 0, "K1", "a"],
     ["construct", 1, {"dash": "DASH", "gen": "NESTED", "nm": "DEFAULT"}, False], ["add", 0, "K1", "b"], ["print_help", 0],
     ["parse", 0, ["--b.my_x", "4"]]],
    [["construct", 0, dict(NONE_CFG), False], ["add", 0, "K1", "a"], ["add", 0, "L3", "b"],
     ["construct", 1, {"dash": "AUTO", "gen": "NESTED", "nm": "DEFAULT"}, False], ["parse", 0, []]],
    # benign: three parsers interleaved (the Example of Properties/C08.v)
    [["construct", 0, {"dash": "DASH", "gen": "FLAT", "nm": "DEFAULT"}, False], ["add", 0, "K2", "a"], ["parse", 0, ["--my-x", "4"]],
     ["construct", 1, dict(DEFAULT_CFG), True], ["add", 1, "K4", "a"], ["add", 1, "L1", "b"],
     ["parse", 1, ["--config_path", "c1.json", "--model", "mb", "--size_b", "9"]],
     ["construct", 2, {"dash": "AUTO", "gen": "NESTED", "nm": "DEFAULT"}, False], ["add", 2, "K3", "a"], ["print_help", 2],
     ["parse", 2, ["--a.pair", "3", "x"]], ["format_help", 0], ["parse", 0, ["--name", "w", "--my-x", "5"]]],
]


def gen(tier, seed):
    rng = random.Random(f"C08-{seed}")
    cases = [{"ops": json.loads(json.dumps(w))} for w in WITNESSES]
    corpus = os.path.join(os.path.dirname(os.path.dirname(os.path.dirname(os.path.abspath(__file__)))), "corpus", "C08")
    if os.path.isdir(corpus):
        for fn in sorted(os.listdir(corpus)):
            if fn.endswith(".json"):
                cases.append(json.load(open(os.path.join(corpus, fn))))
    nslots, maxlen, nsample, nlong, longmax = (2, 4, 1500, 150, 10) if tier == "quick" else (3, 5, 20000, 2000, 12)
    abstract = abstract_histories(nslots, maxlen)
    # every abstract history below the maximal length once; the maximal length fills the rest of the budget, every one of
    # them at least once when the budget allows (quick: each about three times, made concrete independently)
    short = [h for h in abstract if len(h) < maxlen]
    longest = [h for h in abstract if len(h) == maxlen]
    # a history without any parse says nothing about the property: keep one in ten of those
    longest = [h for h in longest if any(s in ("PV", "PI") for s, _ in h) or rng.random() < 0.1]
    if len(short) > nsample // 5:
        short = rng.sample(short, nsample // 5)
    picks = list(short)
    rng.shuffle(longest)
    budget = nsample - len(picks)
    picks += [longest[i % len(longest)] for i in range(budget)] if len(longest) <= budget else longest[:budget]
    for h in picks:
        ops = concretise(rng, h)
        if ops:
            cases.append({"ops": ops})
    # several parsers whose dataclasses carry their own Enum classes, set up and parsed one after the other
    for _ in range(120 if tier == "quick" else 1800):
        h, built = [], 0
        for _ in range(rng.choice([2, 2, 3])):
            slot = rng.randrange(min(nslots, built + 1))
            built = max(built, slot + 1)
            h += [("C", slot), ("A", slot)] + [(rng.choice(["PV", "PV", "PV", "PI", "H"]), slot) for _ in range(rng.choice([1, 2]))]
        h += [(rng.choice(["PV", "PV", "PI"]), rng.randrange(built)) for _ in range(rng.choice([0, 1, 2]))]
        erng = random.Random(rng.random())
        # ... or that all get the SAME dataclass (same subgroup field, same tuple field): what one parser chose or counted
        # must not reach the next one
        same = erng.choice([None, None, "K4", "K4", "K3", "K2"])
        ops = concretise(erng, h, enum_bias=same is None, force_a=same)
        if ops:
            cases.append({"ops": ops})
    # a parser that reads process-global settings (re-rooting of config files / conflict resolution) with another,
    # differently configured parser constructed at every position
    for i in range(160 if tier == "quick" else 2400):
        cases.append({"ops": special_history(random.Random(rng.random()), "noroot" if i % 2 else "clash")})
    syms = ["C", "A", "A", "PV", "PV", "PV", "PI", "H", "F"]
    for _ in range(nlong):
        n = rng.randint(5, longmax)
        h = [("C", 0)]
        built = {0}
        while len(h) < n:
            s = rng.choice(syms)
            if s == "C":
                i = rng.randrange(min(nslots, len(built) + 1))
                built.add(i)
            else:
                i = rng.choice(sorted(built))
            h.append((s, i))
        cases.append({"ops": concretise(rng, h)})
    return cases


# ---- implementation side -------------------------------------------------------------------------------------------


def defs_before(ops):
    """per op index: the definition (cfg, cfgarg, adds) of the op's parser just before the op (None if no parser)"""
    defs, out = {}, []
    for op in ops:
        slot = op[1]
        d = defs.get(slot)
        out.append(None if d is None else (dict(d[0]), d[1], list(d[2])))
        if op[0] == "construct":
            defs[slot] = (op[2], op[3], [])
        elif op[0] == "add" and d is not None:
            d[2].append((op[2], op[3]))
    return out


def oracle_job(pdef, argv):
    cfg, cfgarg, adds = pdef
    return [["construct", 0, cfg, cfgarg]] + [["add", 0, c, d] for c, d in adds] + [["parse", 0, list(argv)]]


def run_impl(cases):
    here = os.path.dirname(os.path.dirname(os.path.abspath(__file__)))
    jobs, index = [], {}

    def job(ops):
        key = json.dumps(ops, sort_keys=True)
        if key not in index:
            index[key] = len(jobs)
            jobs.append(ops)
        return index[key]

    plan = []
    for case in cases:
        ops = case["ops"]
        h = len(jobs)
        jobs.append(ops)                      # the history itself is never shared
        oracle = []
        for op, d in zip(ops, defs_before(ops)):
            oracle.append(job(oracle_job(d, op[2])) if op[0] == "parse" and d is not None else None)
        plan.append((h, oracle))
    spec = {"classes_src": classes_src(), "files": {k: json.dumps(v) for k, v in FILES.items()}, "jobs": jobs}
    env = dict(os.environ)
    env.setdefault("PYTHONHASHSEED", "0")
    cp = subprocess.run([sys.executable, os.path.join(here, "c08_driver.py")], input=json.dumps(spec), capture_output=True,
                        text=True, env=env)
    if cp.returncode != 0:
        raise RuntimeError(f"c08_driver failed rc={cp.returncode}: {cp.stderr[-3000:]}")
    results = json.loads(cp.stdout)
    if not JUDGE_CONFIG_PATH_ATTR:
        for res in results:
            for o in res:
                if o["r"][0] == "ok" and isinstance(o["r"][1], list):
                    o["r"][1] = [e for e in o["r"][1] if e[0] != "+config_path"]
    out = []
    for h, oracle in plan:
        fresh = [None if j is None else results[j][-1] for j in oracle]
        out.append({"obs": results[h], "fresh": fresh})
    return out


# ---- spec, signatures, Coq emission --------------------------------------------------------------------------------


def _field_ids(opts):
    return sorted({o.lstrip("-").replace("-", "_").split(".")[-1] for o in opts})


def _spelling_differs(h_opts, f_opts):
    """the same field registered under different spellings"""
    hf, ff = {}, {}
    for src, dst in ((h_opts, hf), (f_opts, ff)):
        for o in src:
            dst.setdefault(o.lstrip("-").replace("-", "_").split(".")[-1], set()).add(o)
    return any(hf[k] != ff[k] for k in hf if k in ff)


# Observations that are recorded and counted in the evidence but not (yet) judged - both DO differ from the fresh
# interpreter on the unchanged tree (reported to the coordinator; flip to True once KNOWN_FINDINGS.txt has the lines):
#   aliasing: a default_factory container (modes: List[E] = field(default_factory=list)) returned by one parse IS the object
#             returned by the next parse of the same parser (mutating the first result changes the second)
#   config_path attribute of the namespace: keeps the value of the first call (the help-only argument is added once)
JUDGE_ALIASING = False          # NOT a violation of the statement as written (no "mutate a result" in the operation alphabet,
                                # the values are equal): recorded and counted only
JUDGE_CONFIG_PATH_ATTR = True   # the `+config_path` entry of a result (repaired by /repo 0277e53) is judged like any other


def _extra(o):
    return o.get("extra", [])


def divergences(case, obs):
    out = []
    for k, (op, o, fr) in enumerate(zip(case["ops"], obs["obs"], obs["fresh"])):
        if op[0] != "parse" or o["r"] == ["noparser"]:
            continue
        if fr is None:
            out.append((k, "no-oracle"))
        elif o["r"] != fr["r"]:
            out.append((k, "diverges"))
        elif _extra(o) != _extra(fr):
            out.append((k, "namespace-extra"))
        elif o.get("stream") != fr.get("stream"):
            out.append((k, "stream"))
        elif JUDGE_ALIASING and o.get("aliased"):
            out.append((k, "aliased"))
    return out


def _fid(o):
    return o.lstrip("-").replace("-", "_").split(".")[-1]


def _files_applied(argv):
    """values of a.my_x the named config files set, in order, up to the first file that cannot be read"""
    vals, taking = [], False
    for t in argv:
        if t == "--config_path":
            vals, taking = [], True
        elif t.startswith("-"):
            taking = False
        elif taking:
            if t not in FILES:
                break
            vals.append(file_value(t))
    return vals


def _cfg_tokens(argv):
    """the argument tokens of the last --config_path occurrence"""
    vals, taking = [], False
    for t in argv:
        if t == "--config_path":
            vals, taking = [], True
        elif t.startswith("-"):
            taking = False
        elif taking:
            vals.append(t)
    return vals


def _chosen(argv, model_opts, alts, default):
    key = default
    for t, nxt in zip(argv, list(argv[1:]) + [None]):
        if t in model_opts and nxt in alts:
            key = nxt
    return key


def classify(case, obs, k, why="diverges"):
    """Cause of the divergence at parse k, from what was OBSERVED (never from the model).  Every known label demands the
    evidence of its own mechanism - code path of the exception, which options are registered, which value came back and
    where that value stems from; a divergence with the same symptom but without that evidence is `unexplained`."""
    if case.get("search_only") or any(op[0] == "add" and op[2] in SEARCH_CLASSES for op in case["ops"]):
        # a search-only history (classes without Coq rendering): never a listed finding
        return f"union-field-history:{why}:search-only"
    op, o, fr = case["ops"][k], obs["obs"][k], obs["fresh"][k]
    if fr is None:
        return "no-oracle"
    if why != "diverges":
        return f"unexplained:{why}"
    r, f = o["r"], fr["r"]
    kind = lambda x: x[0] + (str(x[1]) if x[0] != "ok" else "")  # noqa: E731
    unexplained = f"unexplained:{kind(f)}->{kind(r)}"
    slot, argv = op[1], op[2]
    # constructing the parser anew resets everything: only look back to its last construct
    start = max(i for i, p in enumerate(case["ops"][:k]) if p[0] == "construct" and p[1] == slot)
    since = [(p, q) for p, q in list(zip(case["ops"], obs["obs"]))[start:k] if p[1] == slot]
    cfgarg = case["ops"][start][3]
    adds = [(p[2], p[3], bool(q.get("late"))) for p, q in since if p[0] == "add"]
    h_opts, f_opts = o.get("opts", []), fr.get("opts", [])
    both_ok = r[0] == "ok" and f[0] == "ok"
    diff_keys = [kv[0] for kv, kf in zip(r[1], f[1]) if kv != kf] if both_ok and len(r[1]) == len(f[1]) else None
    setup_ops = [(p, q) for p, q in since if q.get("done_after") and p[0] in ("parse", "print_help")]

    if any(q.get("in_setup") and q.get("done_after") for _, q in since):
        # an earlier call's set-up raised, yet the parser is marked as set up: it stays half-built
        return "failed-setup-not-redone"
    if r == ["raise", "ArgumentError"] and f != r and cfgarg and any(p[0] == "parse" for p, _ in since) \
            and "add_argument" in " ".join(o.get("tb", [])):
        return "config-path-readded:ArgumentError"

    # (#12) IndexError raised INSIDE the tuple converter, for an option of a Tuple[int,str] field this argv names, after an
    # earlier parse of this parser converted that field
    if r == ["raise", "IndexError"] and f != r:
        pair_opts = {x for x in h_opts if _fid(x) == "pair"}
        used_before = any(p[0] == "parse" and any(t in pair_opts for t in p[2]) for p, _ in since)
        if "_parse_tuple" in o.get("tb", []) and any(t in pair_opts for t in argv) and used_before:
            return "tuple-counter:IndexError"
        return unexplained

    # the registry of Enum parsing functions: a member of a class the dataclass does not declare came back; or the outcomes
    # differ in kind, another same-named Enum class was set up earlier in the process and this argv names members
    my_enums = {d[1] for c, _, _ in adds for _, kd, d in CLASSES[c] if kd == "enum"}
    if my_enums and not any(l for _, _, l in adds):
        seen = {d[1] for p in case["ops"][:k] if p[0] == "add" for _, kd, d in CLASSES[p[2]] if kd == "enum"}
        others = any(ENUMS[a]["name"] == ENUMS[b]["name"] and a != b for a in my_enums for b in seen)
        if "!foreign" in json.dumps(r):
            return "enum-registry-shared"
        if both_ok and diff_keys and all("enum:" in v for kv, kf in zip(r[1], f[1]) if kv != kf for v in (kv[1], kf[1])) and others:
            return "enum-registry-shared"
        if not both_ok and others and any(t.isupper() for t in argv):
            return "enum-registry-shared"

    # (0277e53) only the config_path attribute differs: the history shows the value of the FIRST call of this parser that got
    # as far as adding the help-only argument, the fresh interpreter this call's
    if cfgarg and both_ok and diff_keys == ["+config_path"]:
        attr_of = lambda a: ("list(" + ",".join("path:" + t for t in _cfg_tokens(a)) + ")") if "--config_path" in a else "none"  # noqa: E731
        firsts = [attr_of(p[2]) for p, q in since if p[0] == "parse" and q["r"] not in (["raise", "FileNotFoundError"], ["raise", "RuntimeError"])]
        got, fresh_val = dict(map(tuple, r[1]))["+config_path"], dict(map(tuple, f[1]))["+config_path"]
        if firsts and got == firsts[0] and fresh_val == attr_of(argv):
            return "config-path-attr-stale"
        return unexplained

    # ---- the set-up / defaults family (#13, #5').  Several of these can act on one parse; each explains ITS share of the
    # difference and needs its own evidence; whatever is left over makes the divergence `unexplained`.
    ids_of = lambda c: {_fid(x) for n, kd, dd in CLASSES[c]  # noqa: E731
                        for x in ["--" + n] + (["--" + a[2] for a in dd["alts"]] if kd == "sub" else [])}
    late_dests = [(c, d) for c, d, l in adds if l] if o.get("done_before") else []
    late_ids = {i for c, _ in late_dests for i in ids_of(c)}
    opt_diff = set(h_opts) ^ set(f_opts)
    fresh_setup_failed = bool(fr.get("in_setup"))

    # (late add_arguments) options only the fresh parser has, all of dataclasses added AFTER the set-up
    early_ids_all = {i for c, _, l in adds if not (l and o.get("done_before")) for i in ids_of(c)}
    # ... plus the options of earlier dataclasses that a fresh parser renames because the late dataclass shares their names
    late_part = {x for x in opt_diff if _fid(x) in late_ids and (x in f_opts or _fid(x) in early_ids_all)}
    if fresh_setup_failed and late_dests:
        # the fresh parser could not even be set up (its registered options say nothing); a NONE-mode clash brought in by
        # the late dataclass is such a failure, and the history must not have registered any option of a late dataclass
        early_ids = {i for c, _, l in adds if not l for i in ids_of(c)}
        clash = any(ids_of(c1) & ids_of(c2) for c1, d1 in late_dests for c2, d2, _ in adds if d2 != d1)
        if f == ["raise", "ConflictResolutionError"] and clash \
                and not any(_fid(x) in late_ids - early_ids for x in h_opts):
            return "setup-frozen:late-add"
        if r == ["raise", "AttributeError"] and "_remove_subgroups_from_namespace" in o.get("tb", []) \
                and any(kd == "sub" for c, _ in late_dests for _, kd, _ in CLASSES[c]) \
                and not any(_fid(x) in late_ids - early_ids for x in h_opts):
            return "setup-frozen:late-add"
        return unexplained
    if not late_dests and _spelling_differs(h_opts, f_opts):
        return "spelling-overwritten"

    # (subgroup) the registered options are those of alternative X, the one the op that DID the set-up selected, while
    # this argv selects Y != X
    subs = [(c, d, n, dd) for c, d, l in adds if not l for n, kd, dd in CLASSES[c] if kd == "sub"]
    sub_part, sub_ok, sub_prefix = set(), False, None
    if subs and o.get("done_before") and setup_ops:
        c, dest, name, dd = subs[0]
        alt_of = {a[2]: a[0] for a in dd["alts"]}
        sub_part = {x for x in opt_diff if _fid(x) in alt_of}
        frozen = {alt_of[_fid(x)] for x in h_opts if _fid(x) in alt_of}
        wanted = {alt_of[_fid(x)] for x in f_opts if _fid(x) in alt_of}
        model_opts = {x for x in h_opts if _fid(x) == name}
        keys = [a[0] for a in dd["alts"]]
        sp = setup_ops[0][0]
        x_sel = _chosen(sp[2] if sp[0] == "parse" else [], model_opts, keys, dd["default"])
        y_sel = _chosen(argv, model_opts, keys, dd["default"])
        sub_ok = len(frozen) == 1 and len(wanted) == 1 and frozen != wanted and frozen == {x_sel} and wanted == {y_sel}
        sub_prefix = f"{dest}.{name}"
    if opt_diff - late_part - (sub_part if sub_ok else set()):
        return unexplained                                    # options differ in a way none of the mechanisms accounts for

    # (config files) a.my_x: the history's value is the one the files had established when the set-up ran (frozen) resp. the
    # one an EARLIER call's files left behind (persist); the fresh value is this call's own
    cfg_label = None
    a_my_x_given = any(t.startswith("-") and _fid(t) == "my_x" and not t.lstrip("-").startswith("b.") for t in argv)
    if cfgarg and both_ok and not a_my_x_given:
        dflt = [d for c, dst, _ in adds if dst == "a" for n, kd, d in CLASSES[c] if n == "my_x"]
        got, fresh_val = dict(map(tuple, r[1])).get("a.my_x"), dict(map(tuple, f[1])).get("a.my_x")
        own = _files_applied(argv)
        if dflt and fresh_val == f"int:{own[-1] if own else dflt[0]}":
            live, frozen_at = None, None
            for p, q in since:
                if p[0] == "parse":
                    v = _files_applied(p[2])
                    live = v[-1] if v else live
                if frozen_at is None and q.get("done_after") and p[0] in ("parse", "print_help"):
                    frozen_at = ("set", live)
            if o.get("done_before") and frozen_at is not None and got == f"int:{frozen_at[1] if frozen_at[1] is not None else dflt[0]}":
                cfg_label = "setup-frozen:config-defaults"
            elif not o.get("done_before") and live is not None and not own and got == f"int:{live}":
                cfg_label = "config-defaults-persist"

    used = set()
    if both_ok:
        if diff_keys is None:
            return unexplained
        for key in diff_keys:
            if late_dests and any(key.startswith(d + ".") for _, d in late_dests):
                used.add("late")
            elif sub_ok and (key.startswith(sub_prefix) or key == "subgroups:" + sub_prefix):
                used.add("sub")
            elif key == "a.my_x" and cfg_label:
                used.add("cfg")
            else:
                return unexplained
    else:
        alt_unreg = {x for x in sub_part if x in f_opts} if sub_ok else set()       # options of the alternative this argv selects
        alt_stale = {x for x in sub_part if x in h_opts} if sub_ok else set()       # options of the frozen alternative
        if r == ["exit", 2] and any(t in late_part for t in argv):          # whatever the fresh parser then makes of it
            used.add("late")
        elif r == ["exit", 2] and f[0] == "ok" and any(t in alt_unreg for t in argv):
            used.add("sub")
        elif r[0] == "ok" and f == ["exit", 2] and any(t in alt_stale for t in argv):
            used.add("sub")
        elif r == ["raise", "AttributeError"] and "_remove_subgroups_from_namespace" in o.get("tb", []) \
                and late_part and any(kd == "sub" for c, _ in late_dests for _, kd, _ in CLASSES[c]):
            used.add("late")
        else:
            return unexplained
    if "late" in used:
        return "setup-frozen:late-add"
    if "sub" in used:
        return "setup-frozen:subgroup"
    if "cfg" in used:
        return cfg_label
    return unexplained


def py_spec(case, obs):
    d = divergences(case, obs)
    if not d:
        return None
    k, why = d[0]
    op, o, fr = case["ops"][k], obs["obs"][k], obs["fresh"][k]
    if why in ("namespace-extra", "stream", "aliased"):
        return (f"operation {k} = parse(parser {op[1]}, {op[2]}): same dataclass values as a fresh interpreter but {why} differs: "
                f"extra={o.get('extra')} stream={o.get('stream')} aliased={o.get('aliased')} vs fresh extra={fr.get('extra')} "
                f"stream={fr.get('stream')} [{classify(case, obs, k, why)}]")
    return (f"operation {k} = parse(parser {op[1]}, {op[2]}) answered {o['r']}; a fresh interpreter answers "
            f"{None if fr is None else fr['r']} for the same definition and argv [{classify(case, obs, k, why)}]")


def signature(case, obs, reason):
    d = divergences(case, obs)
    if not d:
        return "coq-spec-only"
    return classify(case, obs, d[0][0], d[0][1])


def nontrivial(case, obs):
    ops = case["ops"]
    for k, op in enumerate(ops):
        if op[0] != "parse":
            continue
        cons = [i for i, p in enumerate(ops[:k]) if p[0] == "construct" and p[1] == op[1]]
        if not cons:
            continue
        since = ops[cons[-1] + 1:k]
        if any(p[0] in ("parse", "print_help", "format_help") and p[1] == op[1] for p in since) \
                or any(p[0] == "construct" for p in since) \
                or any(q.get("late") for p, q in zip(ops[:k], obs["obs"][:k]) if p[0] == "add" and p[1] == op[1]):
            return True
    return False


def features(case, obs):
    ops = case["ops"]
    d = divergences(case, obs)
    outs = [o["r"][0] + (str(o["r"][1]) if o["r"][0] != "ok" else "") for p, o in zip(ops, obs["obs"]) if p[0] == "parse"]
    return {"len": min(len(ops), 13), "parsers": len({p[1] for p in ops}), "parses": min(sum(p[0] == "parse" for p in ops), 6),
            "has_help": any(p[0] in ("print_help", "format_help") for p in ops),
            "cfgarg": any(p[0] == "construct" and p[3] for p in ops),
            "last_parse": outs[-1] if outs else "none",
            "verdict": classify(case, obs, d[0][0], d[0][1]).split(":")[0] if d else "independent",
            "aliased_result": any(o.get("aliased") for o in obs["obs"]),
            "namespace_extra_differs": any(p[0] == "parse" and fr is not None and o.get("extra") != fr.get("extra")
                                           for p, o, fr in zip(ops, obs["obs"], obs["fresh"]))}


def coq_cfg(c):
    return "(mkcfg %s %s %s)" % ({"AUTO": "DUnderscore", "UNDERSCORE": "DUnderscore", "DASH": "DDash", "UNDERSCORE_AND_DASH": "DBoth"}[c["dash"]],
                                 {"FLAT": "GFlat", "NESTED": "GNested", "BOTH": "GBoth"}[c["gen"]],
                                 {"DEFAULT": "NDefault", "WITHOUT_ROOT": "NWithoutRoot"}[c["nm"]])


def coq_vals(r):
    if r[0] == "ok":
        return "(Ok " + clist([cpair(cstr(k), cstr(v)) for k, v in r[1]]) + ")"
    if r[0] == "exit":
        return f"(Err (Exit {cnat(int(r[1]))}))"
    if r[1] == "ConflictResolutionError":
        return "(Err CRE)"
    return f"(Err (Raise {cstr(r[1])}))"


def coq_obs(op, o):
    r = o["r"]
    if r == ["noparser"]:
        return "ONoParser"
    if op[0] == "construct":
        return "ONone" if r == ["none"] else "(OFail " + coq_vals(r)[len("(Err "):-1] + ")"   # never the model's answer
    if op[0] == "parse":
        return f"(OParse {coq_vals(r)})"
    if r == ["done"]:
        return "ODone"
    return "(OFail " + coq_vals(r)[len("(Err "):-1] + ")"        # add_arguments / print_help / format_help raised


def to_coq(case, obs):
    if any(op[0] == "add" and op[2] in SEARCH_CLASSES for op in case["ops"]):
        # a search-only history (replayed against a tree where the Coq side builds): its classes have no Coq rendering, the
        # fresh-interpreter oracle of py_spec is its only judge; the Coq side gets the empty history, trivially in scope
        return f"mkcase files_tbl {clist([])} {clist([])} {clist([])}"
    ops = []
    for op in case["ops"]:
        if op[0] == "construct":
            cr = {"AUTO": "CRAuto", "NONE": "CRNone", "EXPLICIT": "CRExplicit"}[op[2].get("cr", "AUTO")]
            ops.append(f"Construct {cnat(op[1])} {coq_cfg(op[2])} {cr} {cbool(op[3])}")
        elif op[0] == "add":
            ops.append(f"AddArgs {cnat(op[1])} cls_{op[2]} {cstr(op[3])}")
        elif op[0] == "parse":
            ops.append(f"Parse {cnat(op[1])} {cstrlist(op[2])}")
        elif op[0] == "print_help":
            ops.append(f"PrintHelp {cnat(op[1])}")
        else:
            ops.append(f"FormatHelp {cnat(op[1])}")
    os_ = clist([coq_obs(op, o) for op, o in zip(case["ops"], obs["obs"])])
    fr = clist(["None" if f is None else f"(Some {coq_vals(f['r'])})" for f in obs["fresh"]])
    return f"mkcase files_tbl {clist(ops)} {os_} {fr}"


def shrink(case):
    ops = case["ops"]
    for i in range(len(ops)):
        rest = ops[:i] + ops[i + 1:]
        built, ok = set(), True
        for op in rest:
            if op[0] == "construct":
                built.add(op[1])
            elif op[1] not in built:
                ok = False
                break
        if ok and rest:
            yield {"ops": rest}
    for i, op in enumerate(ops):
        if op[0] == "construct" and op[2] != DEFAULT_CFG and not any(p[0] == "parse" and p[1] == op[1] for p in ops):
            yield {"ops": ops[:i] + [["construct", op[1], dict(DEFAULT_CFG), op[3]]] + ops[i + 1:]}
