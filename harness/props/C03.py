"""C03 — every generated option addresses exactly one field of one destination (conflict resolver)."""
from __future__ import annotations

import itertools
import random

from coqemit import cbool, clist, cnat, copt, cpair, cstr, cstrlist, outcome

ID = "C03"
FACTS = ["Conflicts", "ConflictsSrc"]
COQ_HEADER = "From SPV Require Import CorrDefs.CorrC03."
COQ_CASE_TYPE = "case"
RULE = ("forests of dataclass trees over the name alphabet {a, bb, cc, x} (field names may equal destination names; the same class "
        "reused at several destinations, as sibling members and at different depths), 1-3 destinations, depth <= 2 (thorough <= 4), "
        "width <= 2 (thorough <= 3) x {AUTO, EXPLICIT, NONE} x user prefixes on none/one/all destinations; all forests with <= 2 "
        "destinations, depth <= 1, width <= 2 over {a, bb} are enumerated, the rest is sampled from VERIF_SEED. Every registered "
        "option string is also parsed (`[opt, 42]`) to observe which leaf changes. Non-trivial = at least two fields share a name.")
TRUSTED = ["harness computes the flattened field-wrapper traversal order (checked against the implementation's own order in every case)"]
ASSUMPTIONS = ["all leaf fields are `int` with default 0; distinct top-level destinations"]
EXHAUSTIVE = {"quick": False, "thorough": False}

NAMES = ["a", "bb", "cc", "x"]
DESTS = ["a", "bb", "d1"]


def rand_tree(rng, depth, width, names):
    nf = rng.randint(0 if depth > 0 else 1, width)
    fields = rng.sample(names, min(nf, len(names)))
    kids = []
    if depth > 0:
        nk = rng.randint(0 if fields else 1, width)
        avail = [n for n in names if n not in fields]
        for kn in rng.sample(avail, min(nk, len(avail))):
            kids.append([kn, rand_tree(rng, depth - 1, width, names)])
    if not fields and not kids:
        fields = [rng.choice(names)]
    return {"fields": fields, "kids": kids}


def small_trees(names, depth):
    """all trees with <= 2 fields and <= 1 kid (depth-limited) over names"""
    out = []
    for k in (1, 2):
        for fs in itertools.combinations(names, k):
            out.append({"fields": list(fs), "kids": []})
    if depth > 0:
        subs = small_trees(names, depth - 1)
        for kn in names:
            for sub in subs:
                for fs in ([],) + tuple([f] for f in names if f != kn):
                    out.append({"fields": list(fs), "kids": [[kn, sub]]})
    return out


def gen(tier, seed):
    rng = random.Random(f"C03-{seed}")
    cases = []
    # systematic: the same small tree at two destinations / a tree next to a flat class, every mode
    small = small_trees(["a", "bb"], 1)
    pairs = list(itertools.product(small, small))
    rng.shuffle(pairs)
    for t1, t2 in pairs[: (150 if tier == "quick" else len(pairs))]:
        for mode in ("AUTO", "EXPLICIT", "NONE"):
            cases.append({"mode": mode, "dests": [["a", t1, ""], ["bb", t2, ""]]})
    n = 500 if tier == "quick" else 8000
    for _ in range(n):
        big = tier == "thorough" and rng.random() < 0.3
        depth = rng.randint(0, 4 if big else 2)
        width = 3 if big else 2
        nd = rng.randint(1, 3)
        dests = rng.sample(DESTS, nd)
        shared = rand_tree(rng, depth, width, NAMES)
        items = []
        for d in dests:
            t = shared if rng.random() < 0.6 else rand_tree(rng, rng.randint(0, depth), width, NAMES)
            items.append([d, t, ""])
        r = rng.random()
        if r < 0.15:
            items[rng.randrange(nd)][2] = rng.choice(["p_", "zz.", "a."])
        elif r < 0.25:
            for it in items:
                it[2] = rng.choice(["p_", "zz.", "q"])
        cases.append({"mode": rng.choice(["AUTO", "AUTO", "EXPLICIT", "NONE"]), "dests": items})
    return cases


def flat_fws(case):
    """(path words, name, initial prefix) in the implementation's traversal order"""
    out = []

    def walk(path, tree, prefix):
        for f in tree["fields"]:
            out.append((path, f, prefix))
        for kn, sub in tree["kids"]:
            walk(path + [kn], sub, "")

    for d, t, p in case["dests"]:
        walk([d], t, p)
    return out


# --------------------------------------------------------------------------------------------------


def _classes(case):
    import dataclasses

    memo = {}
    counter = [0]

    def build(tree):
        key = repr(tree)
        if key in memo:
            return memo[key]
        flds = [(f, int, dataclasses.field(default=0)) for f in tree["fields"]]
        for kn, sub in tree["kids"]:
            c = build(sub)
            flds.append((kn, c, dataclasses.field(default_factory=c)))
        counter[0] += 1
        cls = dataclasses.make_dataclass(f"K{counter[0]}", flds)
        memo[key] = cls
        return cls

    return [(d, build(t), p) for d, t, p in case["dests"]]


def _parser(case):
    from simple_parsing import ArgumentParser, ConflictResolution

    p = ArgumentParser(conflict_resolution=ConflictResolution[case["mode"]])
    for d, cls, pref in _classes(case):
        p.add_arguments(cls, d, prefix=pref)
    return p


def _leaves(ns, case):
    out = {}

    def walk(obj, path, tree):
        for f in tree["fields"]:
            out[".".join(path + [f])] = getattr(obj, f)
        for kn, sub in tree["kids"]:
            walk(getattr(obj, kn), path + [kn], sub)

    for d, t, _ in case["dests"]:
        walk(getattr(ns, d), [d], t)
    return out


def run_impl(cases):
    from implutil import outcome_of, reset_simple_parsing_state

    res = []
    for case in cases:
        reset_simple_parsing_state()

        def setup():
            p = _parser(case)
            p._preprocessing(args=[])
            fields = []
            for w in p._wrappers:
                for fw in w.fields:
                    fields.append([w.dest, fw.name, list(fw.option_strings), fw.prefix])
            return p, fields

        r = outcome_of(setup)
        if r[0] != "ok":
            res.append({"setup": r[:2] if len(r) > 1 else r, "fields": [], "effects": []})
            continue
        p, fields = r[1]
        effects = []
        for dest, name, opts, _ in fields:
            for o in opts:
                def parse():
                    return _leaves(p.parse_args([o, "42"]), case)
                rr = outcome_of(parse)
                if rr[0] == "ok":
                    changed = sorted(k for k, v in rr[1].items() if v != 0)
                    bad = [k for k, v in rr[1].items() if v not in (0, 42)]
                    effects.append([o, "ok", changed + (["BAD"] if bad else [])])
                else:
                    effects.append([o, rr[0] + (":" + str(rr[1]) if len(rr) > 1 else ""), []])
        res.append({"setup": ["ok"], "fields": fields, "effects": effects})
    return res


# --------------------------------------------------------------------------------------------------


def _has_user_prefix(case):
    return any(p for _, _, p in case["dests"])


def _initial_clash(case):
    seen = {}
    for path, name, pre in flat_fws(case):
        body = pre + name
        keys = ["--" + body] + (["-" + body] if len(name) == 1 else [])
        for k in keys:
            if k in seen:
                return True
            seen[k] = 1
    return False


def py_spec(case, obs):
    st = obs["setup"]
    mode = case["mode"]
    if st[0] != "ok":
        if st[0] == "cre":
            if mode == "NONE" and not _initial_clash(case):
                return "NONE mode raised although no clash exists"
            return None
        return f"set-up ended with {st} (only ConflictResolutionError is allowed)"
    if mode == "NONE" and _initial_clash(case):
        return "NONE mode accepted a forest that has a clash"
    exp = flat_fws(case)
    got = [(tuple(d.split(".")), n) for d, n, _, _ in obs["fields"]]
    if got != [(tuple(p), n) for p, n, _ in exp]:
        return f"field wrappers are not the declared leaves in declaration order: {got}"
    allopts = [o for _, _, opts, _ in obs["fields"] for o in opts]
    if len(allopts) != len(set(allopts)):
        return "an option string is registered for two fields"
    names = [n for _, n, _ in exp]
    for (path, name, pre), (_, _, opts, _) in zip(exp, obs["fields"]):
        full = list(path) + [name]
        for o in opts:
            body = o.lstrip("-")
            if not _has_user_prefix(case):
                w = body.split(".")
                if w != full[len(full) - len(w):]:
                    return f"option {o} is not a dotted suffix of the destination path {'.'.join(full)}"
                if mode == "EXPLICIT" and len(w) not in (1, len(full)):
                    return f"EXPLICIT produced a partial prefix: {o}"
                if names.count(name) == 1 and len(w) != 1:
                    return f"field {name} clashes with nothing but was renamed to {o}"
    eff = {o: (k, ch) for o, k, ch in obs["effects"]}
    for (path, name, pre), (_, _, opts, _) in zip(exp, obs["fields"]):
        leaf = ".".join(list(path) + [name])
        for o in opts:
            k, ch = eff[o]
            if k != "ok" or ch != [leaf]:
                return f"passing {o} 42 should change exactly {leaf}; observed {k} {ch}"
    return None


def signature(case, obs, reason):
    kind = reason.split(" ")[0:3]
    return f"{case['mode']}:{'userprefix' if _has_user_prefix(case) else 'noprefix'}:{obs['setup'][0]}:" + "-".join(kind).replace("'", "")[:40]


def nontrivial(case, obs):
    names = [n for _, n, _ in flat_fws(case)]
    return len(names) != len(set(names))


def features(case, obs):
    fw = flat_fws(case)
    return {"mode": case["mode"], "ndest": len(case["dests"]), "nfields": min(len(fw), 12),
            "depth": max(len(p) for p, _, _ in fw), "userprefix": _has_user_prefix(case), "setup": obs["setup"][0]}


def to_coq(case, obs):
    fws = clist([f"(mkfw {cstrlist(p)} {cstr(n)} {cstr(pre)} [] false)" for p, n, pre in flat_fws(case)])
    mode = {"AUTO": "CRAuto", "EXPLICIT": "CRExplicit", "NONE": "CRNone"}[case["mode"]]
    st = obs["setup"]
    if st[0] == "ok":
        o = "(Ok " + clist([cstrlist(list(opts)) for _, _, opts, _ in obs["fields"]]) + ")"
    else:
        o = outcome(st)
    dests = clist([cstr(d + "." + n if d else n) for d, n, _, _ in obs["fields"]])
    effects = clist([cpair(cstr(o), cpair(cbool(k == "ok"), cstrlist(ch))) for o, k, ch in obs["effects"]])
    return f"mkcase {mode} {fws} {cbool(_has_user_prefix(case))} {o} {dests} {effects}"


def shrink(case):
    ds = case["dests"]
    if len(ds) > 1:
        for i in range(len(ds)):
            yield {"mode": case["mode"], "dests": ds[:i] + ds[i + 1:]}
    for i, (d, t, p) in enumerate(ds):
        for j in range(len(t["fields"])):
            t2 = {"fields": t["fields"][:j] + t["fields"][j + 1:], "kids": t["kids"]}
            if t2["fields"] or t2["kids"]:
                yield {"mode": case["mode"], "dests": ds[:i] + [[d, t2, p]] + ds[i + 1:]}
        for j in range(len(t["kids"])):
            t2 = {"fields": t["fields"], "kids": t["kids"][:j] + t["kids"][j + 1:]}
            if t2["fields"] or t2["kids"]:
                yield {"mode": case["mode"], "dests": ds[:i] + [[d, t2, p]] + ds[i + 1:]}
        if p:
            yield {"mode": case["mode"], "dests": ds[:i] + [[d, t, ""]] + ds[i + 1:]}
