"""C11 — ALWAYS_MERGE: one shared option distributed over all merged destinations."""
from __future__ import annotations

import glob
import itertools
import json
import os
import random
from decimal import Decimal

from coqemit import cZ, cbool, clist, cnat, copt, cstr, cstrlist, outcome

ID = "C11"
FACTS = ["Merge", "Bool", "DupSrc"]
COQ_HEADER = "From SPV Require Import CorrDefs.CorrC11."
COQ_CASE_TYPE = "case"
RULE = ("real ArgumentParser(conflict_resolution=ALWAYS_MERGE); one field `val` of kind {int,float,str,bool,enum,List[int],List[str],"
        "Tuple[int,int],Tuple[int,...]} x dataclass default (scalars; containers of length 0..4, so every n meets a default of length n; "
        "no default = required) living in a dataclass that reaches n in 2..4 destinations through 6 layouts: flat (same class "
        "registered n times), nested (member of the class registered n times, with/without an own field in the outer class), "
        "twice (n members of one registered class), mixed (top-level registration + members of another class, both orders); "
        "flat also with add_arguments(default=...) on every non-empty subset of destinations.  Command line: option absent, "
        "option with 0..n+1 tokens; tokens from per-kind pools (valid values, bare scalars for containers, bracketed/parenthesised/"
        "comma literals, wrong arity, malformed).  For every (configuration, count) the value tuples are enumerated when the pool^count "
        "is small, else sampled from VERIF_SEED.  Observed: canonical type-distinguishing value of namespace.<dest_i>.val for every i, "
        "or the exception class.  Non-trivial = set-up succeeded and the parse reached the distribution step; distinct by full case.")
TRUSTED = ["Model/MiniPy.v (the interpreter is the reading of Python for the dumped body of FieldWrapper.duplicate_if_needed; itself checked against CPython by ./check MINIPY) and harness/translate/minipy.py (syntax-to-syntax dump, fail closed)",
           "ast.literal_eval of each command-line token is computed by the interpreter under test and handed to the model/spec "
           "(Model/Merge.v `t_lit`)",
           "argparse collects the tokens after the option into one list (nargs '*'/'+'), applies type= per token (ValueError/TypeError/"
           "ArgumentTypeError -> exit 2) and choices; a required option that is absent is exit 2"]
ASSUMPTIONS = ["tokens are printable ASCII without '_' ; a token starting with '-' is a negative number",
               "float tokens are short decimals (no exponent/inf/nan), so repr(float) is the exact decimal"]
EXHAUSTIVE = {"quick": False, "thorough": False}

FIELD = "val"
ENUM = ["RED", "GREEN", "BLUE"]
SCALARS = ["int", "float", "str", "bool", "enum"]
KINDS = SCALARS + ["List[int]", "List[str]", "Tuple[int,int]", "Tuple[int,...]"]
CORPUS = os.path.join(os.path.dirname(os.path.dirname(os.path.dirname(os.path.abspath(__file__)))), "corpus", "C11")


# --------------------------------------------------------------------------------------------------
# values (implutil.canon format), their python source, Coq text and a comparable normal form


def I(z):
    return {"t": "int", "v": str(z)}


def S(s):
    return {"t": "str", "v": s}


def F(r):
    return {"t": "float", "v": r}


def B(b):
    return {"t": "bool", "v": b}


def E(n):
    return {"t": "enum", "c": "Color", "v": n}


def L(*xs):
    return {"t": "list", "v": list(xs)}


def T(*xs):
    return {"t": "tuple", "v": list(xs)}


def to_src(v):
    t = v["t"]
    if t in ("int", "float"):
        return v["v"]
    if t == "str":
        return repr(v["v"])
    if t == "bool":
        return "True" if v["v"] else "False"
    if t == "enum":
        return "Color." + v["v"]
    if t == "list":
        return "[" + ", ".join(to_src(x) for x in v["v"]) + "]"
    if t == "tuple":
        return "(" + ", ".join(to_src(x) for x in v["v"]) + ("," if len(v["v"]) == 1 else "") + ")"
    raise ValueError(v)


def dec_norm(r):
    """repr of a float -> (neg, m, e): (-1)^neg * m * 10^-e with e minimal (exact decimal reading of the repr)."""
    d = Decimal(r)
    sign, digits, exp = d.as_tuple()
    m = int("".join(map(str, digits)) or "0")
    if exp > 0:
        m, exp = m * 10 ** exp, 0
    e = -exp
    while e > 0 and m % 10 == 0:
        m //= 10
        e -= 1
    return (bool(sign), m, e)


def norm(v):
    t = v["t"]
    if t == "int":
        return ("int", int(v["v"]))
    if t == "float":
        if v["v"].lstrip("-") in ("nan", "inf"):
            return ("other", "float:" + v["v"])
        return ("float",) + dec_norm(v["v"])
    if t == "str":
        return ("str", v["v"])
    if t == "bool":
        return ("bool", bool(v["v"]))
    if t == "enum":
        # a member of a class that is not the one this case declared keeps its marker (implutil.canon)
        return ("enum", v["v"]) if v.get("c") == "Color" else ("other", "enum:" + str(v.get("c")) + "." + v["v"])
    if t in ("list", "tuple"):
        return (t, tuple(norm(x) for x in v["v"]))
    return ("other", json.dumps(v, sort_keys=True))


def cval(v):
    t = v["t"]
    if t == "int":
        return f"(VInt {cZ(int(v['v']))})"
    if t == "float":
        if v["v"].lstrip("-") in ("nan", "inf"):
            return f"(VStr {cstr('<unmodelled:float:' + v['v'] + '>')})"
        neg, m, e = dec_norm(v["v"])
        return f"(VFloat {cbool(neg)} {cZ(m)} {cnat(e)})"
    if t == "str":
        return f"(VStr {cstr(v['v'])})"
    if t == "bool":
        return f"(VBool {cbool(v['v'])})"
    if t == "enum":
        if v.get("c") != "Color":
            return f"(VStr {cstr('<unmodelled:enum:' + str(v.get('c')) + '>')})"
        return f"(VEnum {cstr(v['v'])})"
    if t == "list":
        return f"(VList {clist([cval(x) for x in v['v']])})"
    if t == "tuple":
        return f"(VTuple {clist([cval(x) for x in v['v']])})"
    return f"(VStr {cstr('<unmodelled:' + t + '>')})"


def ckind(k):
    return {"int": "KInt", "float": "KFloat", "str": "KStr", "bool": "KBool", "enum": f"(KEnum {cstrlist(ENUM)})",
            "List[int]": "(KList EInt)", "List[str]": "(KList EStr)", "Tuple[int,int]": "(KTuple EInt (Some 2%nat))",
            "Tuple[int,...]": "(KTuple EInt None)"}[k]


def clit(l):
    if l is None:
        return "None"
    return f"(Some {_clit(l)})"


def _clit(l):
    if l[0] == "int":
        return f"(LInt {cZ(int(l[1]))})"
    if l[0] == "str":
        return f"(LStr {cstr(l[1])})"
    if l[0] == "seq":
        return f"(LSeq {cbool(l[1])} {clist([_clit(x) for x in l[2]])})"
    return "LOther"


# --------------------------------------------------------------------------------------------------
# generator

DEFAULTS = {
    "int": [I(5), None],
    "float": [F("0.5")],
    "str": [S("s")],
    "bool": [B(False), B(True), None],
    "enum": [E("RED")],
    "List[int]": [L(), L(I(4)), L(I(1), I(2)), L(I(1), I(2), I(3)), L(I(1), I(2), I(3), I(4)), None],
    "List[str]": [L(), L(S("a"), S("b")), L(S("a"), S("b"), S("c")), L(S("a"), S("b"), S("c"), S("d"))],
    "Tuple[int,int]": [T(I(1), I(2))],
    "Tuple[int,...]": [T(), T(I(1), I(2)), T(I(1), I(2), I(3)), T(I(1), I(2), I(3), I(4))],
}
# (core pool: used for the enumerated/sampled value tuples, odd pool: every token also tried alone and mixed in)
POOLS = {
    "int": (["1", "-2", "30"], ["x", "1.5", ""]),
    "float": (["1", "2.5", "-0.25"], [".5", "10.", "x", "1.2.3", "+3.50"]),
    "str": (["a", "bc", "1"], ["[1,2]", "", "a b"]),
    "bool": (["true", "0", "Yes"], ["n", "F", "maybe", " true", "2"]),
    "enum": (["RED", "GREEN", "BLUE"], ["PINK", "red", ""]),
    "List[int]": (["[7,8]", "[9]", "7"], ["[]", "(1,2)", "7,8", "-3", "[1,2,3]", "[1,2,3,4]", "7 8", "[7 8]", "x", "[7,8", "[78", "78]", "[x]",
                                          "[[1],[2]]", "'3'", "['3']", ""]),
    "List[str]": (["['p','q']", "['r']", "p"], ["[]", "q", "1", "'p'", "[p,q]", "p,q", "p q", "[1,2]", "('p','q')", ""]),
    "Tuple[int,int]": (["(3,4)", "(5,6)", "3"], ["[3,4]", "3,4", "(3,4,5)", "(3,)", "()", "4", "x", "('3','4')"]),
    "Tuple[int,...]": (["(3,4)", "(5,)", "3"], ["()", "(3,4,5)", "[3,4]", "4", "x", "3,4"]),
}
LAYOUT_NS = {"flat": [2, 3, 4], "nested": [2, 3, 4], "nested_noown": [2, 3], "twice": [2, 3, 4],
             "mixed_first": [2, 3], "mixed_last": [2, 3]}
REDUCED = ["int", "enum", "List[int]", "Tuple[int,...]"]


def dests_of(layout, n):
    if layout == "flat":
        return [f"d{i}" for i in range(n)]
    if layout in ("nested", "nested_noown"):
        return [f"d{i}.c" for i in range(n)]
    if layout == "twice":
        return [f"t.m{i}" for i in range(n)]
    if layout == "mixed_first":
        return ["top"] + [f"t.m{i}" for i in range(n - 1)]
    if layout == "mixed_last":
        return [f"t.m{i}" for i in range(n - 1)] + ["top"]
    raise ValueError(layout)


def mk(layout, n, kind, default, cli, explicit=None):
    return dict(layout=layout, n=n, kind=kind, default=default, explicit=explicit or [None] * n, cli=cli)


def value_tuples(rng, kind, count, cap):
    core, odd = POOLS[kind]
    if count == 0:
        return [[]]
    space = len(core) ** count
    if space <= cap:
        out = [list(t) for t in itertools.product(core, repeat=count)]
    else:
        out = []
        seen = set()
        while len(out) < cap:
            t = tuple(rng.choice(core) for _ in range(count))
            if t not in seen:
                seen.add(t)
                out.append(list(t))
    return out


def corpus_cases():
    out = []
    for p in sorted(glob.glob(os.path.join(CORPUS, "*.json"))):
        d = json.load(open(p))
        out.append(d["case"] if "case" in d else d)
    return out


def gen(tier, seed):
    rng = random.Random(f"C11-{seed}")
    quick = tier == "quick"
    cap = 2 if quick else 81
    cases = corpus_cases()
    for layout, ns in LAYOUT_NS.items():
        for n in ns:
            if layout in ("flat", "nested"):
                kinds = KINDS
            elif layout.startswith("mixed"):
                kinds = ["int", "List[int]"]
            else:
                kinds = REDUCED if quick else KINDS
            for kind in kinds:
                dfl = DEFAULTS[kind]
                if layout != "flat":
                    dfl = [d for d in dfl if d is not None]        # a member built by default_factory needs a default
                if layout.startswith("mixed"):
                    dfl = [I(5)] if kind == "int" else [L(I(9))]
                elif quick and layout not in ("flat", "nested"):
                    dfl = [d for d in dfl if d["t"] not in ("list", "tuple") or len(d["v"]) in (1, n)] or dfl[:1]
                for default in dfl:
                    cases.append(mk(layout, n, kind, default, None))
                    pool_kind = kind
                    for count in range(0, n + 2):
                        for toks in value_tuples(rng, pool_kind, count, cap):
                            if layout.startswith("mixed"):
                                toks = [t if t != "7" else "[5]" for t in toks]    # keep the mixed layouts on literals only
                            cases.append(mk(layout, n, kind, default, toks))
                    # every odd token alone, and one odd token inside an n-tuple of core values
                    if layout in ("flat", "nested") and (not quick or default is dfl[0]):
                        core, odd = POOLS[kind]
                        for o in odd:
                            cases.append(mk(layout, n, kind, default, [o]))
                            if not quick or n == 2:
                                pos = rng.randrange(n)
                                toks = [rng.choice(core) for _ in range(n)]
                                toks[pos] = o
                                cases.append(mk(layout, n, kind, default, toks))
    # ONE bracketed literal whose length is exactly n (and n-1, n+1): must reach every destination whole
    for layout in ("flat", "nested", "nested_noown", "twice"):
        for n in LAYOUT_NS[layout]:
            for kind, mkitems, dfl in (("List[int]", lambda k: [str(10 + j) for j in range(k)], L(I(1), I(2))),
                                       ("List[str]", lambda k: [repr("w%d" % j) for j in range(k)], L(S("a"), S("b"))),
                                       ("Tuple[int,...]", lambda k: [str(10 + j) for j in range(k)], T(I(1), I(2)))):
                for k in (n, n - 1, n + 1):
                    for o, c in (("[", "]"), ("(", ")")):
                        inner = ",".join(mkitems(k)) + ("," if (o == "(" and k == 1) else "")
                        cases.append(mk(layout, n, kind, dfl, [o + inner + c]))
    # add_arguments(default=...) on every non-empty subset of the destinations (flat layout)
    expl = {
        "int": (I(5), [I(10), I(11), I(12), I(13)], ["1", "2", "3", "4"]),
        "str": (S("s"), [S("ab"), S("cd"), S("ef"), S("gh")], ["a", "b", "c", "d"]),
        "List[int]": (L(I(1), I(2)), [L(I(10)), L(I(11), I(11)), L(I(12), I(12), I(12)), L()], ["[7]", "[8,8]", "[9]", "[]"]),
        "Tuple[int,int]": (T(I(1), I(2)), [T(I(10), I(10)), T(I(11), I(11)), T(I(12), I(12)), T(I(13), I(13))],
                           ["(7,7)", "(8,8)", "(9,9)", "(6,6)"]),
    }
    for kind, (cd, evs, toks) in expl.items():
        for n in ([2, 3] if quick else [2, 3, 4]):
            for k in range(1, n + 1):
                for sub in itertools.combinations(range(n), k):
                    ex = [evs[i] if i in sub else None for i in range(n)]
                    cases.append(mk("flat", n, kind, cd, None, ex))
                    cases.append(mk("flat", n, kind, cd, toks[:1], ex))
                    cases.append(mk("flat", n, kind, cd, toks[:n], ex))
                    if not quick:
                        cases.append(mk("flat", n, kind, cd, toks[:n - 1] if n > 2 else [], ex))
            if kind == "List[int]":
                for n2 in (2, 3):      # an explicit default whose length equals n
                    ex = [L(*[I(20 + j) for j in range(n2)])] + [None] * (n2 - 1)
                    cases.append(mk("flat", n2, kind, cd, None, ex))
    # de-duplicate, keep order
    seen, out = set(), []
    for c in cases:
        key = json.dumps(c, sort_keys=True)
        if key not in seen:
            seen.add(key)
            out.append(c)
    return out


# --------------------------------------------------------------------------------------------------
# implementation side


def _source(case):
    kind, d, layout, n = case["kind"], case["default"], case["layout"], case["n"]
    kind = "Color" if kind == "enum" else kind
    if d is None:
        fld = f"    {FIELD}: {kind}"
    elif d["t"] == "list":
        fld = f"    {FIELD}: {kind} = field(default_factory=lambda: {to_src(d)})"
    else:
        fld = f"    {FIELD}: {kind} = {to_src(d)}"
    src = ["from enum import Enum", "from dataclasses import dataclass, field", "from typing import List, Tuple", "",
           "class Color(Enum):", "    RED = 1", "    GREEN = 2", "    BLUE = 3", ""]
    if layout == "flat":
        src += ["@dataclass", "class A:", fld, ""]
    else:
        src += ["@dataclass", "class In:", fld, ""]
        if layout == "nested":
            src += ["@dataclass", "class A:", "    other: int = 0", "    c: In = field(default_factory=In)", ""]
        elif layout == "nested_noown":
            src += ["@dataclass", "class A:", "    c: In = field(default_factory=In)", ""]
        else:
            k = n if layout == "twice" else n - 1
            src += ["@dataclass", "class T:"] + [f"    m{i}: In = field(default_factory=In)" for i in range(k)] + [""]
    return "\n".join(src)


def _lit(tok):
    import ast

    try:
        v = ast.literal_eval(tok)
    except BaseException:  # noqa: BLE001
        return None
    return _enc_lit(v)


def _enc_lit(v):
    if isinstance(v, bool):
        return ["other"]
    if isinstance(v, int):
        return ["int", str(v)] if abs(v) < 10 ** 15 else ["other"]
    if isinstance(v, str):
        return ["str", v] if all(32 <= ord(ch) < 127 for ch in v) else ["other"]
    if isinstance(v, (list, tuple)):
        return ["seq", isinstance(v, tuple), [_enc_lit(x) for x in v]]
    return ["other"]


def run_impl(cases):
    from implutil import canon, outcome_of, reset_simple_parsing_state, set_current_ns

    out = []
    for case in cases:
        reset_simple_parsing_state()
        layout, n = case["layout"], case["n"]
        dests = dests_of(layout, n)
        argv = [] if case["cli"] is None else ["--" + FIELD] + list(case["cli"])
        extra = {}

        def go():
            import simple_parsing.utils as sp_utils
            from simple_parsing import ArgumentParser, ConflictResolution

            ns = {}
            exec(compile(_source(case), "<c11>", "exec", dont_inherit=True), ns)
            set_current_ns(ns)          # canon(): an Enum member must belong to the class THIS case declared
            p = ArgumentParser(conflict_resolution=ConflictResolution.ALWAYS_MERGE)
            try:
                if layout in ("flat", "nested", "nested_noown"):
                    for i in range(n):
                        ex = case["explicit"][i]
                        if ex is not None:
                            p.add_arguments(ns["A"], f"d{i}", default=ns["A"](**{FIELD: eval(to_src(ex), ns)}))
                        else:
                            p.add_arguments(ns["A"], f"d{i}")
                elif layout == "twice":
                    p.add_arguments(ns["T"], "t")
                elif layout == "mixed_first":
                    p.add_arguments(ns["In"], "top")
                    p.add_arguments(ns["T"], "t")
                else:
                    p.add_arguments(ns["T"], "t")
                    p.add_arguments(ns["In"], "top")
                res = p.parse_args(argv)
            except Exception as e:  # noqa: BLE001
                # the property names the library's InconsistentArgumentError, not any class of that name
                if type(e).__name__ == "InconsistentArgumentError" and type(e) is not sp_utils.InconsistentArgumentError:
                    raise RuntimeError("an InconsistentArgumentError that is not simple_parsing.utils.InconsistentArgumentError")
                raise
            holder = "A" if layout == "flat" else "In"
            vals, objs = [], []
            for d in dests:
                v = res
                for part in d.split("."):
                    v = getattr(v, part)
                x = getattr(v, FIELD)
                objs.append(x)
                c = canon(x)
                if type(v) is not ns[holder]:       # the destination must hold an instance of the registered class
                    c = {"t": "other", "c": type(v).__name__, "v": "destination object is not an instance of the registered class"}
                vals.append(c)
            # namespace attributes literally named like a dotted destination (never reachable as namespace.t.m0)
            stray = {}
            for d in dests:
                if "." in d and d in vars(res):
                    sv = vars(res)[d]
                    stray[d] = canon(getattr(sv, FIELD)) if hasattr(sv, FIELD) else {"t": "other", "c": type(sv).__name__, "v": ""}
            extra["stray"] = stray
            # sharing between destinations (evidence only: the statement does not speak about object identity)
            extra["alias"] = any(isinstance(a, (list,)) and a is b for i, a in enumerate(objs) for b in objs[i + 1:])
            return vals

        r = outcome_of(go)
        o = dict(obs=r[:2], dests=dests, argv=argv, stray=extra.get("stray", {}), alias=extra.get("alias", False),
                 msg=(r[2] if r[0] == "raise" else ""),
                 streams=([bool(r[2].strip()), bool(r[3].strip())] if r[0] == "exit" else None),
                 lits=None if case["cli"] is None else [_lit(t) for t in case["cli"]])
        out.append(o)
    return out


# --------------------------------------------------------------------------------------------------
# spec (Python mirror of Model/MergeSpec.v)

WORDS_T = ["yes", "true", "t", "y", "1"]
WORDS_F = ["no", "false", "f", "n", "0"]
WS = " \t\n\r\x0b\x0c\x1c\x1d\x1e\x1f"


def _parse_int(s):
    s = s.strip(WS)
    body = s[1:] if s[:1] in ("-", "+") else s
    if body == "" or not all(ch in "0123456789" for ch in body):
        return None
    return -int(body) if s[:1] == "-" else int(body)


def _parse_dec(s):
    s = s.strip(WS)
    neg = s[:1] == "-"
    body = s[1:] if s[:1] in ("-", "+") else s
    ip, _, fp = body.partition(".")
    if "." in fp or not all(ch in "0123456789" for ch in ip + fp) or ip + fp == "":
        return None
    m, e = int(ip + fp), len(fp) if "." in body else 0
    while e > 0 and m % 10 == 0:
        m //= 10
        e -= 1
    return ("float", neg, m, e)


def _padded(s):
    return s.strip(WS) != s


def _plain_word(s):
    return s != "" and all(ch not in WS and ch not in "[](),'\"" for ch in s)


def _unbalanced(s):
    """A token whose brackets do not match cannot be read as a sequence of ints."""
    return s.count("[") != s.count("]") or s.count("(") != s.count(")")


def _has_letter(s):
    return any(("A" <= ch <= "Z") or ("a" <= ch <= "z") for ch in s)


NODEN, UNSPEC = ("noden",), ("unspec",)


def _scalar(kind, raw):
    if kind == "int":
        if _padded(raw):
            return UNSPEC
        z = _parse_int(raw)
        return NODEN if z is None else ("int", z)
    if kind == "float":
        if _padded(raw):
            return UNSPEC
        d = _parse_dec(raw)
        return NODEN if d is None else d
    if kind == "str":
        return ("str", raw)
    if kind == "bool":
        if _padded(raw):
            return UNSPEC
        w = raw.lower()
        return ("bool", True) if w in WORDS_T else ("bool", False) if w in WORDS_F else NODEN
    if kind == "enum":
        return ("enum", raw) if raw in ENUM else NODEN
    raise ValueError(kind)


def _container(kind, raw, lit):
    is_tup = kind.startswith("Tuple")
    e = "str" if kind == "List[str]" else "int"
    arity = 2 if kind == "Tuple[int,int]" else None

    def wrap(items):
        if arity is not None and len(items) != arity:
            return NODEN
        return ("tuple" if is_tup else "list", tuple(items))

    if lit is not None and lit[0] == "seq":
        items, unspec = [], False
        for it in lit[2]:
            if it[0] == "seq":
                return NODEN
            if it[0] == e:
                items.append(("int", int(it[1])) if e == "int" else ("str", it[1]))
            else:
                unspec = True
        return UNSPEC if unspec else wrap(items)
    if lit is not None and lit[0] == "int":
        if e == "int":
            return wrap([("int", int(lit[1]))])
        return wrap([("str", raw)]) if _plain_word(raw) else UNSPEC
    if lit is not None and lit[0] == "str":
        return wrap([("str", lit[1])]) if e == "str" else UNSPEC
    if lit is not None:
        return UNSPEC
    if e == "str":
        return wrap([("str", raw)]) if _plain_word(raw) else UNSPEC
    return NODEN if (_has_letter(raw) or _unbalanced(raw)) else UNSPEC


def spec_expect(case, obs):
    n = case["n"]
    kind = case["kind"]
    if case["cli"] is None:
        dfl = [e if e is not None else case["default"] for e in case["explicit"]]
        if any(d is None for d in dfl):
            return ("reject",)
        return ("be", [norm(d) for d in dfl])
    dens = []
    for raw, lit in zip(case["cli"], obs["lits"]):
        dens.append(_scalar(kind, raw) if kind in SCALARS else _container(kind, raw, lit))
    if NODEN in dens or not dens:
        return ("reject",)
    if UNSPEC in dens:
        return ("unspecified",)
    if len(dens) == 1:
        return ("be", dens * n)
    if len(dens) == n:
        return ("be", dens)
    return ("inconsistent",)


def observed_norm(obs):
    o = obs["obs"]
    if o[0] == "ok":
        return ("ok", [norm(v) for v in o[1]])
    if o[0] == "exit":
        return ("exit", o[1])
    if o[0] == "raise":
        return ("raise", o[1])
    return (o[0],)


def py_spec(case, obs):
    e = spec_expect(case, obs)
    o = observed_norm(obs)
    soft = o in (("exit", 2), ("inconsistent",))
    where0 = f"argv {obs['argv']} on {case['layout']} n={case['n']} {case['kind']}"
    if o == ("exit", 2) and obs.get("streams") is not None and (not obs["streams"][0] or obs["streams"][1]):
        return f"a rejection (exit 2) must be reported on stderr and leave stdout empty, observed stderr/stdout non-empty = {obs['streams']}: {where0}"
    where = f"argv {obs['argv']} on {case['layout']} n={case['n']} {case['kind']} default={_show(case['default'])}" + \
            (f" explicit={[_show(x) for x in case['explicit']]}" if any(x is not None for x in case["explicit"]) else "")
    if e[0] == "be":
        if o != ("ok", e[1]):
            return f"expected {_shown(e[1])} at {obs['dests']}, observed {_showo(o)}: {where}"
    elif e[0] == "reject":
        if not soft:
            return f"expected rejection (exit 2), observed {_showo(o)}: {where}"
    elif e[0] == "inconsistent":
        if o != ("inconsistent",):
            return f"expected InconsistentArgumentError, observed {_showo(o)}: {where}"
    else:
        if not (o[0] == "ok" or soft):
            return f"no exception other than a rejection may escape, observed {_showo(o)}: {where}"
    return None


def _show(v):
    return None if v is None else to_src(v)


def _shown(vs):
    return [_shown_one(v) for v in vs]


def _shown_one(v):
    if v[0] in ("list", "tuple"):
        inner = ", ".join(str(_shown_one(x)) for x in v[1])
        return "[" + inner + "]" if v[0] == "list" else "(" + inner + ")"
    if v[0] == "float":
        return f"float:{'-' if v[1] else ''}{v[2]}e-{v[3]}"
    return f"{v[0]}:{v[1]}"


def _showo(o):
    if o[0] == "ok":
        return str(_shown(o[1]))
    return ":".join(str(x) for x in o)


# ----- what each LISTED finding predicts, exactly.  A known signature is returned only when the observation equals that
# prediction (values, exception class AND message, the stray namespace attribute ...); the same symptom with another
# cause falls through to a generic signature and is reported.


def _by_count(n, vals):
    if vals is None:
        return None
    if len(vals) == 1:
        return list(vals) * n
    if len(vals) == n:
        return list(vals)
    return None


def _token_values(case, obs):
    """Per token, the value the converter of a merged container field builds today: a bracketed literal gives the container,
    a BARE literal gives T(literal) unwrapped (the listed defect), a plain word of a str list gives [word]."""
    kind = case["kind"]
    is_tup = kind.startswith("Tuple")
    e = "str" if kind == "List[str]" else "int"
    out = []
    for raw, lit in zip(case["cli"], obs["lits"]):
        if lit is not None and lit[0] == "seq":
            items = []
            for it in lit[2]:
                if it[0] == e:
                    items.append(("int", int(it[1])) if e == "int" else ("str", it[1]))
                elif e == "int" and it[0] == "str" and _parse_int(it[1]) is not None:
                    items.append(("int", _parse_int(it[1])))            # int('3')
                else:
                    return None
            items = tuple(items)
            out.append(("tuple" if is_tup else "list", items))
        elif lit is not None and lit[0] == "int":
            out.append(("int", int(lit[1])) if e == "int" else ("str", str(int(lit[1]))))
        elif lit is not None and lit[0] == "str" and e == "str":
            out.append(("str", lit[1]))
        elif lit is None and e == "str" and _plain_word(raw):
            out.append(("tuple" if is_tup else "list", (("str", raw),)))
        else:
            return None
    return out


def _has_bare(obs):
    return any(l is not None and l[0] in ("int", "str") for l in obs["lits"])


def _explicit_prediction(case):
    """ALWAYS_MERGE with add_arguments(default=...): the merged wrapper keeps the defaults list of the FIRST destination only."""
    n, ex, cd = case["n"], case["explicit"], case["default"]
    es = [norm(x) for x in ex if x is not None]
    if ex[0] is None:
        return ("ok", [norm(cd)] * n)                      # defaults of later destinations are ignored
    if len(es) == 1:
        return ("ok", es * n)                              # the first destination's default is replicated
    if len(es) == n:
        return ("ok", es)
    if case["kind"] in SCALARS:
        return ("AssertionError",)
    return ("ok", [("tuple" if case["kind"].startswith("Tuple") else "list", tuple(es))] * n)   # the partial list, nested


def signature(case, obs, reason):
    e = spec_expect(case, obs)
    o = observed_norm(obs)
    layout, kind, n = case["layout"], case["kind"], case["n"]
    cont = kind not in SCALARS
    msg = obs.get("msg", "")
    okind = o[0] if o[0] != "raise" else o[1]
    if o[0] == "exit":
        okind = f"exit{o[1]}"
    if reason and reason.startswith("a rejection (exit 2) must be reported on stderr"):
        return "rejection:wrong-stream"
    explicit = any(x is not None for x in case["explicit"])
    if layout.startswith("mixed"):
        if layout == "mixed_last" and o == ("raise", "ValueError") and msg == "list.remove(x): x not in list":
            return "mixed-level-merge:least-nested-registered-later:ValueError"
        if layout == "mixed_first" and o[0] == "ok" and e[0] == "be" and case["default"] is not None:
            # evidence of the listed path: `top` is right, every nested destination shows the class default, AND the value it
            # should have received sits in a namespace attribute literally named like the destination
            cd = norm(case["default"])
            want_obs = [e[1][0]] + [cd] * (n - 1)
            stray = [norm(obs.get("stray", {}).get(d)) if obs.get("stray", {}).get(d) is not None else None for d in obs["dests"][1:]]
            if o[1] == want_obs and stray == e[1][1:]:
                return "mixed-level-merge:value-lost-at-nested-destination"
        return f"mixed-level-merge:{layout}:{e[0]}:{okind}"
    if explicit:
        pred = _explicit_prediction(case)
        first_and_proper_subset = case["explicit"][0] is not None and 2 <= sum(1 for x in case["explicit"] if x is not None) < n
        if pred == ("AssertionError",) and first_and_proper_subset and o == ("raise", "AssertionError") \
                and msg.startswith("Not the same number of default values and destinations"):
            return "explicit-default:proper-subset-with-first:AssertionError"
        if case["cli"] is None and o[0] == "ok" and pred == o:
            return "explicit-default:absent:wrong-defaults"
        return f"explicit-default:{'absent' if case['cli'] is None else 'values'}:{e[0]}:{okind}"
    if case["cli"] is None:
        d = case["default"]
        if o[0] == "ok" and d is not None and d["t"] == "list" and len(d["v"]) == n and o[1] == [norm(x) for x in d["v"]]:
            return "absent:list-default-of-length-n:dealt-elementwise"
        return f"absent:{'container' if cont else 'scalar'}:{e[0]}:{okind}"
    if cont:
        pred = _by_count(n, _token_values(case, obs))
        is_tup = kind.startswith("Tuple")
        if pred is not None and _has_bare(obs):
            scalar_reaches = any(v[0] not in ("list", "tuple") for v in pred)
            if is_tup and scalar_reaches and o == ("raise", "TypeError") and msg == "'int' object is not iterable":
                return "container:bare-token:TypeError"                       # tuple(3) in postprocess
            if not is_tup and scalar_reaches and o == ("ok", pred):
                return "container:bare-token:scalar-delivered"                # exactly T(literal), unwrapped, by the count rule
        if pred is not None and kind == "Tuple[int,int]" and not _has_bare(obs) and e[0] == "reject" and o == ("ok", pred) \
                and any(len(v[1]) != 2 for v in pred):
            return "tuple:arity-unchecked:accepted"                           # the literal's items, whatever their number
        if o[0] == "ok" and e[0] == "be" and any(v[0] not in ("list", "tuple") for v in o[1]) \
                and all(l is not None and l[0] == "seq" for l in obs["lits"]):
            return "container:bracketed-literal:dealt-elementwise"
        return f"container:{e[0]}:{okind}"
    return f"scalar:{kind}:{e[0]}:{okind}"


def nontrivial(case, obs):
    o = obs["obs"]
    return o[0] in ("ok", "inconsistent") or (o[0] == "raise" and o[1] == "TypeError")


def features(case, obs):
    o = obs["obs"]
    d = case["default"]
    return {"layout": case["layout"], "n": case["n"], "kind": case["kind"],
            "count": "absent" if case["cli"] is None else len(case["cli"]),
            "default": "required" if d is None else ("len=n" if d["t"] in ("list", "tuple") and len(d["v"]) == case["n"] else
                                                     "container" if d["t"] in ("list", "tuple") else "scalar"),
            "explicit": sum(1 for x in case["explicit"] if x is not None),
            "containers-shared-between-destinations": bool(obs.get("alias")),
            "outcome": o[0] + (str(o[1]) if o[0] in ("exit", "raise") else "")}


def to_coq(case, obs):
    o = obs["obs"]
    if o[0] == "ok":
        ob = outcome(["ok", clist([cval(v) for v in o[1]])])
    else:
        ob = outcome(o)
    if case["cli"] is None:
        cli = "None"
    else:
        cli = "(Some " + clist([f"(mktok {cstr(t)} {clit(l)})" for t, l in zip(case["cli"], obs["lits"])]) + ")"
    cd = "None" if case["default"] is None else copt(cval(case["default"]))
    ex = clist(["None" if x is None else copt(cval(x)) for x in case["explicit"]])
    return f"mkcase {cstrlist(obs['dests'])} {ckind(case['kind'])} {cd} {ex} {cli} {ob}"


def shrink(case):
    n, layout = case["n"], case["layout"]
    if case["cli"]:
        for i in range(len(case["cli"])):
            yield dict(case, cli=case["cli"][:i] + case["cli"][i + 1:])
    if layout not in ("flat",) and not layout.startswith("mixed"):
        yield dict(case, layout="flat")
    if n > 2:
        yield dict(case, n=n - 1, explicit=case["explicit"][:n - 1], cli=None if case["cli"] is None else case["cli"][:n - 1])
    for i, x in enumerate(case["explicit"]):
        if x is not None:
            ex = list(case["explicit"])
            ex[i] = None
            yield dict(case, explicit=ex)
