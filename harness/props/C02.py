"""C02 — a value written on the command line is the value the field receives."""
from __future__ import annotations

import itertools
import random

import leafdsl as L
from coqemit import cbool, clist, copt, cstrlist, outcome

ID = "C02"
FACTS = ["Bool", "Leaf", "LeafSrc"]
COQ_HEADER = "From SPV Require Import CorrDefs.CorrC02."
COQ_CASE_TYPE = "case"
RULE = ("dataclasses with 1-4 fields over the CLI grammar {int,float,str,bool,Path,Enum,Literal, List[item], Tuple[items] fixed "
        "(homogeneous and heterogeneous) and variadic, Optional[...] of these}; values from small exhaustive pools (ints -2..2 and big "
        "ints, floats with exact short decimals, '', blank-containing and digit-like strings, every enum member, empty containers, None); "
        "a subset of the fields is written in canonical token form, in a seeded permutation, each with the `--opt v` or `--opt=v` "
        "spelling; the first block enumerates every (constructor, pool value) pair as a single-field case. Values whose tokens argparse "
        "would lex as options are excluded (the property's own exclusion). Non-trivial = at least one field written; distinct by case.")
TRUSTED = ["pinned helper bodies (harness/translate/pinned/*.txt: is_homogeneous_tuple_type, get_container_nargs, postprocess, parse_enum, parse_tuple, get_parsing_fn, ...): the hand model mirrors them; a pin detects any edit, it does not regenerate the model",
           "argparse delivers `--opt t1..tn` / `--opt=t` to the action as modelled in Model/Leaf.v take_values (one occurrence, fresh parser)",
           "float() and repr are modelled on exact decimal literals only (harness converts repr through decimal.Decimal)"]
ASSUMPTIONS = ["each field is written at most once per command line; paths are written in normalised form"]


def _all_pool_values(t):
    k = t["k"]
    if k == "int":
        return [{"t": "int", "v": x} for x in L.INTS]
    if k == "float":
        return [{"t": "float", "v": repr(float(x))} for x in L.FLOATS]
    if k == "str":
        return [{"t": "str", "v": x} for x in L.STRS]
    if k == "bool":
        return [{"t": "bool", "v": True}, {"t": "bool", "v": False}]
    if k == "path":
        return [{"t": "path", "v": x} for x in L.PATHS]
    if k == "enum":
        return [{"t": "enum", "c": t["name"], "v": m} for m in t["members"]]
    return []


def gen(tier, seed):
    rng = random.Random(f"C02-{seed}")
    cases = []
    items = [{"k": "int"}, {"k": "float"}, {"k": "str"}, {"k": "bool"}, {"k": "path"},
             {"k": "enum", "name": "Color", "members": L.ENUMS["Color"]}]
    # block 1: every scalar constructor x every pool value, alone and inside each container / Optional
    for it in items:
        for v in _all_pool_values(it):
            shapes = [(it, v), ({"k": "opt", "item": it}, v), ({"k": "list", "item": it}, {"t": "list", "v": [v]}),
                      ({"k": "tupvar", "item": it}, {"t": "tuple", "v": [v, v]}),
                      ({"k": "tupfix", "items": [it, {"k": "str"}]}, {"t": "tuple", "v": [v, {"t": "str", "v": "s"}]})]
            for t, val in (shapes if tier == "thorough" else shapes[:3]):
                if L.expressible(t, val):
                    d = L.rand_value(rng, t)
                    cases.append({"fields": [{"ty": t, "default": d, "assign": val, "spell": rng.choice(["sep", "eq"])}]})
    for t in L.LITS:
        for c in t["choices"]:
            val = {"t": "str", "v": c} if isinstance(c, str) else {"t": "int", "v": str(c)}
            for ty in (t, {"k": "opt", "item": t}, {"k": "list", "item": t}):
                v2 = {"t": "list", "v": [val]} if ty["k"] == "list" else val
                cases.append({"fields": [{"ty": ty, "default": L.rand_value(rng, ty), "assign": v2, "spell": "sep"}]})
    for it in items:
        for t in ({"k": "opt", "item": it}, {"k": "list", "item": it}, {"k": "tupvar", "item": it}):
            empty = {"t": "none"} if t["k"] == "opt" else {"t": "list" if t["k"] == "list" else "tuple", "v": []}
            cases.append({"fields": [{"ty": t, "default": L.rand_value(rng, t, allow_none=False), "assign": empty, "spell": "sep"}]})
    # block 2: several fields, subsets, permutations, both spellings
    n = 700 if tier == "quick" else 12000
    for _ in range(n):
        k = rng.randint(1, 4)
        fields = []
        for _ in range(k):
            t = L.rand_type(rng)
            d = L.rand_value(rng, t)
            a = None
            if rng.random() < 0.7:
                for _ in range(5):
                    a = L.rand_value(rng, t)
                    if L.expressible(t, a):
                        break
                    a = None
            fields.append({"ty": t, "default": d, "assign": a, "spell": rng.choice(["sep", "eq"])})
        order = [i for i, f in enumerate(fields) if f["assign"] is not None]
        rng.shuffle(order)
        cases.append({"fields": fields, "order": order})
    return cases


# --------------------------------------------------------------------------------------------------


def source(case):
    src = [L.PRELUDE, "@dataclass", "class D:"]
    for i, f in enumerate(case["fields"]):
        if f.get("default") is None:
            src.append(f"    f{i}: {L.annotation(f['ty'])}")
        else:
            src.append(f"    f{i}: {L.annotation(f['ty'])} = {L.default_src(f['default'])}")
    # required fields must precede fields with defaults in a dataclass: emit kw_only to allow any order
    return "\n".join(src).replace("@dataclass\nclass D:", "@dataclass(kw_only=True)\nclass D:") + "\n"


def order_of(case):
    return case.get("order", [i for i, f in enumerate(case["fields"]) if f.get("assign") is not None or f.get("tokens") is not None])


def tokens_of(f):
    if f.get("tokens") is not None:
        return f["tokens"]
    return L.canon_tokens(f["assign"])


def argv_of(case):
    argv = []
    for i in order_of(case):
        f = case["fields"][i]
        toks = tokens_of(f)
        opt = f"--nof{i}" if f.get("neg") else f"--f{i}"
        if f.get("spell") == "eq" and len(toks) == 1:
            argv.append(f"{opt}={toks[0]}")
        else:
            argv += [opt] + toks
    return argv + case.get("extra_argv", [])


def run_impl(cases):
    from implutil import canon, outcome_of, reset_simple_parsing_state, set_current_ns

    out = []
    for case in cases:
        reset_simple_parsing_state()
        argv = argv_of(case)

        def go():
            from simple_parsing import ArgumentParser
            # every case first defines and parses an identical set of classes in ANOTHER namespace: same qualified names,
            # different class objects.  A cache keyed on names instead of classes (seeded change C02-04) then shows up inside
            # the case itself, so the replay of a failing case is self-contained.
            shadow = {}
            exec(compile(source(case), "<c02>", "exec", dont_inherit=True), shadow)
            try:
                ps = ArgumentParser()
                ps.add_arguments(shadow["D"], "d")
                ps.parse_args(argv)
            except BaseException:  # noqa: BLE001  (the judged run below reports the outcome)
                pass
            ns = {}
            exec(compile(source(case), "<c02>", "exec", dont_inherit=True), ns)
            set_current_ns(ns)
            p = ArgumentParser()
            p.add_arguments(ns["D"], "d")
            d = p.parse_args(argv).d
            return [canon(getattr(d, f"f{i}")) for i in range(len(case["fields"]))]

        r = outcome_of(go)
        out.append({"argv": argv, "outcome": r[:2] if r[0] != "ok" else ["ok"], "stderr": (r[2] != "") if r[0] == "exit" else None,
                    "errline": (r[2].strip().splitlines() or [""])[-1][-300:] if r[0] == "exit" else None,
                    "values": r[1] if r[0] == "ok" else None})
    return out


def veq(a, b):
    return a == b


def py_spec(case, obs):
    if obs["outcome"][0] != "ok":
        return f"argv {obs['argv']} rejected: {obs['outcome']}"
    for i, f in enumerate(case["fields"]):
        want = f["assign"] if f["assign"] is not None else f["default"]
        if not veq(obs["values"][i], want):
            which = "written" if f["assign"] is not None else "not mentioned"
            return f"field f{i}: {L.annotation(f['ty'])} ({which}) is {obs['values'][i]} instead of {want}; argv {obs['argv']}"
    return None


def _shape(t):
    k = t["k"]
    if k in ("list", "tupvar", "opt"):
        return f"{k}[{_shape(t['item'])}]"
    if k == "tupfix":
        inner = {_shape(x) for x in t["items"]}
        return "tupfix[" + ("homog" if len(inner) == 1 else "hetero") + "]"
    return k


def signature(case, obs, reason):
    if obs["outcome"][0] != "ok":
        # The listed finding (Optional/List of Literal: the Literal alias itself is argparse's `type`, calling it fails) is
        # recognised by its EVIDENCE, not by the mere presence of such a field: argparse's message must name the option of an
        # opt[lit]/list[lit] field and say `invalid Literal value`.  Any other rejection - also of a
        # case that happens to contain such a field - gets the shapes of all written fields and is reported.
        shapes = sorted({_shape(case["fields"][i]["ty"]) for i in order_of(case)})
        err = obs.get("errline") or ""
        culprit = []
        for i in order_of(case):
            sh = _shape(case["fields"][i]["ty"])
            if "lit" in sh and ("opt" in sh or "list" in sh) and f"argument --f{i}:" in err and "invalid Literal value" in err:
                culprit.append(sh)
        culprit = sorted(set(culprit))
        return "rejected:" + ":".join(str(x) for x in obs["outcome"][:2]) + ":" + ("+".join(culprit) if culprit else "other-cause:" + "+".join(shapes))[:60]
    for i, f in enumerate(case["fields"]):
        want = f["assign"] if f["assign"] is not None else f["default"]
        if obs["values"][i] != want:
            return ("written:" if f["assign"] is not None else "default:") + _shape(f["ty"])
    return "other"


def nontrivial(case, obs):
    return any(f["assign"] is not None for f in case["fields"])


def features(case, obs):
    d = {"nfields": len(case["fields"]), "nwritten": len(order_of(case)), "outcome": obs["outcome"][0]}
    for i in order_of(case)[:1]:
        d["first_written"] = _shape(case["fields"][i]["ty"])
    return d


def field_coq(f, obsv, in_order):
    toks = tokens_of(f) if in_order else None
    intended = f.get("assign")
    return ("(mkf " + L.ty_coq(f["ty"]) + " " + (copt(L.value_coq(f["default"])) if f.get("default") is not None else "None") + " "
            + (copt(cstrlist(toks)) if toks is not None else "None") + " " + cbool(bool(f.get("neg")) and in_order) + " "
            + (copt(L.value_coq(intended)) if intended is not None else "None") + " "
            + (copt(L.value_coq(obsv)) if obsv is not None else "None") + ")")


def to_coq(case, obs, expect_reject=False):
    order = order_of(case)
    rest = [i for i in range(len(case["fields"])) if i not in order]
    fs = []
    try:
        for i in order + rest:
            ov = obs["values"][i] if obs["values"] is not None else None
            fs.append(field_coq(case["fields"][i], ov, i in order))
        oc = "(Ok tt)" if obs["outcome"][0] == "ok" else outcome(obs["outcome"])
    except L.OutOfScope:
        return "mkcase [] (Ok tt) false false"   # non-finite float etc.: vacuous case
    return f"mkcase {clist(fs)} {oc} {cbool(expect_reject)} {cbool(bool(case.get('unknown_opt')))}"


def shrink(case):
    fs = case["fields"]
    if len(fs) > 1:
        for i in range(len(fs)):
            nf = fs[:i] + fs[i + 1:]
            yield {"fields": nf, "order": [j for j, f in enumerate(nf) if f["assign"] is not None]}
