"""C14 — loading through a base class recovers the right subclass or exactly the base.

A case = one class hierarchy (real Serializable / plain dataclass subclasses created from generated source text in a
fresh module, in one particular DEFINITION ORDER) + the class from_dict is called on + one source (an instance of some
class at or below it, or a hand-written dict); observed: to_dict(save_dc_types in {False, True}) and, for each of them,
from_dict(.., drop_extra_fields in {default, True, False}) -> result class + field values, or the exception class.  The
implementation's actual all_subclasses() iteration order (Python set order: address dependent) is recorded per class and
handed to the model, so model-vs-implementation is exact; the spec check never looks at it."""
from __future__ import annotations

import glob
import itertools
import json
import os
import random
import subprocess
import sys

from coqemit import cbool, clist, copt, cpair, cstr, cstrlist, cZ

ID = "C14"
FACTS = ["Subclass"]
COQ_HEADER = "From SPV Require Import CorrDefs.CorrC14."
COQ_CASE_TYPE = "case"
RULE = ("hierarchies = a root with 1..3 children, each with 0..3 children of its own (depth <= 3, branching <= 3), every class "
        "adding a subset of a small shared pool of int fields to what it inherits (so sibling/cousin field sets come out nested, "
        "overlapping, identical, or equal to the parent's), plus a few diamonds; the family with <= 5 non-root classes (3326 hierarchies) is "
        "ENUMERATED (thorough: all of it; quick: a seeded sample of ~800), larger shapes are sampled from VERIF_SEED. Each "
        "hierarchy is created in several different definition orders (topological orders of the class graph), each in a fresh "
        "module (a few in a fresh interpreter), as Serializable subclasses with decode_into_subclasses on / off / overridden "
        "half-way, or as plain dataclasses; all fields defaulted or all required. Sources: an instance of every class at or below "
        "the class loaded through (root and intermediate classes), hand-written dicts (missing keys, unknown keys, unions of "
        "siblings' fields, bogus/foreign type entries), hierarchies where one class has a field(init=False), and holder classes reaching the hierarchy through a dataclass-typed "
        "field, List[..] and Dict[str, ..] (one and two levels deep), including a derived holder HS(H) whose dataclass-typed "
        "fields hold STRICT subclasses of their declared types, loaded through H with decode_into_subclasses unset; "
        "and TWO-STEP histories in one process (the early part of a hierarchy is defined and an instance is loaded through a base; "
        "then a late subtree is defined in the same module and an instance of it is loaded through the same base; both loads judged). Each case carries 2 save_dc_types x 3 drop_extra_fields "
        "observations. Non-trivial = the dict has at least one key the loading class does not know or a type entry; distinct by "
        "full case.")
TRUSTED = ["dataclasses.fields / __subclasses__ / the import system, as observed through introspection of the created classes "
           "(names, direct bases, init fields read off the real classes form the model's class table)"]
ASSUMPTIONS = ["every field has a plain int payload (or a dataclass / List / Dict[str, .] of dataclasses in the "
               "holder classes); a field name has one type throughout a hierarchy; classes live at module level (to_dict refuses "
               "to record function-local classes)"]
EXHAUSTIVE = {"quick": False, "thorough": False}

POOL1 = ["b", "c"]
POOL2 = ["b", "c", "d"]
DEFAULTS = {"a": 10, "b": 20, "c": 30, "d": 40, "e": 50, "y": 60, "n": 70}
NONINIT = {"n"}          # generated as  n: int = field(default=70, init=False)


# --------------------------------------------------------------------------------------------------
# hierarchies


def _subsets(pool, maxk):
    out = []
    for k in range(0, maxk + 1):
        out += [list(c) for c in itertools.combinations(pool, k)]
    return out


def child_types(max_grand):
    """(own fields of a level-1 class, sorted tuple of own-field tuples of its children)."""
    out = []
    for own in _subsets(POOL1, 2):
        rest = [f for f in POOL2 if f not in own]
        opts = [tuple(s) for s in _subsets(rest, 2)]
        for g in range(0, max_grand + 1):
            for combo in itertools.combinations_with_replacement(opts, g):
                out.append((tuple(own), combo))
    return out


def hierarchy_from(children):
    """children: list of (own, [grand own...]) -> list of class dicts in canonical (breadth first) order."""
    classes = [dict(name="Base", bases=[], own=["a"])]
    for i, (own, _) in enumerate(children, 1):
        classes.append(dict(name=f"C{i}", bases=["Base"], own=list(own)))
    for i, (_, grands) in enumerate(children, 1):
        for j, gown in enumerate(grands, 1):
            classes.append(dict(name=f"G{i}{j}", bases=[f"C{i}"], own=list(gown)))
    return classes


def small_family(max_nonroot=5):
    """Every hierarchy with at most max_nonroot non-root classes (siblings unordered)."""
    types_by_size = {}
    for t in child_types(3):
        types_by_size.setdefault(1 + len(t[1]), []).append(t)
    out = []
    for k in (1, 2, 3):
        sizes = [s for s in itertools.combinations_with_replacement(range(1, 5), k) if sum(s) <= max_nonroot]
        for ss in sizes:
            pools = [types_by_size.get(s, []) for s in ss]
            seen = set()
            for combo in itertools.product(*pools):
                key = tuple(sorted(combo))
                if key in seen:
                    continue
                seen.add(key)
                out.append(hierarchy_from(list(key)))
    return out


def random_big(rng):
    k = rng.choice([2, 3, 3])
    types = child_types(3)
    kids = [rng.choice(types) for _ in range(k)]
    classes = hierarchy_from(kids)
    if rng.random() < 0.25 and k >= 2:
        classes.append(dict(name="X12", bases=["C1", "C2"], own=rng.choice([[], ["e"]])))  # a diamond
    return classes


def all_fields(classes):
    """name -> full field name list (dataclass order is observed; this is the generator's expectation as a set)."""
    by = {c["name"]: c for c in classes}
    memo = {}

    def go(n):
        if n not in memo:
            fs = []
            for b in reversed(by[n]["bases"]):
                for f in go(b):
                    if f not in fs:
                        fs.append(f)
            for f in by[n]["own"]:
                if f not in fs:
                    fs.append(f)
            memo[n] = fs
        return memo[n]

    return {c["name"]: go(c["name"]) for c in classes}


def ancestors_of(classes):
    by = {c["name"]: c for c in classes}
    memo = {}

    def go(n):
        if n not in memo:
            out = []
            for b in by[n]["bases"]:
                if b in by:
                    for x in [b] + go(b):
                        if x not in out:
                            out.append(x)
            memo[n] = out
        return memo[n]

    return {c["name"]: go(c["name"]) for c in classes}


def topo_orders(classes, rng, n):
    """Up to n different definition orders (bases before subclasses), the breadth-first one first."""
    names = [c["name"] for c in classes]
    by = {c["name"]: c for c in classes}
    orders = [names]
    # depth first
    kids = {x: [c["name"] for c in classes if c["bases"] and c["bases"][0] == x] for x in names}

    def dfs(x, rev):
        out = [x]
        ks = kids[x][::-1] if rev else kids[x]
        for k in ks:
            out += dfs(k, rev)
        return out

    for cand in (dfs("Base", False), dfs("Base", True), ["Base"] + names[1:][::-1]):
        cand = [x for x in cand] + [x for x in names if x not in cand]
        orders.append(cand)
    for _ in range(6):
        pending, done = list(names), []
        while pending:
            ready = [x for x in pending if all(b in done for b in by[x]["bases"])]
            x = rng.choice(ready)
            pending.remove(x)
            done.append(x)
        orders.append(done)
    out = []
    for o in orders:
        ok, seen = True, set()
        for x in o:
            if any(b not in seen for b in by[x]["bases"]):
                ok = False
                break
            seen.add(x)
        if ok and o not in out:
            out.append(o)
    return out[:n]


KW_CONFIGS = ["on", "off", "plain", "mid-off", "mid-on"]


def apply_config(classes, order, config, req):
    by = {c["name"]: c for c in classes}
    out = []
    for n in order:
        c = dict(by[n])
        c["kw"] = None
        out.append(c)
    if config == "on":
        out[0]["kw"] = True
    elif config == "mid-off":
        out[0]["kw"] = True
        for c in out:
            if c["name"] == "C1":
                c["kw"] = False
    elif config == "mid-on":
        for c in out:
            if c["name"] == "C1":
                c["kw"] = True
    return dict(kind="plain" if config == "plain" else "ser", req=req, classes=out, holders=[])


def instance_of(name, fields, rng):
    return {"c": name, "f": [[f, rng.randrange(1, 9)] for f in fields]}


def pairs(classes):
    anc = ancestors_of(classes)
    return [(v, c["name"]) for c in classes for v in [c["name"]] + anc[c["name"]]]


def corpus():
    d = os.path.join(os.path.dirname(os.path.dirname(os.path.dirname(os.path.abspath(__file__)))), "corpus", "C14")
    return [json.load(open(f)) for f in sorted(glob.glob(os.path.join(d, "*.json")))]


def gen(tier, seed):
    rng = random.Random(f"C14-{seed}")
    fam = small_family()
    cases = corpus()                      # minimised past failures first
    if tier == "quick":
        hs = rng.sample(fam, min(800, len(fam)))
        n_orders, n_big, n_hold, n_fresh = 2, 40, 300, 16
    else:
        hs = fam
        n_orders, n_big, n_hold, n_fresh = 3, 500, 4000, 160
    idx = 0
    for classes in hs + [random_big(rng) for _ in range(n_big)]:
        fields = all_fields(classes)
        orders = topo_orders(classes, rng, n_orders)
        prs = pairs(classes)
        strict = [p for p in prs if p[0] != p[1]]
        inner = [c["name"] for c in classes if c["name"][0] != "G"]
        for oi, order in enumerate(orders):
            if tier == "quick":
                configs = [KW_CONFIGS[(idx + oi) % len(KW_CONFIGS)]]
            else:
                configs = ["on", "off"] if oi == 0 else [KW_CONFIGS[(idx + oi) % len(KW_CONFIGS)]]
            for config in configs:
                req = (idx % 4 == 3)
                idx += 1
                setup = apply_config(classes, order, config, req)
                chosen = [rng.choice(strict)]
                if tier != "quick" or idx % 2 == 0:
                    chosen.append(rng.choice(prs))
                for via, d in chosen:
                    cases.append(dict(setup=setup, via=via, src={"inst": instance_of(d, fields[d], rng)}, fresh=False))
                if tier != "quick" or idx % 2 == 1:
                    cases.append(dict(setup=setup, via=rng.choice(inner), src={"raw": raw_dict(classes, fields, rng)}, fresh=False))
    # a class with a field(init=False): instances only (the field is written by to_dict like any other)
    for _ in range(n_hold // 2):
        classes = [dict(c, own=list(c["own"])) for c in (rng.choice(fam) if rng.random() < 0.8 else random_big(rng))]
        rng.choice(classes[1:])["own"].append("n")
        fields = all_fields(classes)
        order = rng.choice(topo_orders(classes, rng, 4))
        setup = apply_config(classes, order, rng.choice(KW_CONFIGS), rng.random() < 0.25)
        via, d = rng.choice(pairs(classes))
        cases.append(dict(setup=setup, via=via, src={"inst": instance_of(d, fields[d], rng)}, fresh=False))
    for _ in range(n_hold):
        cases.append(holder_case(rng.choice(fam) if rng.random() < 0.7 else random_big(rng), rng))
    # a derived class with a dataclass-typed field holding a subclass of the declared type, loaded through its base
    for _ in range(2 * n_hold // 3):
        cases.append(holder_case(rng.choice(fam) if rng.random() < 0.8 else random_big(rng), rng, nested=True))
    # process history: some classes are defined only after a first load has been made
    for _ in range(n_hold):
        cases.append(two_step_case(rng.choice(fam) if rng.random() < 0.8 else random_big(rng), rng))
    # the same kind of cases, each in an interpreter of its own
    for _ in range(n_fresh):
        c = json.loads(json.dumps(rng.choice(cases)))
        c["fresh"] = True
        cases.append(c)
    return cases


def raw_dict(classes, fields, rng):
    names = [c["name"] for c in classes]
    r = rng.random()
    d = rng.choice(names)
    keys = list(fields[d])
    if r < 0.25 and len(keys) > 1:
        keys.remove(rng.choice(keys))                      # a key is missing
    elif r < 0.45:
        keys.append("z")                                   # a key nobody has
    elif r < 0.7:
        for f in fields[rng.choice(names)]:                # union of two classes' fields
            if f not in keys:
                keys.append(f)
    elif r < 0.8:
        keys = [k for k in keys if k != "a"] or ["b"]       # only "extra" keys
    rng.shuffle(keys)
    out = [[k, rng.randrange(1, 9)] for k in keys]
    t = rng.random()
    if t < 0.06:
        out.insert(rng.randrange(len(out) + 1), ["_type_", "@MOD@." + rng.choice(names)])
    elif t < 0.09:
        out.insert(0, ["_type_", "@MOD@.Nope"])
    elif t < 0.11:
        out.insert(0, ["_type_", "no_such_module_c14.Base"])
    return out


def two_step_case(classes, rng):
    """Part of the hierarchy is defined, a load is made through `via`; then the late classes (a non-root class with
    everything below it) are defined in the same module and an instance of one of them is loaded through the same class."""
    fields = all_fields(classes)
    anc = ancestors_of(classes)
    names = [c["name"] for c in classes]
    top = rng.choice(names[1:])
    late = [n for n in names if n == top or top in anc[n]]
    early = [n for n in names if n not in late]
    order = [n for n in rng.choice(topo_orders(classes, rng, 4)) if n in early] + \
            [n for n in rng.choice(topo_orders(classes, rng, 4)) if n in late]
    setup = apply_config(classes, order, rng.choice(["on", "off", "plain", "on", "mid-on"]), rng.random() < 0.2)
    via = rng.choice([a for a in anc[top] if a in early])
    below_early = [n for n in early if via in anc[n]]
    d1 = rng.choice(below_early) if below_early else via
    d2 = rng.choice(late) if rng.random() < 0.85 else rng.choice([n for n in names if n == via or via in anc[n]])
    return dict(setup=setup, via=via, src={"inst": instance_of(d2, fields[d2], rng)}, fresh=False, late=late,
                pre=dict(via=via, src={"inst": instance_of(d1, fields[d1], rng)}))


def holder_case(classes, rng, nested=False):
    """nested=True: H(x: T) and HS(H)(y: T') holding STRICT subclasses of the declared types, loaded through H, mostly with
    decode_into_subclasses left unset (the subclass search is then requested by drop_extra_fields=False only)."""
    fields = all_fields(classes)
    anc = ancestors_of(classes)
    names = [c["name"] for c in classes]
    order = rng.choice(topo_orders(classes, rng, 6))
    config = rng.choice(["off", "plain", "off", "on", "mid-on"]) if nested else rng.choice(KW_CONFIGS)
    setup = apply_config(classes, order, config, rng.random() < 0.2)

    def below(t):
        return [n for n in names if n == t or t in anc[n]]

    def inst(t):
        strict = [n for n in below(t) if n != t]
        d = rng.choice(strict) if nested and strict and rng.random() < 0.9 else rng.choice(below(t))
        return instance_of(d, fields[d], rng)

    inner = [n for n in names if n[0] != "G"]
    tx, tl, td = rng.choice(inner), rng.choice(inner), rng.choice(inner)
    shape = "x" if nested else rng.choice(["x", "x", "xl", "xd", "xld", "xld"])
    hf = [["x", "dc", tx]]
    if "l" in shape:
        hf.append(["xs", "list", tl])
    if "d" in shape:
        hf.append(["m", "dict", td])
    holders = [dict(name="H", bases=[], fields=hf,
                    kw=rng.choice([None, None, True]) if setup["kind"] == "ser" and not nested else None)]
    hv = {"c": "H", "f": [["x", inst(tx)]]}
    if "l" in shape:
        hv["f"].append(["xs", {"l": [inst(tl) for _ in range(rng.choice([0, 1, 1, 2]))]}])
    if "d" in shape:
        hv["f"].append(["m", {"d": [[k, inst(td)] for k in rng.sample(["k1", "k2", "k3"], rng.choice([0, 1, 2]))]}])
    via, v = "H", hv
    deep = 0.0 if nested else rng.random()
    if deep < 0.3:
        # a subclass of the holder with one more dataclass-typed field, loaded through the holder
        ty = rng.choice(inner)
        holders.append(dict(name="HS", bases=["H"], fields=[["y", "dc", ty]], kw=None))
        v = {"c": "HS", "f": hv["f"] + [["y", inst(ty)]]}
        via = "H" if nested else rng.choice(["H", "HS"])
    elif deep < 0.6:
        holders.append(dict(name="O", bases=[], fields=[["h", "dc", "H"]], kw=None))
        via, v = "O", {"c": "O", "f": [["h", hv]]}
    setup["holders"] = holders
    return dict(setup=setup, via=via, src={"inst": v}, fresh=False)


# --------------------------------------------------------------------------------------------------
# implementation side


def _source(setup, only=None):
    ser = setup["kind"] == "ser"
    lines = ["from dataclasses import dataclass, field", "from typing import Dict, List"]
    if ser:
        lines.append("from simple_parsing.helpers import Serializable")
    lines.append("")

    def head(name, bases, kw):
        bs = list(bases)
        if not bs and ser:
            bs = ["Serializable"]
        args = bs + ([f"decode_into_subclasses={kw}"] if kw is not None else [])
        return f"class {name}({', '.join(args)}):" if args else f"class {name}:"

    for c in setup["classes"]:
        if only is not None and c["name"] not in only:
            continue
        lines += ["@dataclass", head(c["name"], c["bases"], c["kw"])]
        body = [f"    {f}: int = field(default={DEFAULTS[f]}, init=False)" if f in NONINIT else
                f"    {f}: int" + ("" if setup["req"] else f" = {DEFAULTS[f]}") for f in c["own"]]
        lines += body or ["    pass"]
        lines.append("")
    for hcls in setup["holders"]:
        if only is not None and hcls["name"] not in only:
            continue
        lines += ["@dataclass", head(hcls["name"], hcls["bases"], hcls["kw"])]
        # required (dataclass-typed) fields first; a subclass of a holder with defaulted fields must default its own too
        inherited_defaults = bool(hcls["bases"]) and any(k != "dc" for h2 in setup["holders"] if h2["name"] in hcls["bases"]
                                                           for _, k, _ in h2["fields"])
        for fname, kind, t in hcls["fields"]:
            if kind == "dc":
                lines.append(f"    {fname}: {t}" + (" = None" if inherited_defaults else ""))
            elif kind == "list":
                lines.append(f"    {fname}: List[{t}] = field(default_factory=list)")
            else:
                lines.append(f"    {fname}: Dict[str, {t}] = field(default_factory=dict)")
        lines.append("")
    return "\n".join(lines)


_COUNTER = [0]


_NS = [None]        # namespace of the module the case's classes were created in (class IDENTITY is judged against it)


def _class_label(cls):
    """The class NAME when cls is the class of that name of the case's own module, else a label no model/spec answer has."""
    ns = _NS[0]
    if ns is not None and ns.get(cls.__name__) is cls:
        return cls.__name__
    return f"<foreign:{cls.__module__}.{cls.__qualname__}>"


def _canon_value(v):
    """Exact Python types (bool/int subclasses, tuple, OrderedDict, None are NOT ints/lists/dicts), class identity, order."""
    import dataclasses

    if type(v) is int:
        return v
    if dataclasses.is_dataclass(v) and not isinstance(v, type):
        fs = []
        for f in dataclasses.fields(v):
            try:
                fs.append([f.name, _canon_value(getattr(v, f.name))])
            except AttributeError:
                fs.append([f.name, {"other": "unset"}])
        return {"c": _class_label(type(v)), "f": fs}
    if type(v) is list:
        return {"l": [_canon_value(x) for x in v]}
    if type(v) is dict:
        return {"d": [[k if type(k) is str else f"<{type(k).__name__}:{k!r}>", _canon_value(x)] for k, x in v.items()]}
    return {"other": f"{type(v).__name__}:{v!r}"[:80]}


def _canon_ser(s):
    if type(s) is int:
        return s
    if type(s) is str:
        return {"s": s}
    if type(s) is dict:
        return {"m": [[k if type(k) is str else f"<{type(k).__name__}:{k!r}>", _canon_ser(x)] for k, x in s.items()]}
    if type(s) is list:
        return {"l": [_canon_ser(x) for x in s]}
    return {"other": f"{type(s).__name__}:{s!r}"[:80]}


def _build_value(ns, v):
    if isinstance(v, int):
        return v
    if "c" in v:
        obj = ns[v["c"]](**{k: _build_value(ns, x) for k, x in v["f"] if k not in NONINIT})
        for k, x in v["f"]:
            if k in NONINIT:
                setattr(obj, k, _build_value(ns, x))
        return obj
    if "l" in v:
        return [_build_value(ns, x) for x in v["l"]]
    return {k: _build_value(ns, x) for k, x in v["d"]}


def _observe(ns, modname, setup, names, via_name, src):
    """The loads of one point of the history (classes `names` exist), then the class table and enumerations at that point."""
    import dataclasses
    import typing

    from implutil import outcome_of
    from simple_parsing.helpers.serialization import serializable as S
    from simple_parsing.utils import all_subclasses

    _NS[0] = ns
    classes = [ns[n] for n in names]
    if setup["kind"] == "ser":
        reg = S.SerializableMixin.subclasses
        classes.sort(key=reg.index)                      # registration order, as the library recorded it
    inside = {c: c.__name__ for c in classes}

    def fty(t):
        if t is int:
            return ["int"]
        if t in inside:
            return ["dc", inside[t]]
        origin, args = typing.get_origin(t), typing.get_args(t)
        if origin is list and args[0] in inside:
            return ["list", inside[args[0]]]
        if origin is dict and args[0] is str and args[1] in inside:
            return ["dict", inside[args[1]]]
        raise AssertionError(f"unexpected field type {t!r}")

    def dflt(f):
        if f.default is not dataclasses.MISSING:
            return ["v", _canon_value(f.default)]          # a default of None is a default, not "required"
        if f.default_factory is not dataclasses.MISSING:
            return ["v", _canon_value(f.default_factory())]
        return None

    # the loads first (nothing of the harness touches the library before them)
    via = ns[via_name]
    probes = []
    if "inst" in src:
        obj = _build_value(ns, src["inst"])
        sers = [(save, S.to_dict(obj, save_dc_types=save)) for save in (False, True)]
    else:
        d = {}
        for k, v in src["raw"]:
            d[k] = v.replace("@MOD@", modname) if isinstance(v, str) else v
        sers = [(False, d)]
    for save, d in sers:
        outs = []
        for drop in (None, True, False):
            kwargs = {} if drop is None else {"drop_extra_fields": drop}
            if setup["kind"] == "ser":
                r = outcome_of(lambda: via.from_dict(json.loads(json.dumps(d)), **kwargs))
            else:
                r = outcome_of(lambda: S.from_dict(via, json.loads(json.dumps(d)), **kwargs))
            if r[0] == "ok":
                # the statement's "equal to the original" is Python equality: recorded next to the structural form
                eq = bool(r[1] == obj) if "inst" in src else None
                outs.append([drop, ["ok", _canon_value(r[1]), eq]])
            else:
                outs.append([drop, ["raise", r[1] if r[0] == "raise" else r[0]]])
        probes.append(dict(save=save, ser=_canon_ser(d), outs=outs))

    kws = {c["name"]: c["kw"] for c in setup["classes"]}
    kws.update({h["name"]: h["kw"] for h in setup["holders"]})
    hier = []
    for c in classes:
        init = set(S.get_init_fields(c))
        fs = [[f.name, fty(f.type), dflt(f), f.name in init] for f in dataclasses.fields(c)]
        hier.append([c.__name__, [inside[b] for b in c.__bases__ if b in inside], fs, kws[c.__name__]])
    expect = all_fields(setup["classes"])
    for n, _, fs, _ in hier:
        assert all((f[0] not in NONINIT) == f[3] for f in fs), (n, fs)
        if n in expect:
            assert sorted(x[0] for x in fs) == sorted(expect[n]), (n, fs, expect[n])
    dis = []
    for c in classes:
        a = getattr(c, "decode_into_subclasses", False)
        assert type(a) is bool, f"decode_into_subclasses of {c.__name__} is {a!r}"
        dis.append([c.__name__, a])
    enum = [[c.__name__, [_class_label(x) for x in all_subclasses(c)]] for c in classes]
    return dict(mod=modname, hier=hier, dis=dis, enum=enum, probes=probes, error=None)


def _run_one(case):
    """Create the classes in a fresh module (in one go, or in two steps with loads in between) and observe.
    Runs inside the implementation interpreter."""
    import logging
    import types

    logging.getLogger("simple_parsing").setLevel(logging.CRITICAL)
    setup = case["setup"]
    _COUNTER[0] += 1
    modname = f"c14gen_m{_COUNTER[0]}"
    mod = types.ModuleType(modname)
    sys.modules[modname] = mod
    try:
        ns = mod.__dict__
        names = [c["name"] for c in setup["classes"]] + [h["name"] for h in setup["holders"]]
        late = [n for n in names if n in set(case.get("late") or [])]
        pre = None
        if late:
            early = [n for n in names if n not in late]
            exec(compile(_source(setup, only=early), f"<{modname}>", "exec", dont_inherit=True), ns)
            pre = _observe(ns, modname, setup, early, case["pre"]["via"], case["pre"]["src"])
            exec(compile(_source(setup, only=late), f"<{modname}>", "exec", dont_inherit=True), ns)
        else:
            exec(compile(_source(setup), f"<{modname}>", "exec", dont_inherit=True), ns)
        out = _observe(ns, modname, setup, names, case["via"], case["src"])
        out["pre"] = pre
        return out
    finally:
        sys.modules.pop(modname, None)


def run_impl(cases):
    out = []
    for case in cases:
        if case.get("fresh"):
            c2 = dict(case)
            c2["fresh"] = False
            p = subprocess.run([sys.executable, "-c",
                                "import sys, json\nfrom props import C14\n"
                                "json.dump(C14._run_one(json.load(sys.stdin)), sys.stdout)"],
                               input=json.dumps(c2), capture_output=True, text=True, timeout=300)
            if p.returncode != 0:
                raise RuntimeError(f"fresh interpreter failed: {p.stderr[-2000:]}")
            out.append(json.loads(p.stdout))
        else:
            out.append(_run_one(case))
    return out


# --------------------------------------------------------------------------------------------------
# spec (Python mirror of Model/SubclassSpec.v and CorrC14.spec_ok)


class _H:
    def __init__(self, hier):
        self.order = [c[0] for c in hier]
        self.bases = {c[0]: c[1] for c in hier}
        self.fields = {c[0]: [f[0] for f in c[2]] for c in hier}
        self.ftype = {c[0]: {f[0]: f[1] for f in c[2]} for c in hier}
        self.required = {c[0]: [f[0] for f in c[2] if f[2] is None and f[3]] for c in hier}
        self.noninit = any(not f[3] for c in hier for f in c[2])
        self.defaults = {c[0]: {f[0]: f[2][1] for f in c[2] if f[2] is not None} for c in hier}
        self.kw = {c[0]: c[3] for c in hier}
        self.anc = {}
        for n in self.order:
            a = []
            for b in self.bases[n]:
                for x in [b] + self.anc.get(b, []):
                    if x not in a:
                        a.append(x)
            self.anc[n] = a

    def cone(self, b):
        return [n for n in self.order if n == b or b in self.anc[n]]

    def below(self, b):
        return [n for n in self.order if b in self.anc[n]]

    def has_all(self, n, keys):
        return all(k in self.fields[n] for k in keys)

    def identified(self, b, d):
        return d in self.cone(b) and all(c == d or set(self.fields[c]) != set(self.fields[d]) for c in self.cone(b))

    def hid(self, b, v):
        """hereditarily identified (mirror of SubclassSpec.hid)"""
        if not isinstance(v, dict) or "c" not in v or v["c"] not in self.fields:
            return False
        d = v["c"]
        if not self.identified(b, d) or [k for k, _ in v["f"]] != self.fields[d]:
            return False
        for k, x in v["f"]:
            t = self.ftype[d][k]
            if isinstance(x, int):
                ok = t[0] == "int"
            elif "c" in x:
                ok = t[0] == "dc" and self.hid(t[1], x)
            elif "l" in x:
                ok = t[0] == "list" and not x["l"]
            else:
                ok = t[0] == "dict" and not x["d"]
            if not ok:
                return False
        return True

    def enabled(self, n):
        seen = 0
        while n is not None and seen <= len(self.order):
            if self.kw[n] is not None:
                return self.kw[n]
            n = self.bases[n][0] if self.bases[n] else None
            seen += 1
        return False

    def effdrop(self, b, drop):
        return drop if drop is not None else not self.enabled(b)

    def min_superset(self, b, keys, r):
        if r not in self.below(b) or not self.has_all(r, keys):
            return False
        return all(len(self.fields[r]) <= len(self.fields[c]) for c in self.below(b) if self.has_all(c, keys))

    def admissible(self, b, keys, effdrop, r):
        if effdrop or self.has_all(b, keys):
            return r == b
        return self.min_superset(b, keys, r)


EVIDENCED_ITEM = ("list-item:untyped", "dict-item:untyped")


def _item_kind(h, kind, T, xv, yv, sitem):
    """One differing item of a List[T] / Dict[str, T] field under save_dc_types=True.  The known defect (the item's type
    entry is never WRITTEN, so the item is loaded like any untyped dict through T with T's own default) is recognised by its
    evidence, not by its symptom: (1) the serialized item has no type entry, (2) what came back is what loading the untyped
    dict through T gives (T's decode_into_subclasses off: exactly a T with the unknown keys dropped; on: the level-by-level
    demand of a load without dropping).  Anything else gets a signature of its own."""
    typed = isinstance(sitem, dict) and "m" in sitem and any(k == "_type_" for k, _ in sitem["m"])
    if typed:
        return f"{kind}:typed-entry-not-honoured"
    ok = isinstance(xv, dict) and "c" in xv and isinstance(yv, dict) and "c" in yv and yv["c"] in h.fields
    if ok:
        if not h.enabled(T):
            ints = dict((k, x) for k, x in xv["f"] if isinstance(x, int))
            ok = (yv["c"] == T and [k for k, _ in yv["f"]] == h.fields[T]
                  and all(y == ints[k] for k, y in yv["f"] if k in ints and isinstance(y, int)))
        else:
            ok = _nondrop(h, T, xv, yv) is None
    return f"{kind}:untyped" if ok else f"{kind}:untyped-but-not-the-default-load"


def _dc_types_kinds(h, v, r, s, where="top"):
    """All the places where the reloaded tree r differs from the original v (s = the serialized form), by kind."""
    if v == r:
        return []
    if not (isinstance(v, dict) and isinstance(r, dict) and "c" in v and "c" in r):
        return [where]
    if v["c"] != r["c"] or [k for k, _ in v["f"]] != [k for k, _ in r["f"]]:
        return [where]
    smap = dict((k, x) for k, x in s["m"]) if isinstance(s, dict) and "m" in s else {}
    out = []
    for (k, x), (_, y) in zip(v["f"], r["f"]):
        if x == y:
            continue
        t = h.ftype.get(v["c"], {}).get(k, ["?"])
        sx = smap.get(k)
        if isinstance(x, dict) and "c" in x:
            out += _dc_types_kinds(h, x, y, sx, "field")
        elif isinstance(x, dict) and "l" in x and isinstance(y, dict) and "l" in y and len(x["l"]) == len(y["l"]) \
                and isinstance(sx, dict) and "l" in sx and len(sx["l"]) == len(x["l"]) and t[0] == "list":
            out += [_item_kind(h, "list-item", t[1], a, b, si) for a, b, si in zip(x["l"], y["l"], sx["l"]) if a != b]
        elif isinstance(x, dict) and "d" in x and isinstance(y, dict) and "d" in y \
                and [kk for kk, _ in x["d"]] == [kk for kk, _ in y["d"]] and isinstance(sx, dict) and "m" in sx \
                and [kk for kk, _ in sx["m"]] == [kk for kk, _ in x["d"]] and t[0] == "dict":
            out += [_item_kind(h, "dict-item", t[1], a, b, si)
                    for (_, a), (_, b), (_, si) in zip(x["d"], y["d"], sx["m"]) if a != b]
        else:
            out.append("field-value")
    return out or [where]


def _dc_types_detail(h, v, r, s):
    kinds = _dc_types_kinds(h, v, r, s)
    other = sorted(set(k for k in kinds if k not in EVIDENCED_ITEM))
    if other:
        return other[0]                       # a cause other than the known one is never hidden behind it
    return EVIDENCED_ITEM[0] if EVIDENCED_ITEM[0] in kinds else EVIDENCED_ITEM[1]


def _nondrop(h, b, v, r, depth=0):
    """Mirror of SubclassSpec.spec_nondrop: level by level through the dataclass-typed fields."""
    where = "nested-" if depth else ""
    if not isinstance(r, dict) or "c" not in r or r["c"] not in h.fields:
        return ("result-shape", where + "top", f"observed {r} for {v}")
    if [k for k, _ in r["f"]] != h.fields[r["c"]]:
        return ("result-shape", where + "fields", f"fields {[k for k, _ in r['f']]} of a {r['c']}")
    vkeys = [k for k, _ in v["f"]]
    if h.identified(b, v["c"]):
        if r["c"] != v["c"]:
            return ("identified", where + "class",
                    f"{v['c']} is identified by its field set at/below {b}; expected {v}, observed {r}")
    elif r["c"] not in h.cone(b) or not h.has_all(r["c"], vkeys):
        return ("superset", where + "class", f"{r['c']} is not a class at/below {b} with every field of {vkeys}")
    rv = dict((k, x) for k, x in r["f"])
    for k, x in v["f"]:
        if isinstance(x, int):
            if rv.get(k) != x:
                return ("value", where + "search", f"field {k} was {x}, came back {rv.get(k)} in {r}")
        elif "c" in x:
            t = h.ftype[v["c"]][k]
            if t[0] != "dc" or k not in rv:
                return ("result-shape", where + "field", f"field {k} of {r}")
            j = _nondrop(h, t[1], x, rv[k], depth + 1)
            if j:
                return j
    return None


def _judge(case, obs):
    """-> (clause, detail, reason) of the first observation violating the property, or None.  Each point of the history
    is judged on its own, against the classes that exist at that point."""
    if obs.get("pre"):
        j = _judge_stage(case["pre"]["via"], case["pre"]["src"], obs["pre"])
        if j:
            return (j[0], j[1] + ":before-late-classes", "first load (late classes not yet defined): " + j[2])
        j = _judge_stage(case["via"], case["src"], obs)
        if j:
            return (j[0], j[1] + ":after-late-classes",
                    f"second load, after {case['late']} were defined and a first load through {case['pre']['via']} was made: " + j[2])
        return None
    return _judge_stage(case["via"], case["src"], obs)


def _judge_stage(via, src, obs):
    h = _H(obs["hier"])
    for p in obs["probes"]:
        for drop, o in p["outs"]:
            eff = h.effdrop(via, drop)
            tag = f"save_dc_types={p['save']} drop_extra_fields={drop}"
            if "inst" in src:
                v = src["inst"]
                if o[0] != "ok":
                    return ("load-failed", o[1], f"{tag}: loading the serialized form of {v['c']} through {via} raised {o[1]}")
                r = o[1]
                if p["save"]:
                    if r != v:
                        return ("dc-types", _dc_types_detail(h, v, r, p["ser"]), f"{tag}: expected exactly {v}, observed {r}")
                    if o[2] is not True:
                        return ("dc-types", "python-eq", f"{tag}: structurally the original {v}, but loaded == original is {o[2]}")
                    continue
                if not eff:
                    j = _nondrop(h, via, v, r)
                    if j:
                        return (j[0], j[1], f"{tag}: {j[2]}")
                    if h.hid(via, v) and r != v:
                        return ("identified", "value", f"{tag}: every level of {v} is identified; observed {r}")
                    if r == v and o[2] is not True:
                        return ("identified", "python-eq", f"{tag}: structurally the original {v}, but loaded == original is {o[2]}")
                    continue
                if not isinstance(r, dict) or "c" not in r or r["c"] not in h.fields:
                    return ("result-shape", "top", f"{tag}: observed {r}")
                rkeys = [k for k, _ in r["f"]]
                rv = dict((k, x) for k, x in r["f"])
                if rkeys != h.fields[r["c"]]:
                    return ("result-shape", "fields", f"{tag}: fields {rkeys} of a {r['c']}")
                for k, x in v["f"]:
                    if isinstance(x, int) and k in rv and rv[k] != x:
                        return ("value", "drop", f"{tag}: field {k} was {x}, came back {rv[k]} in {r}")
                if r["c"] != via:
                    return ("drop", "class", f"{tag}: expected exactly the base {via}, observed {r['c']}")
            else:
                kv = [(k, x) for k, x in src["raw"]]
                tkey = [x for k, x in kv if k == "_type_"]
                keys = [k for k, _ in kv if k != "_type_"]
                if tkey:
                    named = tkey[0].replace("@MOD@", obs["mod"])
                    target = [n for n in h.order if obs["mod"] + "." + n == named]
                    if not target and o[0] == "ok":
                        return ("named", "unknown-type-loaded", f"{tag}: type entry {named} names no class, observed {o[1]}")
                    if target and o[0] == "ok" and o[1].get("c") not in h.cone(target[0]):
                        return ("named", "class", f"{tag}: type entry names {target[0]}, observed {o[1]}")
                    continue
                kvd = dict(kv)
                adm = [n for n in h.order if h.admissible(via, keys, eff, n)]
                if o[0] == "ok":
                    r = o[1]
                    if not isinstance(r, dict) or r.get("c") not in adm:
                        return ("raw", "class", f"{tag}: keys {keys} through {via}: admissible classes {adm}, observed {r}")
                    want = []
                    for f in h.fields[r["c"]]:
                        if f in kvd:
                            want.append([f, kvd[f]])
                        elif f in h.defaults[r["c"]]:
                            want.append([f, h.defaults[r["c"]][f]])
                        else:
                            want = None
                            break
                    if want is None or r["f"] != want:
                        return ("raw", "value", f"{tag}: keys {kv} as a {r['c']}: expected fields {want}, observed {r['f']}")
                else:
                    missing = any(any(f not in keys for f in h.required[n]) for n in adm)
                    if o[1] != "RuntimeError" or not (missing or not adm):
                        return ("raw", "raise", f"{tag}: keys {keys} through {via} raised {o[1]} although {adm} can take them")
    return None


def py_spec(case, obs):
    if obs.get("error"):
        return f"set-up failed: {obs['error']}"
    j = _judge(case, obs)
    return j[2] if j else None


def signature(case, obs, reason):
    if obs.get("error"):
        return "setup-failed"
    j = _judge(case, obs)
    if not j:
        return "coq-spec-only"
    h = _H(obs["hier"])
    return f"{j[0]}:{j[1]}".replace(" ", "_") + (":noninit" if h.noninit else "")


def _nontrivial_probe(h, via, p):
    s = p["ser"]
    keys = [k for k, _ in s.get("m", [])] if isinstance(s, dict) else []
    return "_type_" in keys or any(k not in h.fields[via] for k in keys)


def nontrivial(case, obs):
    if obs.get("error"):
        return False
    h = _H(obs["hier"])
    return any(_nontrivial_probe(h, case["via"], p) for p in obs["probes"])


def features(case, obs):
    s = case["setup"]
    h = _H(obs["hier"])
    src = case["src"]
    out = {"kind": s["kind"], "n_classes": len(s["classes"]), "req": s["req"], "fresh": bool(case.get("fresh")),
           "src": "holder" if s["holders"] else ("inst" if "inst" in src else "raw"),
           "via": "root" if case["via"] == "Base" else ("holder" if case["via"] in ("H", "HS", "O") else "intermediate"),
           "enabled(via)": h.enabled(case["via"]), "has-init=False-field": h.noninit,
           "history": "two-step" if case.get("late") else "one-step"}
    defined = [c["name"] for c in s["classes"]]
    for n, order in obs["enum"]:
        if n == "Base" and len(order) > 1:
            out["enum(Base)-vs-definition"] = ("same" if order == [x for x in defined if x in order] else
                                               "reversed" if order == [x for x in defined if x in order][::-1] else "other")
    if "inst" in src and not s["holders"]:
        out["identified"] = h.identified(case["via"], src["inst"]["c"])
    for p in obs["probes"]:
        for drop, o in p["outs"]:
            if not p["save"] and drop is False:
                out["outcome(drop=False)"] = o[0] if o[0] == "ok" else o[1]
    return out


# --------------------------------------------------------------------------------------------------
# Coq emission


def _cvalue(v):
    if isinstance(v, int):
        return f"(VInt {cZ(v)})"
    if "c" in v:
        return f"(VObj {cstr(v['c'])} {_cvfields(v['f'])})"
    if "l" in v:
        return f"(VList {_cvfields([['', x] for x in v['l']])})"
    if "d" in v:
        return f"(VDict {_cvfields(v['d'])})"
    return f"(VObj {cstr('<other:' + v['other'] + '>')} VNil)"


def _cvfields(items):
    out = "VNil"
    for k, x in reversed(items):
        out = f"(VCons {cstr(k)} {_cvalue(x)} {out})"
    return out


def _cser(s):
    if isinstance(s, int):
        return f"(SInt {cZ(s)})"
    if "s" in s:
        return f"(SStr {cstr(s['s'])})"
    if "m" in s:
        return f"(SMap {_csfields(s['m'])})"
    if "l" in s:
        return f"(SList {_csfields([['', x] for x in s['l']])})"
    return f"(SStr {cstr('<other:' + s['other'] + '>')})"


def _csfields(items):
    out = "SNil"
    for k, x in reversed(items):
        out = f"(SCons {cstr(k)} {_cser(x)} {out})"
    return out


def _cfty(t):
    return "TInt" if t[0] == "int" else f"({ {'dc': 'TDc', 'list': 'TList', 'dict': 'TDict'}[t[0]]} {cstr(t[1])})"


def _outcome(o):
    return f"(Ok {_cvalue(o[1])})" if o[0] == "ok" else f"(Err (Raise {cstr(o[1])}))"


def _stage_coq(via, src, obs):
    hier = clist([
        f"mkc {cstr(n)} {cstrlist(bs)} "
        + clist([f"mkf {cstr(f)} {_cfty(t)} {copt(_cvalue(d[1])) if d is not None else 'None'} {cbool(i)}" for f, t, d, i in fs])
        + f" {copt(cbool(kw)) if kw is not None else 'None'}"
        for n, bs, fs, kw in obs["hier"]])
    dis = clist([cpair(cstr(n), cbool(b)) for n, b in obs["dis"]])
    enum = clist([cpair(cstr(n), cstrlist(o)) for n, o in obs["enum"] if o])
    if "inst" in src:
        s = f"(SrcInst {_cvalue(src['inst'])})"
    else:
        s = "(SrcRaw " + _csfields([[k, ({"s": v.replace("@MOD@", obs["mod"])} if isinstance(v, str) else v)] for k, v in src["raw"]]) + ")"
    probes = clist([
        f"mkprobe {cbool(p['save'])} {_cser(p['ser'])} "
        + clist([cpair(copt(cbool(d)) if d is not None else "None", _outcome(o)) for d, o in p["outs"]])
        for p in obs["probes"]])
    return f"mkstage {cstr(obs['mod'])} {hier} {dis} {enum} {cstr(via)} {s} {probes}"


def to_coq(case, obs):
    stages = []
    if obs.get("pre"):
        stages.append(_stage_coq(case["pre"]["via"], case["pre"]["src"], obs["pre"]))
    stages.append(_stage_coq(case["via"], case["src"], obs))
    return clist(stages)


# --------------------------------------------------------------------------------------------------
# shrinking


def _used(v, acc):
    if isinstance(v, dict):
        if "c" in v:
            acc.add(v["c"])
            for _, x in v["f"]:
                _used(x, acc)
        for x in v.get("l", []):
            _used(x, acc)
        for _, x in v.get("d", []):
            _used(x, acc)


def _used_names(src):
    acc = set()
    if "inst" in src:
        _used(src["inst"], acc)
    return acc


def shrink(case):
    s = case["setup"]
    src = case["src"]
    if case.get("fresh"):
        yield dict(case, fresh=False)
    # drop a leaf class nobody refers to
    used = {case["via"]}
    if "inst" in src:
        _used(src["inst"], used)
    for h in s["holders"]:
        used.update(t for _, _, t in h["fields"])
    for c in s["classes"]:
        n = c["name"]
        if n in used or any(n in d["bases"] for d in s["classes"]):
            continue
        if case.get("pre") and n in _used_names(case["pre"]["src"]):
            continue
        if case.get("late") == [n]:
            continue
        s2 = dict(s, classes=[d for d in s["classes"] if d["name"] != n])
        yield dict(case, setup=s2, **({"late": [x for x in case["late"] if x != n]} if case.get("late") else {}))
    # drop one field of a holder class (from the class and from every instance of it)
    if "inst" in src and s["holders"]:
        def strip(v, cls_names, fname):
            if isinstance(v, dict) and "c" in v:
                fs = [[k, strip(x, cls_names, fname)] for k, x in v["f"] if not (v["c"] in cls_names and k == fname)]
                return {"c": v["c"], "f": fs}
            if isinstance(v, dict) and "l" in v:
                return {"l": [strip(x, cls_names, fname) for x in v["l"]]}
            if isinstance(v, dict) and "d" in v:
                return {"d": [[k, strip(x, cls_names, fname)] for k, x in v["d"]]}
            return v

        for hi, hc in enumerate(s["holders"]):
            if len(hc["fields"]) < 2:
                continue
            owners = {hc["name"]} | {h2["name"] for h2 in s["holders"] if hc["name"] in h2["bases"]}
            for fi, (fname, _, _) in enumerate(hc["fields"]):
                h2 = dict(hc, fields=hc["fields"][:fi] + hc["fields"][fi + 1:])
                s2 = dict(s, holders=s["holders"][:hi] + [h2] + s["holders"][hi + 1:])
                yield dict(case, setup=s2, src={"inst": strip(src["inst"], owners, fname)})
        # load the inner holder directly
        v = src["inst"]
        if v["c"] == "O":
            yield dict(case, setup=dict(s, holders=[h2 for h2 in s["holders"] if h2["name"] != "O"]), via="H", src={"inst": v["f"][0][1]})
    # fewer items in lists / dicts of the instance
    if "inst" in src:
        def variants(v):
            if isinstance(v, dict) and "c" in v:
                for i, (k, x) in enumerate(v["f"]):
                    for x2 in variants(x):
                        yield {"c": v["c"], "f": v["f"][:i] + [[k, x2]] + v["f"][i + 1:]}
            elif isinstance(v, dict) and "l" in v:
                for i in range(len(v["l"])):
                    yield {"l": v["l"][:i] + v["l"][i + 1:]}
            elif isinstance(v, dict) and "d" in v:
                for i in range(len(v["d"])):
                    yield {"d": v["d"][:i] + v["d"][i + 1:]}

        for v2 in variants(src["inst"]):
            yield dict(case, src={"inst": v2})
    else:
        for i in range(len(src["raw"])):
            yield dict(case, src={"raw": src["raw"][:i] + src["raw"][i + 1:]})
    if s["req"]:
        yield dict(case, setup=dict(s, req=False))
