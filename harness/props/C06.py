"""C06 — value sources are layered: definition < default instance / set_defaults < constructor config_path files
< --config_path files < command line; merged leaf by leaf through nested dataclasses; unknown keys are errors."""
from __future__ import annotations

import itertools
import os
import random

from coqemit import cbool, clist, copt, cpair, cstr, cZ, outcome

ID = "C06"
FACTS = ["Layers"]
COQ_HEADER = "From SPV Require Import CorrDefs.CorrC06."
COQ_CASE_TYPE = "case"
RULE = ("nested dataclasses (kw_only, depth <= 3, 1..6 leaves of kind int / str / Optional[int], one or two destinations; in about a fifth "
        "of them a top-level leaf or nested field is NAMED LIKE THE DESTINATION, e.g. Experiment.config with dest='config'; in about a fifth "
        "some nested members are typed Optional[<dataclass>] = None, mentioned by nobody / only by files or set_defaults / by the "
        "default instance / by options) x an assignment "
        "of every leaf to a subset of the five layers {definition, default, constructor config files, --config_path files, command "
        "line}, each mention carrying a marker value that encodes (leaf, layer, file index) - or, for about one mention in eight and at most "
        "once per leaf, the falsy non-null value of the leaf's type (0 for int / Optional[int], '' for str) in any of the five layers; for schemas with <= 3 leaves every leaf "
        "is taken through all 2^5 subsets (the other leaves random; thorough: the full product on two-leaf schemas), larger schemas are "
        "sampled from VERIF_SEED; x json/yaml per file x {parse() with the un-rooted WITHOUT_ROOT layout, parse(nested_mode=DEFAULT), "
        "ArgumentParser DEFAULT / WITHOUT_ROOT with 1 or 2 destinations, files keyed by destination unless re-rooted} x 0..3 files per "
        "file layer, config_path given as str / Path / list, --config_path before or after the options x default layer given as "
        "default=instance, set_defaults(dest=instance) or set_defaults(dest=dict) x explicit nulls on Optional leaves x probes (unknown key "
        "in a root / nested section, `_type_` tag, non-destination top-level key, null / scalar section, scalar destination section, dict "
        "for a field); plus direct calls of utils.dict_union on random pairs of documents (compatible and not). A fresh parser is built "
        "for every parse; every worker writes its files under a small fixed pool of names, so consecutive cases reuse the same paths with other "
        "contents, and about a third of the cases with files are two-step: the same paths first hold other values (ints + 500, strings + 'p', "
        "some mentions missing) and are parsed once, then rewritten, and the SECOND parse is what is judged. Non-trivial = some layer above the definition mentions a leaf, or a probe; distinct by full case.")
TRUSTED = [
    "a dict is modelled as an association list read by first match; key order is not modelled (dict_union sorts keys, nothing downstream reads the order)",
    "argparse is modelled as: an option written on the command line overrides the default; a required option that is absent ends with exit status 2",
    "dataclasses: getattr(Child(), f) is f's definition default (the defaults of a nested field with default_factory=Child are read off Child)",
    "json.load / yaml.safe_load return the document that was dumped (documents hold only str keys, ints, plain identifiers-like strings, nulls)",
]
ASSUMPTIONS = [
    "field names are unique over the whole forest and at least two characters long (option strings are then --<name>, or the dotted destination path in NESTED mode)",
    "a top-level field whose name is a prefix of `config_path` (e.g. `config`) is not given on the command line: the temporary --config_path parser would take `--config` as an abbreviation",
    "explicit nulls are written only for Optional[int] leaves",
    "the class of an Optional[<dataclass>] = None member has only plain fields, all with definition defaults (an option below a dataclass "
    "nested inside an Optional member is dropped by the implementation when nothing else touches the member: upstream's own `BUG` note)",
    "set_defaults is called after add_arguments; a destination section is never a string (that would be read as a path)",
]

LAYERS = ["def", "dflt", "ctor", "clif", "cli"]
WORK = os.path.join(os.path.dirname(os.path.dirname(os.path.dirname(os.path.abspath(__file__)))), ".work")

# --------------------------------------------------------------------------------------------------
# schemas


def leaves_of(node, prefix=()):
    out = []
    for f in node["fields"]:
        if "cls" in f:
            out += leaves_of(f["cls"], prefix + (f["name"],))
        else:
            out.append((prefix + (f["name"],), f))
    return out


def forest_leaves(roots):
    out = []
    for r in roots:
        out += [((r["dest"],) + p, f) for p, f in leaves_of(r["cls"])]
    return out


def make_schema(rng, n_leaves, max_depth, counter, p_opt=0.0):
    """a class tree with exactly n_leaves leaves; names unique through `counter`; with probability p_opt a nested member whose
    class has only plain fields is typed Optional[<class>] = None"""

    def mk(n, depth):
        cname = f"K{counter['c']}"
        counter["c"] += 1
        fields = []
        if depth >= max_depth:
            parts, nested = [1] * n, [False] * n
        else:
            parts, rem = [], n
            while rem > 0:
                k = rng.randint(1, rem)
                parts.append(k)
                rem -= k
            nested = [k > 1 or rng.random() < 0.35 for k in parts]
        for k, isn in zip(parts, nested):
            if isn:
                name = f"n{counter['n']}"
                counter["n"] += 1
                sub = mk(k, depth + 1)
                fld = {"name": name, "cls": sub}
                if all("cls" not in f for f in sub["fields"]) and rng.random() < p_opt:
                    fld["optional"] = True
                fields.append(fld)
            else:
                name = f"l{counter['l']}"
                counter["l"] += 1
                fields.append({"name": name, "kind": rng.choice(["int", "int", "str", "optint", "optint"]), "def": ["missing"]})
        rng.shuffle(fields)
        return {"cname": cname, "fields": fields}

    return mk(n_leaves, 1)


def depth_of(node):
    return 1 + max([depth_of(f["cls"]) for f in node["fields"] if "cls" in f] or [0])


def marker(path_idx, kind, code):
    if kind == "str":
        return f"s{path_idx}v{code}"
    return path_idx * 1000 + code


# --------------------------------------------------------------------------------------------------
# documents


def put(doc, path, value):
    d = doc
    for k in path[:-1]:
        d = d.setdefault(k, {})
    d[path[-1]] = value


def build_case(rng, api, nm, ndest, roots, subsets, nulls_ok=True, probe=None, gen_mode="FLAT", via=None, nfiles=None, keep=None,
               p_falsy=0.12):
    """subsets: {leaf path tuple: set of layer names}.  Returns the case dict."""
    leaves = forest_leaves(roots)
    idx = {p: i + 1 for i, (p, _) in enumerate(leaves)}
    nulls = []
    opts = opt_member_paths(roots)
    for p, _ in leaves:
        if any(p[:len(a)] == a for a in opts):
            subsets[p].add("def")  # the member's class is instantiated with its own defaults
    for p, _ in leaves:
        # `--config` would be taken by the temporary parser as an abbreviation of --config_path: not this property's subject
        if len(p) == 2 and "config_path".startswith(p[1]):
            subsets[p].discard("cli")

    falsy_at = {}

    def val(p, f, code, layer):
        if nulls_ok and f["kind"] == "optint" and rng.random() < 0.22:
            nulls.append(layer)
            return None
        if p not in falsy_at and rng.random() < p_falsy:
            # a falsy but non-null value (0 / ""), at most one mention per leaf so that it stays distinct from every marker
            falsy_at[p] = layer
            return "" if f["kind"] == "str" else 0
        return marker(idx[p], f["kind"], code)

    # definition
    for p, f in leaves:
        if "def" in subsets[p]:
            v = val(p, f, 1, "def")
            f["def"] = ["none"] if v is None else ["val", v]
        else:
            f["def"] = ["missing"]
    # default layer
    in_dflt = [p for p, _ in leaves if "dflt" in subsets[p]]
    missing = [p for p, f in leaves if f["def"] == ["missing"]]
    dflt = None
    if via is None:
        via = "none"
        if in_dflt:
            ok_inst = all(p in in_dflt for p in missing)
            choices = (["instance"] * 3 if ok_inst else []) + ((["sd_instance"] if ok_inst else []) + ["sd_dict"] * 2 if api == "ap" else [])
            if not choices:
                # parse() can only take default=: make the instance constructible, without touching the subset of `keep`
                if keep is not None and keep in missing and "dflt" not in subsets[keep]:
                    for p in subsets:
                        subsets[p].discard("dflt")
                else:
                    for p in missing:
                        subsets[p].add("dflt")
                in_dflt = [p for p, _ in leaves if "dflt" in subsets[p]]
                choices = ["instance"] if in_dflt else ["none"]
            via = rng.choice(choices)
    if via != "none":
        dflt = {r["dest"]: {} for r in roots} if via != "sd_dict" else {}
        for p, f in leaves:
            if "dflt" in subsets[p]:
                put(dflt, p, val(p, f, 2, "dflt"))
        if via == "sd_dict" and not dflt:
            via = "none"
            dflt = None
        if via in ("instance", "sd_instance"):
            # only destinations that have a mention get an instance; it must be constructible
            for r in roots:
                d = r["dest"]
                if not any(p[0] == d and "dflt" in subsets[p] for p, _ in leaves) or any(p[0] == d and p not in in_dflt for p in missing):
                    dflt.pop(d, None)
                    for p, f in leaves:
                        if p[0] == d:
                            subsets[p].discard("dflt")
            if not dflt:
                via, dflt = "none", None

    def file_layer(name, base):
        ps = [(p, f) for p, f in leaves if name in subsets[p]]
        k = nfiles[name] if nfiles and name in nfiles else (rng.randint(1, 3) if ps else rng.choice([0, 0, 0, 1, 2]))
        if ps and k == 0:
            k = 1
        docs = [{r["dest"]: {}} if rng.random() < 0.5 else {} for r in roots[:1] for _ in range(k)]
        for p, f in ps:
            which = [j for j in range(k) if rng.random() < 0.5] or [rng.randrange(k)]
            for j in which:
                put(docs[j], p, val(p, f, base + j, name))
        return [{"fmt": rng.choice(["json", "yaml"]), "doc": d} for d in docs]

    ctor = file_layer("ctor", 10)
    clif = file_layer("clif", 20)
    cli = {}
    for p, f in leaves:
        if "cli" in subsets[p]:
            v = val(p, f, 30, "cli")
            if v is None:  # an option is never given `null`
                nulls.remove("cli")
                v = marker(idx[p], f["kind"], 30)
            put(cli, p, v)
    eff_nm = nm if nm is not None else ("WITHOUT_ROOT" if api == "parse" else "DEFAULT")
    unrooted = eff_nm == "WITHOUT_ROOT" and ndest == 1
    if unrooted:
        for fl in ctor + clif:
            fl["doc"].setdefault(roots[0]["dest"], {})
    cli_given = bool(clif) or rng.random() < 0.1
    acp = True if cli_given else rng.choice([None, None, True, False])
    case = dict(kind="parse", api=api, nm=nm, gen=gen_mode, roots=roots, via=via, dflt=dflt, ctor=ctor,
                ctor_form=rng.choice(["list", "list", "str", "path"]) if len(ctor) == 1 else "list",
                acp=acp, cli_given=cli_given, clif=clif, cli_pos=rng.choice(["front", "back"]), cli=cli,
                unrooted=unrooted, probe=None, nulls=sorted(set(nulls)), falsy=sorted(set(falsy_at.values())))
    case["pre"] = None
    case["sd_more"] = []
    if api == "ap" and via != "none" and in_dflt and rng.random() < 0.4:
        more = {}
        for p, f in leaves:
            if "dflt" in subsets[p] and p[0] in (dflt or {}) and rng.random() < 0.6:
                put(more, p, val(p, f, 3, "dflt"))
        if more:
            case["sd_more"] = [more]  # a second parser.set_defaults(dest={..}) after the first default layer
    if probe:
        apply_probe(rng, case, probe)
    if (case["ctor"] or case["clif"]) and rng.random() < 0.3:
        # two-step case: the same paths first hold other contents and are parsed once; what is judged is the second parse
        case["pre"] = {name: [earlier_doc(rng, fl["doc"]) for fl in case[name]] for name in ("ctor", "clif")}
    return case


def earlier_doc(rng, doc):
    """same layout, other values (ints + 500, strings + 'p'); now and then a mention is missing"""
    if isinstance(doc, dict):
        return {k: earlier_doc(rng, v) for k, v in doc.items() if isinstance(v, dict) or rng.random() < 0.85}
    if isinstance(doc, bool) or doc is None:
        return doc
    if isinstance(doc, int):
        return doc + 500
    return doc + "p"


PROBES = ["unknown_root", "unknown_nested", "type_root", "type_nested", "toplevel_other", "section_null", "section_scalar",
          "dest_scalar", "dest_null", "leaf_dict", "unknown_sd"]


def class_paths(roots):
    out = []

    def walk(node, p):
        out.append(p)
        for f in node["fields"]:
            if "cls" in f:
                walk(f["cls"], p + (f["name"],))

    for r in roots:
        walk(r["cls"], (r["dest"],))
    return out


def apply_probe(rng, case, probe):
    roots = case["roots"]
    files = case["ctor"] + (case["clif"] if case["cli_given"] else [])
    if probe == "unknown_sd":
        if case["via"] != "sd_dict":
            return
        target = case["dflt"]
        secs = [p for p in class_paths(roots) if p[0] in target]
        if not secs:
            return
        p = rng.choice(secs)
        put(target, p + ("zz_unknown",), 5)
        case["probe"] = probe
        return
    if not files:
        fl = {"fmt": rng.choice(["json", "yaml"]), "doc": {roots[0]["dest"]: {}}}
        case["ctor"].append(fl)
        files = [fl]
        if case["acp"] is None and not case["cli_given"]:
            pass
    fl = rng.choice(files)
    doc = fl["doc"]
    cps = class_paths(roots)
    nested = [p for p in cps if len(p) > 1]
    rootp = [p for p in cps if len(p) == 1]
    if probe == "unknown_root":
        put(doc, rng.choice(rootp) + ("zz_unknown",), rng.choice([5, "w", None]))
    elif probe == "unknown_nested":
        if not nested:
            return
        put(doc, rng.choice(nested) + ("zz_unknown",), 5)
    elif probe == "type_root":
        put(doc, rng.choice(rootp) + ("_type_",), "some.module.Cls")
    elif probe == "type_nested":
        if not nested:
            return
        put(doc, rng.choice(nested) + ("_type_",), "some.module.Cls")
    elif probe == "toplevel_other":
        if case["unrooted"]:
            return
        doc["zz_other"] = rng.choice([3, {"a": 1}])
    elif probe in ("section_null", "section_scalar"):
        if not nested:
            return
        put(doc, rng.choice(nested), None if probe == "section_null" else rng.choice([5, "w"]))
    elif probe in ("dest_scalar", "dest_null"):
        if case["unrooted"]:
            return
        doc[rng.choice(rootp)[0]] = None if probe == "dest_null" else 5
    elif probe == "leaf_dict":
        lv = forest_leaves(roots)
        p, f = rng.choice(lv)
        put(doc, p, {"a": 1})
    case["probe"] = probe


# --------------------------------------------------------------------------------------------------
# generator


def random_subsets(rng, leaves, bias=None):
    out = {}
    for p, _ in leaves:
        s = {l for l in LAYERS if rng.random() < (0.45 if l != "def" else 0.75)}
        out[p] = s
    return out


def api_variants():
    return [("parse", None, 1), ("parse", "DEFAULT", 1), ("parse", "WITHOUT_ROOT", 1), ("ap", None, 1), ("ap", None, 2),
            ("ap", "WITHOUT_ROOT", 1), ("ap", "WITHOUT_ROOT", 2), ("ap", "DEFAULT", 1)]


def opt_member_paths(roots):
    out = []

    def walk(node, p):
        for f in node["fields"]:
            if "cls" in f:
                if f.get("optional"):
                    out.append(p + (f["name"],))
                walk(f["cls"], p + (f["name"],))

    for r in roots:
        walk(r["cls"], (r["dest"],))
    return out


def make_roots(rng, api, ndest, n_leaves, max_depth, samename=None, p_opt=0.0):
    """samename: None | "leaf" | "nested" | "any" - give one top-level field of the first dataclass the NAME OF ITS DESTINATION
    (e.g. `Experiment.config: ModelConfig` parsed with parse()'s default dest="config")"""
    counter = {"c": 0, "n": 0, "l": 0}
    if ndest == 1:
        roots = [{"dest": "config" if api == "parse" else "cfg", "cls": make_schema(rng, n_leaves, max_depth, counter, p_opt)}]
    else:
        a = max(1, n_leaves // 2)
        roots = [{"dest": "cfg", "cls": make_schema(rng, a, max_depth, counter, p_opt)},
                 {"dest": "oth", "cls": make_schema(rng, max(1, n_leaves - a), max(1, max_depth - 1), counter, p_opt)}]
    if samename:
        fields = roots[0]["cls"]["fields"]
        want = [f for f in fields if ("cls" in f) == (samename == "nested")] if samename != "any" else fields
        rng.choice(want or fields)["name"] = roots[0]["dest"]
    return roots


def union_cases(rng, n):
    out = []
    keys = ["a", "b", "c", "d"]

    def tree(depth):
        d = {}
        for k in keys:
            r = rng.random()
            if r < 0.45:
                continue
            if r < 0.7 and depth < 3:
                d[k] = tree(depth + 1)
            elif r < 0.8:
                d[k] = None
            elif r < 0.9:
                d[k] = rng.randint(0, 99)
            else:
                d[k] = rng.choice(["x", "y"])
        return d

    def compatible_with(a, depth):
        b = {}
        for k in keys:
            r = rng.random()
            if k in a and r < 0.6:
                if isinstance(a[k], dict):
                    b[k] = compatible_with(a[k], depth + 1)
                else:
                    b[k] = rng.choice([None, rng.randint(100, 199), "z"])
            elif k not in a and r < 0.4:
                b[k] = tree(depth + 1) if depth < 3 and rng.random() < 0.5 else rng.randint(100, 199)
        return b

    for i in range(n):
        a = tree(1)
        b = compatible_with(a, 1) if i % 3 else tree(1)
        out.append(dict(kind="union", a=a, b=b))
    return out


def corpus():
    """minimised past failures (corpus/C06/*.json), replayed first on every run"""
    import glob
    import json

    d = os.path.join(os.path.dirname(WORK), "corpus", ID)
    return [json.load(open(f))["case"] for f in sorted(glob.glob(os.path.join(d, "*.json")))]


def gen(tier, seed):
    rng = random.Random(f"C06-{seed}")
    cases = corpus()
    apis = api_variants()
    quick = tier == "quick"
    # (1) small schemas: every leaf through all 2^5 subsets
    shapes = [(1, 1), (2, 1), (2, 2), (3, 2), (3, 3)] if quick else [(1, 1), (2, 1), (2, 2), (3, 1), (3, 2), (3, 3), (2, 3), (3, 3)]
    rep = 1 if quick else 4
    k = 0
    for n_leaves, max_depth in shapes:
        for _ in range(rep):
            for li in range(n_leaves):
                for bits in range(32):
                    api, nm, ndest = apis[k % len(apis)]
                    k += 1
                    if ndest == 2 and n_leaves < 2:
                        ndest = 1
                    roots = make_roots(rng, api, ndest, n_leaves, max_depth, samename="any" if k % 7 == 3 else None)
                    leaves = forest_leaves(roots)
                    subsets = random_subsets(rng, leaves)
                    target = leaves[li % len(leaves)][0]
                    subsets[target] = {l for j, l in enumerate(LAYERS) if bits >> j & 1}
                    cases.append(build_case(rng, api, nm, ndest, roots, subsets, keep=target,
                                            gen_mode="NESTED" if (k % 5 == 0 and ndest == 1) else "FLAT"))
    # (1b) thorough: full product on two-leaf schemas
    if not quick:
        for (ba, bb) in itertools.product(range(32), repeat=2):
            api, nm, ndest = apis[k % len(apis)]
            k += 1
            roots = make_roots(rng, api, ndest, 2, 2)
            leaves = forest_leaves(roots)
            subsets = {leaves[0][0]: {l for j, l in enumerate(LAYERS) if ba >> j & 1},
                       leaves[1][0]: {l for j, l in enumerate(LAYERS) if bb >> j & 1}}
            cases.append(build_case(rng, api, nm, ndest, roots, subsets))
    # (2) random larger schemas
    for _ in range(500 if quick else 8000):
        api, nm, ndest = rng.choice(apis)
        n_leaves = rng.randint(2, 6)
        roots = make_roots(rng, api, ndest, n_leaves, rng.randint(1, 3), samename=rng.choice([None] * 5 + ["leaf", "nested"]),
                           p_opt=rng.choice([0.0, 0.0, 0.5]))
        leaves = forest_leaves(roots)
        cases.append(build_case(rng, api, nm, ndest, roots, random_subsets(rng, leaves),
                                gen_mode="NESTED" if (rng.random() < 0.2 and ndest == 1) else "FLAT"))
    # (2b) a top-level field named like the destination (leaf and nested), every API variant, files mention it
    for i in range(160 if quick else 2400):
        api, nm, ndest = apis[i % len(apis)]
        roots = make_roots(rng, api, ndest, rng.randint(2, 5), rng.randint(2, 3), samename=["nested", "leaf"][i // len(apis) % 2])
        leaves = forest_leaves(roots)
        subsets = random_subsets(rng, leaves)
        for p, _ in leaves:
            if p[1] == p[0]:
                subsets[p] |= {rng.choice(["ctor", "clif"])}
        cases.append(build_case(rng, api, nm, ndest, roots, subsets, gen_mode="NESTED" if (i % 6 == 5 and ndest == 1) else "FLAT"))
    # (2c) Optional[Dataclass] = None members: mentioned by nobody / only by files or set_defaults / by the instance / by options
    for i in range(240 if quick else 3600):
        api, nm, ndest = apis[i % len(apis)]
        roots = make_roots(rng, api, ndest, rng.randint(2, 6), rng.randint(2, 3), p_opt=1.0)
        leaves = forest_leaves(roots)
        subsets = random_subsets(rng, leaves)
        mode = i // len(apis) % 4
        for a in opt_member_paths(roots):
            below = [p for p, _ in leaves if p[:len(a)] == a]
            if mode == 0:      # only file layers (and set_defaults where the API has it) mention it
                layer = rng.choice(["ctor", "clif"] + (["dflt"] if api == "ap" else []))
                for p in below:
                    subsets[p] = {"def"} | ({layer} if rng.random() < 0.7 or p == below[0] else set())
            elif mode == 1:    # nobody mentions it
                for p in below:
                    subsets[p] = {"def"}
        via = "sd_dict" if (mode == 0 and api == "ap" and any("dflt" in subsets[p] for p, _ in leaves) and i % 2 == 0) else None
        cases.append(build_case(rng, api, nm, ndest, roots, subsets, via=via, nulls_ok=(i % 3 != 0)))
    # (2d) falsy values (0, "") in every layer kind: definition, default instance, set_defaults, both file layers, command line
    for i in range(200 if quick else 3000):
        api, nm, ndest = apis[i % len(apis)]
        roots = make_roots(rng, api, ndest, rng.randint(1, 4), rng.randint(1, 3), p_opt=0.3 if i % 5 == 0 else 0.0)
        leaves = forest_leaves(roots)
        subsets = random_subsets(rng, leaves)
        layer = ["ctor", "clif", "dflt", "cli", "def"][i // len(apis) % 5]
        for p, _ in leaves:
            subsets[p] |= {layer, "def"}
        via = None
        if layer == "dflt" and api == "ap":
            via = ["instance", "sd_instance", "sd_dict"][i // (5 * len(apis)) % 3]
        cases.append(build_case(rng, api, nm, ndest, roots, subsets, via=via, nulls_ok=False, p_falsy=0.6))
    # (3) probes
    for i in range(330 if quick else 5000):
        api, nm, ndest = rng.choice(apis)
        roots = make_roots(rng, api, ndest, rng.randint(2, 5), rng.randint(2, 3), samename="any" if i % 9 == 4 else None)
        leaves = forest_leaves(roots)
        probe = PROBES[i % len(PROBES)]
        subsets = random_subsets(rng, leaves)
        via = "sd_dict" if probe == "unknown_sd" and api == "ap" else None
        if via == "sd_dict":
            subsets[leaves[0][0]].add("dflt")
        cases.append(build_case(rng, api, nm, ndest, roots, subsets, probe=probe, via=via, nulls_ok=(i % 2 == 0)))
    # (4) dict_union directly
    cases += union_cases(rng, 250 if quick else 4000)
    return cases


# --------------------------------------------------------------------------------------------------
# implementation side


def class_source(roots):
    lines = ["from dataclasses import dataclass, field", "from typing import Optional", ""]
    done = []

    def emit(node):
        for f in node["fields"]:
            if "cls" in f:
                emit(f["cls"])
        body = []
        for f in node["fields"]:
            if "cls" in f:
                sub = f["cls"]
                if f.get("optional"):
                    body.append(f"    {f['name']}: Optional[{sub['cname']}] = None")
                elif all(lf["def"] != ["missing"] for _, lf in leaves_of(sub)):
                    body.append(f"    {f['name']}: {sub['cname']} = field(default_factory={sub['cname']})")
                else:
                    body.append(f"    {f['name']}: {sub['cname']}")
            else:
                ty = {"int": "int", "str": "str", "optint": "Optional[int]"}[f["kind"]]
                if f["def"] == ["missing"]:
                    body.append(f"    {f['name']}: {ty}")
                elif f["def"] == ["none"]:
                    body.append(f"    {f['name']}: {ty} = None")
                else:
                    body.append(f"    {f['name']}: {ty} = {f['def'][1]!r}")
        done.append("\n".join(["@dataclass(kw_only=True)", f"class {node['cname']}:"] + (body or ["    pass"]) + [""]))

    for r in roots:
        emit(r["cls"])
    return "\n".join(lines + done)


class NotCanonical(Exception):
    """the observed object has no canonical form in this property's vocabulary: its own outcome class, never confused
    with a TypeError of the implementation"""


def _plain(obj):
    """a value held by a field (or a raw document): None / int / str exactly (bool, float, tuple, ... are kept apart by
    refusing them), dict with str keys recursively"""
    if obj is None or type(obj) in (int, str):
        return obj
    if type(obj) is dict and all(type(k) is str for k in obj):
        return {k: _plain(v) for k, v in obj.items()}
    raise NotCanonical(f"{type(obj).__name__}")


def _tree_of(obj, node=None, ns=None, optional=False):
    """a parsed / default dataclass instance as a JSON tree.  With `node` (the declared dataclass) the instance must be of
    exactly the class declared at that position - a raw dict, a same-named other class or a subclass is not an instance of it -
    and hold exactly its fields; an Optional member may be None."""
    import dataclasses

    if node is None:
        if dataclasses.is_dataclass(obj) and not isinstance(obj, type):
            return {f.name: _tree_of(getattr(obj, f.name)) for f in dataclasses.fields(obj)}
        return _plain(obj)
    if obj is None and optional:
        return None
    if type(obj) is not ns[node["cname"]]:
        raise NotCanonical(f"{type(obj).__name__}-where-{node['cname']}-declared")
    names = [f.name for f in dataclasses.fields(obj)]
    if names != [f["name"] for f in node["fields"]] or any(not hasattr(obj, n) for n in names):
        raise NotCanonical("fields-differ")
    out = {}
    for f in node["fields"]:
        v = getattr(obj, f["name"])
        out[f["name"]] = _tree_of(v, f["cls"], ns, bool(f.get("optional"))) if "cls" in f else _plain(v)
    return out


def _instance(ns, node, doc):
    kw = {}
    for f in node["fields"]:
        if "cls" in f:
            sub_doc = (doc or {}).get(f["name"])
            has_default = f.get("optional") or all(lf["def"] != ["missing"] for _, lf in leaves_of(f["cls"]))
            if sub_doc is not None or not has_default:
                kw[f["name"]] = _instance(ns, f["cls"], sub_doc or {})
        elif doc is not None and f["name"] in doc:
            kw[f["name"]] = doc[f["name"]]
    return ns[node["cname"]](**kw)


def _argv_options(case):
    roots = case["roots"]
    eff_nm = case["nm"] if case["nm"] is not None else ("WITHOUT_ROOT" if case["api"] == "parse" else "DEFAULT")
    out = []
    for p, f in forest_leaves(roots):
        d = case["cli"]
        ok = True
        for k in p:
            if not isinstance(d, dict) or k not in d:
                ok = False
                break
            d = d[k]
        if not ok:
            continue
        if case["gen"] == "NESTED":
            name = ".".join(p[1:] if eff_nm == "WITHOUT_ROOT" else p)
        else:
            name = p[-1]
        out += [f"--{name}", str(d)]
    return out


def run_impl(cases):
    import copy
    import json
    import pathlib
    import shutil

    import yaml
    from implutil import outcome_of, reset_simple_parsing_state

    scratch = os.path.join(WORK, f"C06-files-{os.getpid()}")
    os.makedirs(scratch, exist_ok=True)
    out = []
    try:
        for ci, case in enumerate(cases):
            if case["kind"] == "union":
                from simple_parsing.utils import dict_union

                r = outcome_of(lambda: _tree_of(dict_union(copy.deepcopy(case["a"]), copy.deepcopy(case["b"]))))
                out.append(dict(obs=r[:2]))
                continue
            reset_simple_parsing_state()
            import simple_parsing as sp
            from simple_parsing import ArgumentParser
            from simple_parsing.wrappers.field_wrapper import ArgumentGenerationMode, NestedMode

            ns = {}
            exec(compile(class_source(case["roots"]), "<c06>", "exec", dont_inherit=True), ns)
            roots = case["roots"]

            def write(fl, tag, j, doc=None):
                # a small fixed pool of names per worker: consecutive cases (and the two steps of a case) reuse the same paths
                doc = fl["doc"] if doc is None else doc
                raw = doc.get(roots[0]["dest"], {}) if case["unrooted"] else doc
                path = os.path.join(scratch, f"{tag}{j}.{fl['fmt']}")
                with open(path, "w") as fh:
                    if fl["fmt"] == "json":
                        json.dump(raw, fh)
                    else:
                        yaml.safe_dump(raw, fh, sort_keys=False)
                return path, raw

            pre = case.get("pre")
            if pre:
                for j, fl in enumerate(case["ctor"]):
                    write(fl, "k", j, pre["ctor"][j])
                for j, fl in enumerate(case["clif"]):
                    write(fl, "c", j, pre["clif"][j])
            ctor_w = [(os.path.join(scratch, f"k{j}.{fl['fmt']}"), None) for j, fl in enumerate(case["ctor"])]
            clif_w = [(os.path.join(scratch, f"c{j}.{fl['fmt']}"), None) for j, fl in enumerate(case["clif"])]
            ctor_paths = [p for p, _ in ctor_w]
            if case["ctor_form"] == "str" and len(ctor_paths) == 1:
                config_path = ctor_paths[0]
            elif case["ctor_form"] == "path" and len(ctor_paths) == 1:
                config_path = pathlib.Path(ctor_paths[0])
            else:
                config_path = ctor_paths if ctor_paths else None
            argv = _argv_options(case)
            if case["cli_given"]:
                cp = ["--config_path"] + [p for p, _ in clif_w]
                argv = cp + argv if case["cli_pos"] == "front" else argv + cp
            seen = {"inst": {}, "sdefs": []}
            insts = {}
            if case["via"] in ("instance", "sd_instance"):
                for r in roots:
                    if r["dest"] in case["dflt"]:
                        insts[r["dest"]] = _instance(ns, r["cls"], case["dflt"][r["dest"]])
            if case["via"] == "instance":
                seen["inst"] = {d: _tree_of(i) for d, i in insts.items()}
            elif case["via"] == "sd_instance":
                seen["sdefs"] = [{d: _tree_of(i)} for d, i in insts.items()]
            elif case["via"] == "sd_dict":
                seen["sdefs"] = [{d: copy.deepcopy(v)} for d, v in case["dflt"].items()]
            seen["sdefs"] = seen["sdefs"] + [{d: copy.deepcopy(v)} for more in case.get("sd_more", []) for d, v in more.items()]
            kw = {}
            if case["nm"] is not None:
                kw["nested_mode"] = NestedMode[case["nm"]]
            if case["gen"] != "FLAT":
                kw["argument_generation_mode"] = ArgumentGenerationMode[case["gen"]]
            if case["acp"] is not None:
                kw["add_config_path_arg"] = case["acp"]

            def go():
                if case["api"] == "parse":
                    r0 = roots[0]
                    res = sp.parse(ns[r0["cls"]["cname"]], config_path=config_path, args=argv, default=insts.get(r0["dest"]), **kw)
                    return {r0["dest"]: _tree_of(res, r0["cls"], ns)}
                parser = ArgumentParser(config_path=config_path, **kw)
                for r in roots:
                    if case["via"] == "instance" and r["dest"] in insts:
                        parser.add_arguments(ns[r["cls"]["cname"]], r["dest"], default=insts[r["dest"]])
                    else:
                        parser.add_arguments(ns[r["cls"]["cname"]], r["dest"])
                if case["via"] == "sd_instance":
                    for d, i in insts.items():
                        parser.set_defaults(**{d: i})
                elif case["via"] == "sd_dict":
                    for d, v in case["dflt"].items():
                        parser.set_defaults(**{d: copy.deepcopy(v)})  # the implementation may write into what it is given
                for more in case.get("sd_more", []):
                    for d, v in more.items():
                        parser.set_defaults(**{d: copy.deepcopy(v)})
                nsp = parser.parse_args(argv)
                return {r["dest"]: _tree_of(getattr(nsp, r["dest"]), r["cls"], ns) for r in roots}

            pre_outcome = None
            if pre:
                pre_outcome = outcome_of(go)[0]     # first parse, on the earlier contents: not judged
                reset_simple_parsing_state()
            ctor_w = [write(fl, "k", j) for j, fl in enumerate(case["ctor"])]
            clif_w = [write(fl, "c", j) for j, fl in enumerate(case["clif"])]
            r = outcome_of(go)
            out.append(dict(obs=r[:2], msg=(r[2] if len(r) > 2 and r[0] != "ok" else "")[:200], inst=seen["inst"], sdefs=seen["sdefs"],
                            ctor=[raw for _, raw in ctor_w], clif=[raw for _, raw in clif_w], argv_len=len(argv), pre=pre_outcome))
    finally:
        shutil.rmtree(scratch, ignore_errors=True)
    return out


# --------------------------------------------------------------------------------------------------
# spec (Python mirror of Model/LayersSpec.v)

RESERVED = ["_type_"]


def subtree(q, t):
    for k in q:
        if not isinstance(t, dict) or k not in t:
            return ("absent",)
        t = t[k]
    return ("at", t)


def shape_ok(node, t):
    if not isinstance(t, dict):
        return False
    for f in node["fields"]:
        if f["name"] in t:
            if "cls" in f:
                if f.get("optional") and t[f["name"]] is None:
                    continue
                if not shape_ok(f["cls"], t[f["name"]]):
                    return False
            elif isinstance(t[f["name"]], dict):
                return False
    return True


def names_nonfield(node, t):
    if not isinstance(t, dict):
        return False
    names = [f["name"] for f in node["fields"]]
    if any(k not in names and k not in RESERVED for k in t):
        return True
    return any("cls" in f and f["name"] in t and names_nonfield(f["cls"], t[f["name"]]) for f in node["fields"])


def forest(fn, roots, t, allq):
    if not isinstance(t, dict):
        return False
    rs = [fn(r["cls"], t[r["dest"]]) for r in roots if r["dest"] in t]
    return all(rs) if allq else any(rs)


def by_dest(case, raw):
    return {case["roots"][0]["dest"]: raw} if case["unrooted"] else raw


def first_mention(q, docs_high_to_low):
    for d in docs_high_to_low:
        s = subtree(q, d)
        if s[0] == "at":
            return s
    return ("absent",)


def verdict(case, obs):
    roots = case["roots"]
    ctor = [by_dest(case, r) for r in obs["ctor"]]
    clif = [by_dest(case, r) for r in obs["clif"]] if case["cli_given"] else []
    docs = obs["sdefs"] + ctor + clif
    if any(forest(names_nonfield, roots, d, False) for d in docs):
        return ("mustfail",)
    if not all(forest(shape_ok, roots, d, True) for d in [obs["inst"], case["cli"]] + docs):
        return ("unspecified",)
    out = []
    order = [case["cli"]] + clif[::-1] + ctor[::-1] + obs["sdefs"][::-1] + [obs["inst"]]

    def collapsed(a):
        for d in order:
            s = subtree(a, d)
            if s[0] == "at" and (s[1] is None or isinstance(s[1], dict)):
                return s[1] is None
        return True

    gone = [a for a in opt_member_paths(roots) if collapsed(a)]
    for a in gone:
        if not any(a[:len(b)] == b and a != b for b in gone):
            out.append((a, ("at", None), "optional-member-unmentioned", {"kind": "optional member"}))
    for p, f in forest_leaves(roots):
        if any(p[:len(a)] == a for a in gone):
            continue
        m = first_mention(p, order)
        src = None
        if m[0] == "absent":
            if f["def"] != ["missing"]:
                m = ("at", None if f["def"] == ["none"] else f["def"][1])
                src = "def"
        else:
            for name, group in (("cli", [case["cli"]]), ("clif", clif[::-1]), ("ctor", ctor[::-1]), ("sdefs", obs["sdefs"][::-1]),
                                ("inst", [obs["inst"]])):
                if first_mention(p, group)[0] == "at":
                    src = name
                    break
        out.append((p, m, src, f))
    return ("leaves", out)


def provenance(case, obs, p, f, got):
    """which source holds exactly the observed value at p (markers are distinct per leaf, layer and file): the evidence that
    tells one cause of a lost mention from another"""
    ctor = [by_dest(case, r) for r in obs["ctor"]]
    clif = [by_dest(case, r) for r in obs["clif"]] if case["cli_given"] else []
    if got[0] != "at":
        return "absent"
    for name, group in (("cli", [case["cli"]]), ("clif", clif), ("ctor", ctor), ("sdefs", obs["sdefs"]), ("inst", [obs["inst"]])):
        if any(subtree(p, d) == got for d in group):
            return name
    if f["def"] != ["missing"] and got == ("at", None if f["def"] == ["none"] else f["def"][1]):
        return "def"
    pre = case.get("pre") or {}
    if any(subtree(p, by_dest_doc(case, d)) == got for name in ("ctor", "clif") for d in pre.get(name, [])):
        return "earlier-content-of-the-file"
    return "other"


def by_dest_doc(case, doc):
    return doc  # `pre` documents are stored keyed by destination, like case["ctor"][j]["doc"]


def null_fallback(case, obs, p, f):
    """what FieldWrapper.default yields when _default is None (the mechanism of the listed null findings): the default
    instance's attribute when add_arguments got one, else the definition default; never what an earlier document said"""
    s = subtree(p, obs["inst"])
    if s[0] == "at":
        return "inst", s
    if f["def"] != ["missing"]:
        return "def", ("at", None if f["def"] == ["none"] else f["def"][1])
    return "def", ("at", None)


def judge(case, obs):
    """-> None | (reason, signature)"""
    o = obs["obs"]
    if case["kind"] == "union":
        if o[0] != "ok":
            return (f"dict_union raised {o}", "union:raise")
        a, b, u = case["a"], case["b"], o[1]
        if not compatible(a, b):
            return None
        for p in value_paths(a) + value_paths(b) + value_paths(u):
            want = leaf_lookup(p, b)
            if want[0] == "absent":
                want = leaf_lookup(p, a)
            if leaf_lookup(p, u) != want:
                return (f"dict_union(a, b) at {'.'.join(p)}: {leaf_lookup(p, u)} but right-biased leaf-wise merge gives {want}", "union:law")
        return None
    v = verdict(case, obs)
    if v[0] == "unspecified":
        return None
    if v[0] == "mustfail":
        if o[0] == "exit" and o[1] == 0:
            return (f"a key that names no field ({case['probe']}) ended the parse with exit status 0, which is not an error", f"unknown-key-exit0:{case['probe']}")
        if o[0] == "ok":
            return (f"a key that names no field ({case['probe']}) was silently dropped; result {o[1]}", f"unknown-key-dropped:{case['probe']}")
        return None
    leaves = v[1]
    if o[0] != "ok":
        if any(m[0] == "absent" for _, m, _, _ in leaves):
            return None
        tag = ""
        docs = obs["ctor"] + obs["clif"] + obs["sdefs"]
        if any(_has_key(d, "_type_") for d in docs):
            tag = "type-tag:"
        return (f"every field is given a value by some source but the call ended with {o} {obs.get('msg', '')}", f"{tag}{o[0]}:{o[1]}")
    for p, m, src, f in leaves:
        if m[0] == "absent":
            continue
        got = subtree(p, o[1])
        if got != m and f["kind"] == "optional member":
            return (f"Optional member {'.'.join(p)}: no source gives it a section, so it must stay None; observed {got}", "optional-member-not-none")
        if got != m and got[0] == "absent":
            return (f"field {'.'.join(p)} ({f['kind']}): `{src}` gives it {m[1]!r}, but its Optional parent came back as None", f"optional-member-none:{src}")
        if got != m:
            where = provenance(case, obs, p, f, got)
            text = f"field {'.'.join(p)} ({f['kind']}): highest-priority source mentioning it is `{src}` with {m[1]!r}, observed {got} (the value of `{where}`)"
            if m[1] is None and src in ("ctor", "clif", "sdefs"):
                fb, fbv = null_fallback(case, obs, p, f)
                if got == fbv:
                    return (text, f"null-from-{src}-lost:fell-back-to-{fb}")
                return (text, f"null-from-{src}-lost:got-{where}")
            kind = "null" if m[1] is None else "value"
            return (text, f"{kind}-from-{src}-lost:got-{where}")
    return None


def _has_key(d, key):
    if isinstance(d, dict):
        return key in d or any(_has_key(v, key) for v in d.values())
    return False


def compatible(a, b):
    if isinstance(a, dict) and isinstance(b, dict):
        return all(compatible(a[k], b[k]) for k in a if k in b)
    return not isinstance(a, dict) and not isinstance(b, dict)


def value_paths(t):
    if isinstance(t, dict):
        return [[k] + p for k, c in t.items() for p in value_paths(c)]
    return [[]]


def leaf_lookup(p, t):
    s = subtree(p, t)
    if s[0] == "at" and isinstance(s[1], dict):
        return ("absent",)
    return s


def py_spec(case, obs):
    j = judge(case, obs)
    return j[0] if j else None


def signature(case, obs, reason):
    j = judge(case, obs)
    return j[1] if j else "coq-spec-only"


def nontrivial(case, obs):
    if case["kind"] == "union":
        return bool(case["a"]) and bool(case["b"])
    return bool(case["probe"]) or case["via"] != "none" or bool(case["ctor"]) or bool(case["clif"]) or bool(case["cli"])


def features(case, obs):
    if case["kind"] == "union":
        return {"kind": "union", "compatible": compatible(case["a"], case["b"])}
    o = obs["obs"]
    return {"kind": "parse", "falsy_values_in": "+".join(case.get("falsy", [])) or "-", "two_step": bool(case.get("pre")), "optional_members": len(opt_member_paths(case["roots"])), "field_named_like_dest": any(f["name"] == r["dest"] for r in case["roots"] for f in r["cls"]["fields"]), "api": f"{case['api']}/{case['nm']}/{len(case['roots'])}", "gen": case["gen"], "via": case["via"],
            "nctor": len(case["ctor"]), "nclif": len(case["clif"]) if case["cli_given"] else "-", "probe": case["probe"],
            "leaves": len(forest_leaves(case["roots"])), "depth": max(depth_of(r["cls"]) for r in case["roots"]),
            "nulls": bool(case["nulls"]), "ctor_form": case["ctor_form"], "acp": case["acp"],
            "fmt": "+".join(sorted({f["fmt"] for f in case["ctor"] + case["clif"]})) or "-",
            "outcome": o[0] + (":" + str(o[1]) if o[0] != "ok" else "")}


# --------------------------------------------------------------------------------------------------
# Coq emission


def ctree(t):
    if t is None:
        return "PNull"
    if isinstance(t, bool):
        raise ValueError("bool in a document")
    if isinstance(t, int):
        return f"(PVal (VInt {cZ(t)}))"
    if isinstance(t, str):
        return f"(PVal (VStr {cstr(t)}))"
    if isinstance(t, dict):
        return "(PMap " + clist([cpair(cstr(k), ctree(v)) for k, v in t.items()]) + ")"
    raise ValueError(f"unrepresentable {t!r}")


def cwtree(node, optional=False):
    fs = []
    for f in node["fields"]:
        if "cls" in f:
            fs.append(cpair(cstr(f["name"]), cwtree(f["cls"], bool(f.get("optional")))))
        else:
            d = f["def"]
            dd = "None" if d == ["missing"] else ("(Some PNull)" if d == ["none"] else f"(Some {ctree(d[1])})")
            fs.append(cpair(cstr(f["name"]), f"(WLeaf {cbool(f['kind'] == 'optint')} {dd} None PNull)"))
    return f"(WClass {'(COpt false false)' if optional else 'CPlain'} " + clist(fs) + ")"


def cobs(o):
    return outcome(["ok", ctree(o[1])] if o[0] == "ok" else o)


def to_coq(case, obs):
    if case["kind"] == "union":
        return f"UnionCase {ctree(case['a'])} {ctree(case['b'])} {cobs(obs['obs'])}"
    nm = "None" if case["nm"] is None else f"(Some NM_{case['nm']})"
    api = f"(ApiParse {nm})" if case["api"] == "parse" else f"(ApiParser {nm})"
    ws = clist([cpair(cstr(r["dest"]), cwtree(r["cls"])) for r in case["roots"]])
    acp = "None" if case["acp"] is None else copt(cbool(case["acp"]))
    return ("ParseCase (mkpcase " + " ".join([
        api, ws, cbool(case["unrooted"]), ctree(obs["inst"]), clist([ctree(d) for d in obs["sdefs"]]), acp,
        clist([ctree(d) for d in obs["ctor"]]), cbool(case["cli_given"]), clist([ctree(d) for d in obs["clif"]]),
        ctree(case["cli"]), cobs(obs["obs"])]) + ")")


# --------------------------------------------------------------------------------------------------
# shrinking


def shrink(case):
    import copy

    if case["kind"] == "union":
        for side in ("a", "b"):
            for k in list(case[side]):
                c = copy.deepcopy(case)
                del c[side][k]
                yield c
        return
    for name in ("ctor", "clif"):
        for j in range(len(case[name])):
            c = copy.deepcopy(case)
            del c[name][j]
            if c.get("pre"):
                del c["pre"][name][j]
            if name == "clif" and not c["clif"]:
                c["cli_given"] = False
            if len(c["ctor"]) != 1:
                c["ctor_form"] = "list"
            yield c
    if case["cli"]:
        c = copy.deepcopy(case)
        c["cli"] = {}
        yield c
    if case.get("pre"):
        c = copy.deepcopy(case)
        c["pre"] = None
        yield c
    if case.get("sd_more"):
        c = copy.deepcopy(case)
        c["sd_more"] = []
        yield c
    if case["via"] != "none" and not case.get("sd_more"):
        c = copy.deepcopy(case)
        c["via"], c["dflt"] = "none", None
        for _, f in forest_leaves(c["roots"]):
            pass
        if all(f["def"] != ["missing"] for _, f in forest_leaves(c["roots"])):
            yield c
    # drop single mentions from documents
    for name in ("ctor", "clif"):
        for j, fl in enumerate(case[name]):
            for p in _doc_paths(fl["doc"]):
                if len(p) < 2:
                    continue
                c = copy.deepcopy(case)
                d = c[name][j]["doc"]
                for k in p[:-1]:
                    d = d[k]
                del d[p[-1]]
                yield c
    if case["gen"] != "FLAT":
        c = copy.deepcopy(case)
        c["gen"] = "FLAT"
        yield c
    # drop a whole destination, or one leaf, together with everything said about it
    if len(case["roots"]) == 2:
        for j in (1, 0):
            c = copy.deepcopy(case)
            gone = c["roots"].pop(j)["dest"]
            if c["api"] == "ap" and (c["nm"] or "DEFAULT") == "WITHOUT_ROOT":
                continue  # the file layout would change from keyed-by-destination to un-rooted
            for doc in _docs_of(c):
                doc.pop(gone, None)
            yield c
    for p, _ in forest_leaves(case["roots"]):
        if len(forest_leaves(case["roots"])) < 2:
            break
        c = copy.deepcopy(case)
        node = [r for r in c["roots"] if r["dest"] == p[0]][0]["cls"]
        for k in p[1:-1]:
            node = [f for f in node["fields"] if f["name"] == k][0]["cls"]
        if len(node["fields"]) < 2:
            continue
        node["fields"] = [f for f in node["fields"] if f["name"] != p[-1]]
        for doc in _docs_of(c):
            d = doc
            for k in p[:-1]:
                d = d.get(k) if isinstance(d, dict) else None
            if isinstance(d, dict):
                d.pop(p[-1], None)
        yield c
    for fl_name in ("ctor", "clif"):
        for j, fl in enumerate(case[fl_name]):
            if fl["fmt"] != "json":
                c = copy.deepcopy(case)
                c[fl_name][j]["fmt"] = "json"
                yield c


def _docs_of(c):
    return [fl["doc"] for fl in c["ctor"] + c["clif"]] + [c["cli"]] + ([c["dflt"]] if c["dflt"] is not None else []) + list(c.get("sd_more", []))


def _doc_paths(d, prefix=()):
    out = []
    if isinstance(d, dict):
        for k, v in d.items():
            out.append(prefix + (k,))
            out += _doc_paths(v, prefix + (k,))
    return out
