"""C04 — invalid command lines are rejected with exit status 2; accepted results are well-typed."""
from __future__ import annotations

import random

import leafdsl as L
from props import C02

ID = "C04"
FACTS = ["Bool", "Leaf", "LeafSrc"]
COQ_HEADER = "From SPV Require Import CorrDefs.CorrC04."
COQ_CASE_TYPE = "case"
RULE = ("a valid command line from C02's generator (1-4 fields over the CLI grammar, some without default = required), then exactly one "
        "mutation of each class {ill-typed token, arity +-1 on fixed-length tuples (and a surplus token on scalars), value outside an "
        "Enum/Literal, removed required option, unknown option that abbreviates nothing, value given to a negative boolean flag}, plus a "
        "separate malformed stream (random tokens, dangling `=`); the unmutated command lines are kept and checked for annotation "
        "conformance of every field. Non-trivial = a mutated case or a valid case with at least one written field.")
TRUSTED = C02.TRUSTED
ASSUMPTIONS = ["user __post_init__ hooks are not exercised"]

BAD = {"int": ["abc", "1.5", "", "0x10", "1 2"], "float": ["x", "1,5", "", "1e"], "bool": ["maybe", "2", "", "5", "-2"], "enum": ["PURPLE", "red", ""]}


def _mutations(rng, case):
    """yield (class, mutated case)"""
    fields = case["fields"]
    order = C02.order_of(case)

    def clone():
        return {"fields": [dict(f) for f in fields], "order": list(order)}

    for i, f in enumerate(fields):
        t = f["ty"]
        inner = t["item"] if t["k"] == "opt" else t
        k = inner["k"]
        # ill-typed token / out-of-set
        item = inner
        container = None
        if k in ("list", "tupvar"):
            item, container = inner["item"], k
        elif k == "tupfix":
            # the ill-typed token goes to a RANDOM position of a fixed tuple (a converter chosen by position must reject it
            # there: seeded change C04-06 parsed every position of Tuple[int, bool] with the first item's converter)
            cand = [j for j, x in enumerate(inner["items"]) if x["k"] in BAD]
            pos = rng.choice(cand) if cand else 0
            item, container = inner["items"][pos], k
        ik = item["k"]
        if ik in BAD:
            bad = rng.choice(BAD[ik])
            c = clone()
            g = c["fields"][i]
            if container == "tupfix":
                toks = ["1" if x["k"] in ("int", "float") else ("True" if x["k"] == "bool" else (x["members"][0] if x["k"] == "enum" else "s")) for x in inner["items"]]
                toks[pos] = bad
            elif container:
                toks = [bad]
            else:
                toks = [bad]
            g["tokens"], g["assign"], g["spell"] = toks, None, "sep"
            if i not in c["order"]:
                c["order"].append(i)
            yield ("out-of-set" if ik == "enum" else "ill-typed") + ":" + C02._shape(t), c
        if k == "lit":
            c = clone()
            g = c["fields"][i]
            g["tokens"], g["assign"], g["spell"] = ["zz"], None, "sep"
            if i not in c["order"]:
                c["order"].append(i)
            yield "out-of-set:" + C02._shape(t), c
        # arity
        if k == "tupfix":
            n = len(inner["items"])
            good = [("1" if x["k"] in ("int", "float") else ("True" if x["k"] == "bool" else (x["members"][0] if x["k"] == "enum" else "s"))) for x in inner["items"]]
            for toks, name in ((good[:-1], "arity-1"), (good + [good[-1]], "arity+1")):
                if name == "arity-1" and t["k"] == "opt" and n == 1:
                    pass
                c = clone()
                g = c["fields"][i]
                g["tokens"], g["assign"], g["spell"] = toks, None, "sep"
                if i not in c["order"]:
                    c["order"].append(i)
                yield name + ":" + C02._shape(t), c
        if k in ("int", "str", "float") and t["k"] != "opt":
            c = clone()
            g = c["fields"][i]
            g["tokens"], g["assign"], g["spell"] = ["1", "2"], None, "sep"
            if i not in c["order"]:
                c["order"].append(i)
            yield "arity+1:" + C02._shape(t), c
        # value on the negative flag of a bool field
        if t["k"] == "bool":
            c = clone()
            g = c["fields"][i]
            g["tokens"], g["assign"], g["spell"], g["neg"] = [rng.choice(["true", "False", "1"])], None, rng.choice(["sep", "eq"]), True
            if i not in c["order"]:
                c["order"].append(i)
            yield "neg-flag-with-value", c
        # removed required option
        if f.get("default") is not None and t["k"] not in ("opt",):
            c = clone()
            g = c["fields"][i]
            g["default"], g["assign"], g["tokens"] = None, None, None
            c["order"] = [j for j in c["order"] if j != i]
            yield "missing-required:" + C02._shape(t), c
    c = clone()
    c["extra_argv"] = rng.choice([["--zzz", "1"], ["--qq"], ["--f99=3"]])
    c["unknown_opt"] = True
    yield "unknown-option", c


def gen(tier, seed):
    rng = random.Random(f"C04-{seed}")
    base = C02.gen("quick", seed)
    rng.shuffle(base)
    n_base = 260 if tier == "quick" else 2500
    if tier == "thorough":
        base = base + C02.gen("thorough", seed + 1)
        rng.shuffle(base)
    cases = []
    for b in base[:n_base]:
        b = {"fields": b["fields"], "order": C02.order_of(b)}
        cases.append(dict(b, mutation=None))
        muts = list(_mutations(rng, b))
        rng.shuffle(muts)
        for name, m in muts[: (4 if tier == "quick" else 8)]:
            cases.append(dict(m, mutation=name))
    # malformed stream
    junk = ["=", "--=", "--f0=", "-", "--f0", "--f0==1", "--f0", "--f1", "x", "--", "--f0=1=2", "--F0", "1"]
    for b in base[: (60 if tier == "quick" else 600)]:
        b = {"fields": b["fields"], "order": []}
        extra = [rng.choice(junk) for _ in range(rng.randint(1, 3))]
        if any(e in ("--", ) or e.startswith("--f") for e in extra):
            continue  # would address a real field: not necessarily invalid
        cases.append(dict(b, extra_argv=extra, unknown_opt=True, mutation="junk"))
    return cases


run_impl = C02.run_impl


def py_spec(case, obs):
    oc = obs["outcome"]
    if case.get("mutation"):
        if oc[0] == "ok":
            return f"mutation {case['mutation']} accepted: argv {obs['argv']} -> {obs['values']}"
        if oc[:2] != ["exit", 2]:
            return f"mutation {case['mutation']}: argv {obs['argv']} ended with {oc} instead of exit status 2"
        if not obs.get("stderr"):
            return f"mutation {case['mutation']}: rejected without a message on stderr"
        return None
    if oc[0] == "ok":
        for i, f in enumerate(case["fields"]):
            if not conforms(obs["values"][i], f["ty"]):
                return f"field f{i}: {L.annotation(f['ty'])} received {obs['values'][i]} (argv {obs['argv']})"
        return None
    if oc[:2] == ["exit", 2]:
        return None
    return f"argv {obs['argv']} ended with {oc} (neither a result nor exit status 2)"


def conforms(v, t):
    k, vt = t["k"], v["t"]
    if k == "opt":
        return vt == "none" or conforms(v, t["item"])
    if k in ("int", "float", "str", "bool", "path"):
        return vt == k
    if k == "enum":
        return vt == "enum" and v["c"] == t["name"] and v["v"] in t["members"]
    if k == "lit":
        return any((vt == "str" and v["v"] == c) if isinstance(c, str) else (vt == "int" and v["v"] == str(c)) for c in t["choices"])
    if k == "list":
        return vt == "list" and all(conforms(x, t["item"]) for x in v["v"])
    if k == "tupvar":
        return vt == "tuple" and all(conforms(x, t["item"]) for x in v["v"])
    if k == "tupfix":
        return vt == "tuple" and len(v["v"]) == len(t["items"]) and all(conforms(x, u) for x, u in zip(v["v"], t["items"]))
    return False


def signature(case, obs, reason):
    m = case.get("mutation") or "valid"
    oc = ":".join(str(x) for x in obs["outcome"][:2])
    return f"{m}:{oc}".replace(" ", "")


def nontrivial(case, obs):
    return bool(case.get("mutation")) or any(f.get("assign") is not None for f in case["fields"])


def features(case, obs):
    return {"mutation": (case.get("mutation") or "none").split(":")[0], "outcome": ":".join(str(x) for x in obs["outcome"][:2])}


def to_coq(case, obs):
    return C02.to_coq(case, obs, expect_reject=bool(case.get("mutation")))


def shrink(case):
    fs = case["fields"]
    order = C02.order_of(case)
    for i in range(len(fs)):
        if len(fs) > 1 and fs[i].get("tokens") is None and not fs[i].get("neg"):
            keep = [j for j in range(len(fs)) if j != i]
            remap = {j: n for n, j in enumerate(keep)}
            c = dict(case)
            c["fields"] = [fs[j] for j in keep]
            c["order"] = [remap[j] for j in order if j != i]
            yield c
