"""C09 — plain argparse declarations on a simple_parsing parser behave as on argparse.ArgumentParser; the namespace
stays clean (differential run against the stdlib parser, which gets stand-ins for the dataclass options)."""
from __future__ import annotations

import json
import random

from coqemit import cbool, clist, copt, cstr, cstrlist, outcome

ID = "C09"
FACTS = ["Coexist"]
COQ_HEADER = "From SPV Require Import CorrDefs.CorrC09."
COQ_CASE_TYPE = "case"
RULE = ("argparse programs generated over the feature alphabet {positionals with nargs None/?/*/+/2, store, store_true, count, "
        "append, store_const, nargs ?/*/+/2, choices, required, dest=, default=SUPPRESS, argument groups (with and without "
        "argument_default/conflict_handler overrides, falsy ones included), mutually exclusive groups (required or not, inside a "
        "group or not), set_defaults before/after, parents=[1-2 stdlib or simple_parsing parsers with options, positionals, "
        "set_defaults], parser keywords add_help/prefix_chars/argument_default/conflict_handler/allow_abbrev} declared on a "
        "simple_parsing.ArgumentParser that also carries one of 14 dataclass forests (none, one class, nested, a class with a POSITIONAL field at an underscored destination under the default / DASH / UNDERSCORE_AND_DASH dash variants, same class at two "
        "destinations under AUTO and ALWAYS_MERGE, required/Optional/List fields, init=False and cmd=False fields, subgroups, "
        "default=SUPPRESS, destination colliding with a plain dest / with a set_defaults entry) and on an argparse.ArgumentParser "
        "twin that receives copies of the generated actions; argv = shuffled token groups, valid and invalid, of both worlds plus "
        "unknown options, stray values, abbreviations, `--`; parse_known_args, parse_args and a pre-populated namespace. "
        "Non-trivial = the program has at least one plain declaration, the forest at least one dataclass and argv at least one "
        "token; distinct by full case.")
TRUSTED = ["argparse itself is the oracle (AP in the theorems is universally quantified; the correspondence plugs in what the real "
           "argparse.ArgumentParser answered on the same declarations, three placements of the parents' actions)",
           "stand-ins are shallow copies of the actions simple_parsing registered (same option strings, nargs, type, choices, action class)"]
ASSUMPTIONS = ["names of plain options/dests are disjoint from the dataclass options/destinations (except in the two collision forests, "
               "where the property is silent and only the model is compared)",
               "parents carry plain declarations only (a simple_parsing parent with dataclasses is outside the property)",
               "set-up (conflict resolution, subgroup choice) is a given: when it fails its outcome is an input of the model"]
EXHAUSTIVE = {"quick": False, "thorough": False}

SUP = "==SUPPRESS=="  # the value of argparse.SUPPRESS

# --------------------------------------------------------------------------------------------------
# dataclass forests

FOREST_SRC = '''
import argparse
from dataclasses import dataclass, field
from typing import List, Optional
from simple_parsing import subgroups
from simple_parsing import field as sp_field

@dataclass
class In:
    z: int = 1

@dataclass
class A:
    x: int = 3
    name: str = "n"
    flag: bool = False

@dataclass
class B:
    lr: float = 0.5
    inner: In = field(default_factory=In)

@dataclass
class R:
    req: int
    opt: Optional[int] = None
    xs: List[int] = field(default_factory=lambda: [1, 2])

@dataclass
class H:
    h1: int = 1
    hidden: int = field(default=7, init=False)
    nocmd: int = field(default=8, metadata={"cmd": False})

@dataclass
class P:
    out_dir: str = sp_field(default="results", positional=True)
    n_it: int = 3

@dataclass
class MA:
    wa: int = 1

@dataclass
class MB:
    wb: str = "b"

@dataclass
class C:
    model: object = subgroups({"ma": MA, "mb": MB}, default="ma")
    k: int = 2
'''

A_GOOD = [["--x", "4"], ["--name", "bob"], ["--flag"], ["--noflag"], ["--x=5"], ["--flag", "true"], ["--nam", "q"]]
A_BAD = [["--x", "notint"], ["--x"], ["--name"], ["--flag", "maybe"], ["--x=1.5"]]
FORESTS = {
    "none": dict(adds=[], cr="AUTO", good=[], bad=[["--x", "4"]]),
    "single": dict(adds=[["A", "a", None]], cr="AUTO", good=A_GOOD, bad=A_BAD),
    "nested": dict(adds=[["B", "b", None], ["A", "a", None]], cr="AUTO",
                   good=A_GOOD + [["--lr", "0.25"], ["--z", "7"], ["--z=2"]], bad=A_BAD + [["--lr", "x"], ["--z"]]),
    "two_auto": dict(adds=[["A", "a1", None], ["A", "a2", None]], cr="AUTO",
                     good=[["--a1.x", "4"], ["--a2.name", "q"], ["--a1.flag"], ["--a2.x=7"], ["--a2.noflag"]],
                     bad=[["--x", "4"], ["--a1.x", "zz"], ["--a1.x"], ["--a3.x", "1"]]),
    "two_merge": dict(adds=[["A", "a1", None], ["A", "a2", None]], cr="ALWAYS_MERGE",
                      good=[["--x", "4", "5"], ["--name", "p", "q"]], bad=[["--x", "a", "b"]]),
    "required": dict(adds=[["R", "r", None]], cr="AUTO",
                     good=[["--req", "3"], ["--req", "3"], ["--req=4"], ["--opt", "4"], ["--xs", "1", "2", "3"], ["--xs"]],
                     bad=[["--req", "q"], ["--opt", "w"], ["--xs", "1", "y"]]),
    "hidden": dict(adds=[["H", "h", None]], cr="AUTO", good=[["--h1", "2"], ["--h1=3"]],
                   bad=[["--hidden", "3"], ["--nocmd", "3"], ["--h1", "e"]]),
    "subgroup": dict(adds=[["C", "c", None]], cr="AUTO",
                     good=[["--model", "mb"], ["--model", "ma"], ["--wa", "3"], ["--k", "5"], ["--model=mb", "--wb", "zz"]],
                     bad=[["--model", "zz"], ["--wb", "q"], ["--model"], ["--k", "k"]]),
    # a POSITIONAL dataclass field, destination and names with underscores, under each dash variant (seeded change C09-07: the
    # positional's name - which argparse keeps verbatim as dest - spelled with dashes)
    "positional": dict(adds=[["P", "run_cfg", None]], cr="AUTO", good=[["here"], ["--n_it", "4"], ["--n_it=5"], []],
                       bad=[["--n_it", "x"], ["--out_dir", "d"]]),
    "positional_dash": dict(adds=[["P", "run_cfg", None]], cr="AUTO", dash="DASH", good=[["here"], ["--n-it", "4"], ["--n-it=5"], []],
                            bad=[["--n-it", "x"], ["--n_it", "4"], ["--out-dir", "d"]]),
    "positional_both": dict(adds=[["P", "run_cfg", None]], cr="AUTO", dash="UNDERSCORE_AND_DASH",
                            good=[["here"], ["--n-it", "4"], ["--n_it=5"], []], bad=[["--n-it", "x"], ["--out-dir", "d"]]),
    "suppress": dict(adds=[["A", "a", "SUPPRESS"]], cr="AUTO", good=A_GOOD, bad=A_BAD),
    "suppress_nested": dict(adds=[["B", "b", "SUPPRESS"]], cr="AUTO", good=[["--lr", "0.25"], ["--z", "7"]], bad=[["--lr", "x"]]),
    # the plain program declares dest `a` itself (decl injected by the generator) / a set_defaults entry for `a`
    "collide_plain": dict(adds=[["A", "a", None]], cr="AUTO", good=A_GOOD + [["--a", "1"]], bad=A_BAD),
    "collide_defaults": dict(adds=[["A", "a", None]], cr="AUTO", good=A_GOOD, bad=A_BAD),
}
FOREST_WEIGHTS = [("none", 8), ("single", 24), ("nested", 14), ("two_auto", 9), ("two_merge", 6), ("required", 10), ("hidden", 8),
                  ("subgroup", 10), ("suppress", 4), ("suppress_nested", 2), ("positional", 2), ("positional_dash", 4), ("positional_both", 2), ("collide_plain", 2), ("collide_defaults", 3)]

# --------------------------------------------------------------------------------------------------
# the plain program alphabet: (flags, kwargs, good token groups, bad token groups)

OPTS = [
    (["--verbose", "-v"], dict(action="store_true"), [["--verbose"], ["-v"], ["--verb"]], [["--verbose=1"]]),
    (["-c", "--count"], dict(action="count", default=0), [["-c"], ["-cc"], ["--count"], ["-c", "-c"]], [["--count=2"]]),
    (["--tag"], dict(action="append"), [["--tag", "t1"], ["--tag=t2"], ["--tag", "a", "--tag", "b"]], [["--tag"]]),
    (["--num", "-n"], dict(type="int", default=1), [["--num", "5"], ["-n", "6"], ["-n7"], ["--num=-3"], ["--num", "-4"]],
     [["--num", "x"], ["--num"], ["-n", "1.5"]]),
    (["--maybe"], dict(nargs="?", const="C", default="D"), [["--maybe"], ["--maybe", "v"], ["--maybe=w"]], []),
    (["--many"], dict(nargs="*", type="int"), [["--many"], ["--many", "1", "2"], ["--many", "3"]], [["--many", "1", "x"]]),
    (["--some"], dict(nargs="+"), [["--some", "a", "b"], ["--some", "c"]], [["--some"]]),
    (["--pair"], dict(nargs=2, type="int"), [["--pair", "1", "2"]], [["--pair", "1"], ["--pair", "1", "x"], ["--pair=1"]]),
    (["--color"], dict(choices=["red", "green"], default="red"), [["--color", "green"], ["--color=red"]], [["--color", "blue"]]),
    (["--need"], dict(required=True, type="int"), [["--need", "1"], ["--need=2"]], [["--need", "q"]]),
    (["--const"], dict(action="store_const", const=42), [["--const"]], [["--const=1"]]),
    (["--renamed"], dict(dest="other_name"), [["--renamed", "r"], ["--ren", "s"]], [["--renamed"]]),
    (["--xtra"], dict(type="float"), [["--xtra", "1.5"], ["--xt", "2"]], [["--xtra", "f"]]),
    (["--sup"], dict(default=SUP), [["--sup", "s"]], [["--sup"]]),
    (["--namely"], dict(default="nd"), [["--namely", "v"]], [["--namely"]]),
]
POS = [
    ("pos1", dict(), [["p1v"], ["other"]], []),
    ("pos2", dict(nargs="?"), [["p2v"], []], []),
    ("ints", dict(nargs="+", type="int"), [["1", "2"], ["3"]], [["x1"]]),
    ("rest", dict(nargs="*"), [["r1", "r2"], [], ["r3"]], []),
    ("two", dict(nargs=2), [["t1", "t2"]], [["t1"]]),
    ("chosen", dict(choices=["u", "w"]), [["u"], ["w"]], [["nope"]]),
]
MUTEX = [(["--ma"], dict(action="store_true"), [["--ma"]], []), (["--mb"], dict(type="int"), [["--mb", "2"]], [["--mb", "z"]]),
         (["--mc"], dict(action="store_const", const="k"), [["--mc"]], [])]
GROUP_OVERRIDES = [dict(), dict(), dict(), dict(), dict(), dict(), dict(argument_default="gd"), dict(argument_default="gd2"),
                   dict(conflict_handler="resolve"), dict(argument_default=7, conflict_handler="error"), dict(prefix_chars="-+"),
                   dict(argument_default=0), dict(argument_default=""), dict(argument_default=False)]
PARENTS = [
    [["arg", "p", ["--pp"], dict(type="int", default=1)], ["arg", "p", ["--pq", "-q"], dict(action="store_true")]],
    [["arg", "p", ["ppos"], dict()], ["defaults", dict(pd=1)]],
    [["group", 0, "pg", dict()], ["arg", ["g", 0], ["--pg"], dict(default="g0")], ["arg", "p", ["--pl"], dict(nargs="*")]],
    [["mutex", 0, False, None], ["arg", ["m", 0], ["--px"], dict(action="store_true")], ["arg", ["m", 0], ["--py"], dict(action="store_true")]],
    [["arg", "p", ["popt"], dict(nargs="?", default="pd0")], ["arg", "p", ["--preq"], dict(required=True)]],
    # parser-level defaults on dests that are ALSO declared: before the declaration (the action's own default wins in argparse),
    # after it (set_defaults rewrites the action), and for an action-less dest
    [["defaults", dict(plevel=7, pextra="e1", pcommon="c5")], ["arg", "p", ["--plevel"], dict(type="int", default=1)],
     ["arg", "p", ["-w", "--pverb"], dict(action="count", default=0)], ["arg", "p", ["--pafter"], dict(default="a0")],
     ["defaults", dict(pafter="a1")]],
    # a second parent that only carries parser-level defaults for dests the previous one declares
    [["defaults", dict(pverb=5, plevel=9, pcommon="c6")], ["arg", "p", ["--ptag"], dict(default="t0")]],
    # a third one: the same action-less dest again (argparse: the LAST parent's value wins), and a dest another parent declares
    [["arg", "p", ["--pseven"], dict(action="store_true")], ["defaults", dict(pcommon="c7", pextra="e7", pafter="a7")]],
]
PARENT_TOKENS = [
    ([["--pp", "4"], ["--pq"], ["-q"], ["--pp=5"]], [["--pp", "x"], ["--pp"]]),
    ([["ppv"]], []),
    ([["--pg", "gv"], ["--pl", "a", "b"], ["--pl"]], [["--pg"]]),
    ([["--px"], ["--py"]], [["--px", "--py"]]),
    ([["--preq", "r"], ["--preq", "r"], ["popv", "--preq", "r2"]], [["--preq"]]),
    ([["--plevel", "3"], ["-ww"], ["--pafter", "z"], [], []], [["--plevel", "x"]]),
    ([["--ptag", "mine"], [], []], [["--ptag"]]),
    ([["--pseven"], [], []], [["--pseven=1"]]),
]
JUNK = [["--unknown"], ["--unknown", "u"], ["-z"], ["stray"], ["--unk=3"], ["-5"], ["--"], ["-h"], ["--help"], ["--n"], [""], ["a b"]]


def _wchoice(rng, pairs):
    tot = sum(w for _, w in pairs)
    r = rng.random() * tot
    for v, w in pairs:
        r -= w
        if r < 0:
            return v
    return pairs[-1][0]


def gen_case(rng, force=None):
    force = force or {}
    fname = force.get("forest") or _wchoice(rng, FOREST_WEIGHTS)
    forest = FORESTS[fname]
    parser_kw = {}
    r = rng.random()
    if r < 0.12:
        parser_kw["add_help"] = False
    elif r < 0.18:
        parser_kw["prefix_chars"] = rng.choice(["-+", "-+", "+-"])   # "+-": the help option is still -h/--help in argparse
    elif r < 0.26:
        parser_kw["argument_default"] = rng.choice([5, SUP, "ad"])
    elif r < 0.32:
        parser_kw["conflict_handler"] = "resolve"
    elif r < 0.38:
        parser_kw["allow_abbrev"] = False
    decls, good, bad = [], [], []
    # options, some of them inside a group / a mutually exclusive group
    opts = rng.sample(OPTS, rng.choice([0, 1, 2, 2, 3, 3, 4, 5]))
    n_groups = 0
    use_group = rng.random() < force.get("p_group", 0.4)
    if use_group:
        ov = dict(rng.choice(GROUP_OVERRIDES[:11] if rng.random() < 0.9 else GROUP_OVERRIDES[11:]))
        decls.append(["group", 0, "plain group", ov])
        n_groups = 1
    for flags, kw, g, b in opts:
        where = ["g", 0] if use_group and rng.random() < 0.5 else "p"
        decls.append(["arg", where, list(flags), dict(kw)])
        good += [(x, flags[0]) for x in g]
        bad += [(x, flags[0]) for x in b]
    if "prefix_chars" in parser_kw:
        where = ["g", 0] if use_group and rng.random() < 0.6 else "p"
        decls.append(["arg", where, ["+p", "++plus"], dict(type="int", default=0)])
        good += [(["+p", "3"], "+p"), (["++plus", "4"], "+p"), (["++plus=6"], "+p")]
        bad += [(["+p"], "+p"), (["++plus", "x"], "+p")]
    if parser_kw.get("conflict_handler") == "resolve" or (use_group and decls[0][3].get("conflict_handler") == "resolve"):
        where = ["g", 0] if use_group and decls[0][3].get("conflict_handler") == "resolve" else "p"
        decls.append(["arg", where, ["--dup"], dict(default="first")])
        decls.append(["arg", where, ["--dup"], dict(type="int", default=2, dest="dup2")])
        good += [(["--dup", "3"], "--dup")]
        bad += [(["--dup", "x"], "--dup")]
    if rng.random() < force.get("p_mutex", 0.3):
        parent = ["g", 0] if use_group and rng.random() < 0.4 else None
        req = rng.random() < 0.3
        decls.append(["mutex", 0, req, parent])
        members = rng.sample(MUTEX, 2)
        for flags, kw, g, b in members:
            decls.append(["arg", ["m", 0], list(flags), dict(kw)])
            bad += [(x, flags[0]) for x in b]
        good += [(members[0][2][0], "mutex")] * (3 if req else 1)
        bad += [(members[0][2][0] + members[1][2][0], "mutex")]
    poss = []
    merged = fname == "two_merge"   # a merged option takes one value per destination: no stray value may follow it (C11's subject)
    if not merged and rng.random() < force.get("p_pos", 0.5):
        k = rng.choice([1, 1, 2])
        poss = sorted(rng.sample(range(len(POS)), k))
        for i in poss:
            name, kw, g, b = POS[i]
            decls.append(["arg", "p", [name], dict(kw)])
    if fname == "collide_plain":
        decls.append(["arg", "p", ["--a"], dict(default="plain-a")])
    # set_defaults: a fresh key, or the dest of a declared option
    sd = None
    if rng.random() < 0.3:
        sd = rng.choice([dict(sd1=5), dict(sd1="s", sd2=[1]), dict(num=9), dict(verbose=True), dict(tag=["t0"])])
    rng.shuffle(decls)
    # groups / mutex declarations must precede their members: stable partition
    decls = [d for d in decls if d[0] == "group"] + [d for d in decls if d[0] == "mutex"] + [d for d in decls if d[0] == "arg"]
    if sd is not None:
        decls.insert(rng.randrange(len(decls) + 1), ["defaults", sd])
    at = rng.randrange(len(decls) + 1)
    decls.insert(at, ["dc"])
    if fname == "collide_defaults":
        # before add_arguments the entry lands in parser._defaults (allowed collision); after it, it is routed to the wrapper
        decls.insert(at if rng.random() < 0.7 else at + 1, ["defaults", dict(a=dict(x=5))])
    parents = []
    if rng.random() < force.get("p_parents", 0.14):
        ids = rng.sample([0, 2, 3, 5, 6, 7] if merged else range(len(PARENTS)), rng.choice([1, 1, 2]))
        if 1 in ids and 4 in ids:
            ids.remove(4)
        if rng.random() < 0.25:
            ids = rng.sample([5, 6, 7], rng.choice([2, 2, 3]))   # parents touching the same dests, any order
        for i in ids:
            parents.append(dict(cls=rng.choice(["std", "sp"]), decls=PARENTS[i], id=i))
            good += [(x, "parent") for x in PARENT_TOKENS[i][0]]
            bad += [(x, "parent") for x in PARENT_TOKENS[i][1]]
    # argv
    groups = []
    need_flags = {"--need"} & {d[2][0] for d in decls if d[0] == "arg"}
    for f in need_flags:
        if rng.random() < 0.85:
            groups.append(rng.choice([["--need", "1"], ["--need=2"]]))
    n_good = rng.choice([0, 1, 2, 2, 3, 4])
    pool = [g for g, _ in good] + list(forest["good"]) * 2
    for _ in range(n_good):
        if pool:
            groups.append(list(rng.choice(pool)))
    if fname == "required" and rng.random() < 0.8:
        groups.append(["--req", "3"])
    for p in parents:
        if p["id"] == 4 and rng.random() < 0.8:
            groups.append(["--preq", "r"])
        if p["id"] == 1 and rng.random() < 0.8:
            groups.append(["ppv"])
    for i in poss:
        name, kw, g, b = POS[i]
        r2 = rng.random()
        if r2 < 0.75:
            groups.append(list(rng.choice(g)))
        elif r2 < 0.85 and b:
            groups.append(list(rng.choice(b)))
    r = rng.random()
    if r < 0.3:
        badpool = [g for g, _ in bad] + list(forest["bad"])
        if badpool:
            groups.append(list(rng.choice(badpool)))
    if rng.random() < 0.22:
        junk = [["--unknown"], ["--unk=3"], ["--help"]] if merged else JUNK
        if "prefix_chars" in parser_kw:
            junk = junk + [["+h"], ["++help"], ["-h"], ["+z"]]
        groups.append(list(rng.choice(junk)))
    keep_pos_order = rng.random() < 0.5
    if not keep_pos_order:
        rng.shuffle(groups)
    argv = [t for g in groups for t in g]
    mode = _wchoice(rng, [("known", 70), ("args", 22), ("ns", 8)])
    return dict(forest=fname, parser_kw=parser_kw, decls=decls, parents=parents, argv=argv, mode=mode)


def gen(tier, seed):
    rng = random.Random(f"C09-{seed}")
    cases = []
    # every forest with the empty program and the empty / one-good-token argv (post-processing alone)
    for fname, f in FORESTS.items():
        for argv in [[]] + [list(g) for g in f["good"][:3]]:
            decls = [["dc"]]
            if fname == "collide_plain":
                decls = [["arg", "p", ["--a"], dict(default="plain-a")], ["dc"]]
            if fname == "collide_defaults":
                decls = [["defaults", dict(a=dict(x=5))], ["dc"]]
            if fname == "required":
                argv = argv + ["--req", "1"]
            cases.append(dict(forest=fname, parser_kw={}, decls=decls, parents=[], argv=argv, mode="known"))
    # --help next to a malformed subgroup option (the subgroup choice is resolved in a pass of its own)
    for argv in (["--help", "--model"], ["-h", "--model", "zz"], ["--model", "mb", "--help"]):
        cases.append(dict(forest="subgroup", parser_kw={}, decls=[["arg", "p", ["--verbose"], dict(action="store_true")], ["dc"]],
                          parents=[], argv=argv, mode="known"))
    # which characters spell the help option: prefix_chars with and without "-", in both orders
    for pc, fname in (("+-", "none"), ("+-", "single"), ("-+", "single"), ("+", "none"), ("+/", "none")):
        for kw in (dict(prefix_chars=pc), dict(prefix_chars=pc, add_help=False)):
            for argv in ([], ["-h"], ["+h"], ["++help"], ["--help"], ["+p", "3"], ["++plus=4", "+h"]):
                cases.append(dict(forest=fname, parser_kw=dict(kw), parents=[], argv=list(argv), mode="known",
                                  decls=[["arg", "p", ["+p", "++plus"], dict(type="int", default=0)], ["dc"]]))
    # every parent program alone and next to a dataclass, every group override
    for i in range(len(PARENTS)):
        for cls in ("std", "sp"):
            for fname in ("none", "single"):
                for toks in ([], PARENT_TOKENS[i][0][0]):
                    cases.append(dict(forest=fname, parser_kw={}, decls=[["arg", "p", ["cpos"], dict(nargs="?")], ["dc"]],
                                      parents=[dict(cls=cls, decls=PARENTS[i], id=i)], argv=list(toks), mode="known"))
    # two parents touching the same dests (both orders), the options absent / present
    for order in ([5, 6], [6, 5], [6, 7], [7, 6], [5, 7], [7, 5], [5, 6, 7], [7, 6, 5], [6, 7, 5]):
        for cls in ("std", "sp"):
            for argv in ([], ["--plevel", "3"], ["-w", "--x", "2"], ["--ptag", "mine", "--pafter", "z"]):
                cases.append(dict(forest="single", parser_kw={}, decls=[["arg", "p", ["cpos"], dict(nargs="?")], ["dc"]],
                                  parents=[dict(cls=cls, decls=PARENTS[i], id=i) for i in order], argv=list(argv), mode="known"))
    for ov in GROUP_OVERRIDES:
        cases.append(dict(forest="single", parser_kw={}, parents=[], argv=["--x", "1"], mode="known",
                          decls=[["group", 0, "g", dict(ov)], ["arg", ["g", 0], ["--gv"], {}], ["dc"]]))
    n = 1500 if tier == "quick" else 24000
    for _ in range(n):
        cases.append(gen_case(rng))
    return cases


# --------------------------------------------------------------------------------------------------
# implementation side

TYPES = {"int": int, "float": float, "str": str}


def _kw(kw):
    out = dict(kw)
    if "type" in out:
        out["type"] = TYPES[out["type"]]
    return out


def _jtxt(v):
    from implutil import canon

    return json.dumps(canon(v), sort_keys=True)


def _apply(parser, decls, on_dc, grec, group_raw=None, routed=()):
    """group_raw: create the i-th group with exactly these (prefix_chars, argument_default, conflict_handler) -- the settings the
    simple_parsing group ended up with (the model's twins); routed: destinations whose set_defaults entries simple_parsing
    hands to a dataclass wrapper once it exists (not a plain declaration: the twins skip them after the `dc` marker)."""
    groups, mutex = {}, {}
    dc_seen = False
    n_group = 0
    for d in decls:
        op = d[0]
        if op == "arg":
            tgt = parser if d[1] == "p" else (groups[d[1][1]] if d[1][0] == "g" else mutex[d[1][1]])
            tgt.add_argument(*d[2], **_kw(d[3]))
        elif op == "group":
            before = [parser.prefix_chars, parser.argument_default, parser.conflict_handler]
            if group_raw is not None:
                raw = group_raw[n_group]
                g = parser.add_argument_group(d[2], prefix_chars=raw[0], argument_default=raw[1], conflict_handler=raw[2])
            else:
                g = parser.add_argument_group(d[2], **d[3])
            n_group += 1
            groups[d[1]] = g
            if grec is not None:
                grec.append(dict(parser=[_jtxt(x) for x in before], over=d[3],
                                 raw=[g.prefix_chars, g.argument_default, g.conflict_handler],
                                 got=[_jtxt(g.prefix_chars), _jtxt(g.argument_default), _jtxt(g.conflict_handler)]))
        elif op == "mutex":
            tgt = parser if d[3] is None else groups[d[3][1]]
            mutex[d[1]] = tgt.add_mutually_exclusive_group(required=d[2])
        elif op == "defaults":
            parser.set_defaults(**{k: v for k, v in d[1].items() if not (dc_seen and k in routed)})
        elif op == "dc":
            dc_seen = True
            if on_dc is not None:
                on_dc(parser)
        else:
            raise ValueError(op)


def _mk_parents(case):
    import argparse

    import simple_parsing

    out = []
    for p in case["parents"]:
        cls = argparse.ArgumentParser if p["cls"] == "std" else simple_parsing.ArgumentParser
        par = cls(add_help=False)
        _apply(par, p["decls"], None, None)
        out.append(par)
    return out


def _classes():
    ns = {}
    exec(compile(FOREST_SRC, "<c09-forest>", "exec", dont_inherit=True), ns)
    return ns


_CLS = None


def _build_sp(case, parents, grec):
    import argparse

    import simple_parsing

    global _CLS
    if _CLS is None:
        _CLS = _classes()
    f = FORESTS[case["forest"]]
    kw = dict(case["parser_kw"])
    if parents:
        kw["parents"] = parents
    if f.get("dash"):
        kw["add_option_string_dash_variants"] = simple_parsing.DashVariant[f["dash"]]
    p = simple_parsing.ArgumentParser(conflict_resolution=simple_parsing.ConflictResolution[f["cr"]], **kw)

    def on_dc(parser):
        for cls, dest, default in f["adds"]:
            if default == "SUPPRESS":
                parser.add_arguments(_CLS[cls], dest, default=argparse.SUPPRESS)
            else:
                parser.add_arguments(_CLS[cls], dest)

    _apply(p, case["decls"], on_dc, grec)
    return p


def _build_twin(case, parents, placement, standins, grec, group_raw=None):
    import argparse
    import copy

    kw = dict(case["parser_kw"])
    if placement == "first" and parents:
        kw["parents"] = parents
    t = argparse.ArgumentParser(**kw)
    _apply(t, case["decls"], None, grec, group_raw=group_raw, routed=[a[1] for a in FORESTS[case["forest"]]["adds"]])
    if placement == "late":
        for par in parents:
            t._add_container_actions(par)
            t._defaults.update(par._defaults)
    for a in standins:
        t._add_action(copy.copy(a))
    return t


def _parse(p, case, known_only=False):
    import argparse

    argv = list(case["argv"])
    if case["mode"] == "args" and not known_only:
        return p.parse_args(argv), []
    if case["mode"] == "ns":
        return p.parse_known_args(argv, argparse.Namespace(preset="pre"))
    return p.parse_known_args(argv)


def _canon_ns(ns, topinfo, sg_dests):
    """topinfo: destination -> (declared dataclass, registered with default=SUPPRESS).  An entry counts as `the dataclass at
    its destination` only if it is an instance of THE DECLARED CLASS (a SUPPRESS-ed destination may hold the dict of given
    fields instead); None, another class or anything else stays a plain value and is compared as such.  `subgroups` counts
    only as the dict whose keys are exactly the subgroup destinations."""
    out = []
    for k, v in vars(ns).items():
        if k in topinfo and (type(v) is topinfo[k][0] or (topinfo[k][1] and isinstance(v, dict))):
            out.append([k, "inst", ""])
        elif k == "subgroups" and sg_dests and isinstance(v, dict) and sorted(v) == sorted(sg_dests):
            out.append([k, "sub", ""])
        else:
            out.append([k, "nv", _jtxt(v)])
    return out


def _stream(r):
    """which stream a SystemExit wrote to (outcome_of: [kind, code, stderr, stdout])"""
    if r[0] != "exit":
        return None
    return {(True, False): "err", (False, True): "out", (True, True): "both", (False, False): "none"}[(bool(r[2]), bool(r[3]))]


def _errmsg(r):
    """the text after `error: ` of an argparse rejection"""
    if r[0] != "exit" or "error: " not in r[2]:
        return None
    return r[2].rsplit("error: ", 1)[1].strip()


def _snapshot(parsers):
    return [[(a.dest, repr(a.default), a.required, repr(a.nargs), tuple(a.option_strings)) for a in par._actions]
            + sorted((k, repr(v)) for k, v in par._defaults.items()) for par in parsers]


def _describe(actions):
    return [[a.dest, "opt" if a.option_strings else "pos"] for a in actions]


def _declared_defaults(case):
    dests = [a[1] for a in FORESTS[case["forest"]]["adds"]]
    out, seen, dc_seen = [], set(), False
    for d in case["decls"]:
        if d[0] == "dc":
            dc_seen = True
        elif d[0] == "defaults":
            for k in d[1]:
                kind = "routed" if (dc_seen and k in dests) else "default"
                if (k, kind) not in seen:
                    seen.add((k, kind))
                    out.append([k, kind])
    return out


def _forest_of(p):
    import argparse
    import dataclasses

    from simple_parsing import utils

    ws, fields_obs = [], []
    for w in p._wrappers:
        by_name = {fw.name: fw for fw in w.fields}
        fs = []
        for f in dataclasses.fields(w.dataclass):
            fw = by_name.get(f.name)
            fs.append(dict(dest=fw.dest if fw is not None else w.dest + "." + f.name,
                           subgroup=bool(f.metadata.get("subgroups")), init=bool(f.init),
                           cmd=f.metadata.get("cmd", True) is not False, subparser=bool(utils.is_subparser_field(f)),
                           child=any(c._field is not None and c._field.name == f.name for c in w._children)))
        ws.append(dict(dests=list(w.destinations), suppress=argparse.SUPPRESS in w.defaults, nested=w.parent is not None, fields=fs,
                       cls=w.dataclass.__name__))
        fields_obs.append([fw.dest for fw in w.fields])
    return ws, fields_obs


def _run_one(case):
    import argparse

    from implutil import outcome_of, reset_simple_parsing_state

    reset_simple_parsing_state()
    obs = dict(pre=None, pre_msg=None, prepass_twin=None, sp_stream=None, oracle_stream=None, parents_intact=True,
               parents=[], plain=[], forest=[], fields_obs=[], gen=[], defaults_obs=None, installed=None, groups=[],
               oracle=None, ap_first=None, ap_none=None, ap_late=None, sp=None, standins_from="own")
    grec_sp, grec_tw = [], []
    rp = outcome_of(lambda: _mk_parents(case))
    sp_parents = rp[1] if rp[0] == "ok" else []
    parent_ids = {id(a) for par in sp_parents for a in par._actions}
    parent_dkeys = [k for par in sp_parents for k in par._defaults]
    for par in sp_parents:
        obs["parents"] += _describe([a for a in par._actions if not isinstance(a, argparse._HelpAction)])
        obs["parents"] += [[k, "default"] for k in par._defaults]
    snap = _snapshot(sp_parents)
    rb = outcome_of(lambda: _build_sp(case, sp_parents, grec_sp)) if rp[0] == "ok" else rp
    standins = []
    if rb[0] != "ok":
        obs["pre"] = rb[:2]
        obs["sp"] = rb[:2]
        p = None
    else:
        p = rb[1]
        n_before = len(p._actions)
        rs = outcome_of(lambda: _parse(p, case))
        done = p._preprocessing_done
        q = p
        if not done:
            # set-up did not finish (e.g. the subgroup choice was rejected): take the stand-ins from a parser set up on []
            obs["pre"] = rs[:2]
            obs["pre_msg"] = _errmsg(rs)
            obs["standins_from"] = "empty-argv"
            reset_simple_parsing_state()
            box = {}

            def rebuild():
                q_parents = _mk_parents(case)
                box["ids"] = {id(a) for par in q_parents for a in par._actions}
                q2 = _build_sp(case, q_parents, None)
                box["n"] = len(q2._actions)
                q2._preprocessing(args=[])
                return q2

            rq = outcome_of(rebuild)
            if rq[0] != "ok":
                obs["standins_from"] = "none"
                q = None
            else:
                q, n_before = rq[1], box["n"]
                parent_ids |= box["ids"]
        if q is not None:
            own_before = [a for a in q._actions[:n_before] if id(a) not in parent_ids and not isinstance(a, argparse._HelpAction)]
            standins = [a for a in q._actions[n_before:] if id(a) not in parent_ids]
            # parser-level defaults as DECLARED: an entry for the destination of an already existing wrapper is `routed`
            # (the model decides with the regenerated set_defaults fact whether it reaches parser._defaults)
            obs["plain"] = _describe(own_before) + _declared_defaults(case)
            if q is p:
                obs["defaults_obs"] = sorted(p._defaults)
            obs["gen"] = [a.dest for a in standins]
            obs["forest"], obs["fields_obs"] = _forest_of(q)
            if sp_parents and q is p:
                acts = {id(a) for a in p._actions}
                want = [a for par in sp_parents for a in par._actions if not isinstance(a, argparse._HelpAction)]
                obs["installed"] = bool(want) and all(id(a) in acts for a in want)
        topinfo = {}
        if q is not None:
            for w in q._wrappers:
                if w.parent is None:
                    for d in w.destinations:
                        topinfo[d] = (w.dataclass, argparse.SUPPRESS in w.defaults)
        sg_dests = [f["dest"] for w in obs["forest"] for f in w["fields"] if f["subgroup"]]
        obs["sp_stream"] = _stream(rs)
        # building / using the child must leave the parents as they were (their actions are shared by reference)
        obs["parents_intact"] = _snapshot(sp_parents) == snap
        if rs[0] == "ok":
            ns, extras = rs[1]
            obs["sp"] = ["ok", _canon_ns(ns, topinfo, sg_dests), list(extras)]
        else:
            obs["sp"] = rs[:2]
        if obs["pre"] is not None and sg_dests:
            # evidence for `set-up stopped in the subgroup pre-pass`: argparse given ONLY the subgroup-choice options
            # (no help, no abbreviations, as the pre-pass) rejects this argv, with the very message simple_parsing printed
            import copy

            def prepass():
                t = argparse.ArgumentParser(add_help=False, allow_abbrev=False)
                for a in standins:
                    if a.dest in sg_dests:
                        t._add_action(copy.copy(a))
                t.parse_known_args(list(case["argv"]))
                return None

            r = outcome_of(prepass)
            obs["prepass_twin"] = [r[0], r[1], _errmsg(r)] if r[0] == "exit" else r[:2]
    # the stdlib twins: the oracle (argparse semantics throughout), and for the model the same program with the groups created
    # with the settings simple_parsing's groups ended up with, under the three placements of the parents' actions
    def twin(pl, g, raw, known_only, stream=None):
        reset_simple_parsing_state()

        def run():
            t = _build_twin(case, _mk_parents(case), pl, standins, g, raw)
            ns, extras = _parse(t, case, known_only)
            return ["ok", _canon_ns(ns, {}, None), list(extras)]

        r = outcome_of(run)
        if stream is not None:
            obs[stream] = _stream(r)
        return r[1] if r[0] == "ok" else r[:2]

    obs["oracle"] = twin("first", grec_tw, None, False, "oracle_stream")
    groups_differ = any(a["got"] != b["got"] for a, b in zip(grec_sp, grec_tw)) or len(grec_sp) != len(grec_tw)
    raw = [g["raw"] for g in grec_sp] if groups_differ and len(grec_sp) == sum(1 for d in case["decls"] if d[0] == "group") else None
    # the model's AP is parse_known_args (parse_args is argparse's wrapper around our parse_known_args)
    obs["ap_first"] = twin("first", None, raw, True) if (raw is not None or case["mode"] == "args") else obs["oracle"]
    if case["parents"]:
        obs["ap_none"] = twin("none", None, raw, True)
        obs["ap_late"] = twin("late", None, raw, True)
    else:
        obs["ap_none"] = obs["ap_late"] = obs["ap_first"]
    for i, g in enumerate(grec_sp):
        tw = grec_tw[i]["got"] if i < len(grec_tw) else ["?", "?", "?"]
        over = {k: [bool(not v), _jtxt(v)] for k, v in g["over"].items()}
        obs["groups"].append(dict(parser=g["parser"], over=over, sp=g["got"], twin=tw))
    for g in grec_sp + grec_tw:
        g.pop("raw", None)
    return obs


def run_impl(cases):
    return [_run_one(c) for c in cases]


# --------------------------------------------------------------------------------------------------
# spec (Python mirror of Model/CoexistSpec.v spec_run + the group clause)


def _tops(obs):
    return [d for w in obs["forest"] if not w["nested"] for d in w["dests"]]


def _violations(case, obs):
    out = []
    for g in obs["groups"]:
        if g["sp"] != g["twin"]:
            out.append(("group-settings", f"add_argument_group({ {k: v[1] for k, v in g['over'].items()} }) created a group with "
                                          f"(prefix_chars, argument_default, conflict_handler)={g['sp']}, argparse: {g['twin']}"))
    if not obs["parents_intact"]:
        out.append(("parents-mutated", "building/using the child parser changed the parent parsers' own actions or defaults"))
    twin, sp = obs["oracle"], obs["sp"]
    if twin[0] == "exit" and sp[:2] == twin[:2] and obs["sp_stream"] != obs["oracle_stream"]:
        out.append(("stream", f"both exit {twin[1]} but argparse writes to {obs['oracle_stream']}, simple_parsing to {obs['sp_stream']} "
                              f"on argv {case['argv']}"))
    tops = _tops(obs)
    has_sg = any(f["subgroup"] for w in obs["forest"] for f in w["fields"])
    sup_tops = [d for w in obs["forest"] if not w["nested"] and w["suppress"] for d in w["dests"]]
    extra = tops + (["subgroups"] if has_sg else [])
    declared = [d for d, k in obs["parents"] + obs["plain"] if k != "routed"]
    if any(k in extra for k in declared):
        return out  # names not disjoint: the property is silent
    if twin[0] == "ok":
        pk = [k for k, _, _ in twin[1] if k not in obs["gen"]]
        if any(k in extra for k in pk):
            return out
    if twin[0] != "ok" or sp[0] != "ok":
        if twin[:2] != sp[:2]:
            out.append(("status", f"argparse ended with {twin[:2] if twin[0] != 'ok' else 'ok'}, simple_parsing with "
                                  f"{sp[:2] if sp[0] != 'ok' else 'ok'} on argv {case['argv']}"))
        return out
    tns, tex = twin[1], twin[2]
    sns, sex = sp[1], sp[2]
    if tex != sex:
        out.append(("leftovers", f"leftovers differ: argparse {tex}, simple_parsing {sex} on argv {case['argv']}"))
    td = {k: (kind, txt) for k, kind, txt in tns}
    sd = {k: (kind, txt) for k, kind, txt in sns}
    diff = [k for k in pk if td.get(k) != sd.get(k)]
    if diff:
        k = diff[0]
        out.append(("values", f"plain entry {k!r}: argparse {td.get(k)}, simple_parsing {sd.get(k)} on argv {case['argv']}"))
    leak = [k for k in sd if k not in pk and k not in extra]
    if leak:
        out.append(("leak", f"namespace has unexpected entries {leak} on argv {case['argv']}"))
    missing = [k for k in extra if k not in sup_tops and k not in sd]
    if missing:
        out.append(("missing-dest", f"namespace lacks {missing}"))
    notinst = [k for k in tops if k not in sup_tops and k in sd and sd[k][0] != "inst"]
    if notinst:
        out.append(("dest-not-instance", f"the attribute at {notinst} is not an instance of the dataclass declared there: {sd[notinst[0]]}"))
    return out


def py_spec(case, obs):
    v = _violations(case, obs)
    return "; ".join(r for _, r in v) if v else None


def signature(case, obs, reason):
    """Class of a failure.  A difference that disappears when the twin is built the way simple_parsing registered the
    program (parents left out / added late, groups with the settings its groups got) is attributed to that cause."""
    v = _violations(case, obs)
    clauses = sorted({c for c, _ in v})
    nongroup = [c for c in clauses if c != "group-settings"]
    sp = obs["sp"]
    m_first, m_none, m_late = (_as_mode(case, obs[k]) for k in ("ap_first", "ap_none", "ap_late"))
    if nongroup and case["parents"] and obs.get("installed") is False and _same(m_none, sp, obs):
        return "parents-not-installed"
    if nongroup and case["parents"] and obs.get("installed") and not _same(m_first, sp, obs) and _same(m_late, sp, obs):
        return "parents-installed-after-own-positionals"
    if "group-settings" in clauses and _group_falsy(obs) and (not nongroup or _same(m_first, sp, obs)):
        return "group-falsy-override-dropped"
    pt = obs.get("prepass_twin")
    if clauses == ["status"] and obs["pre"] == ["exit", 2] and obs["oracle"][0] != "ok" \
            and pt and pt[:2] == ["exit", 2] and pt[2] is not None and pt[2] == obs.get("pre_msg"):
        # evidence demanded: set-up did not finish; argparse given ONLY the subgroup-choice options rejects this argv with
        # the same message simple_parsing printed (so the stop IS the pre-pass meeting a malformed subgroup option);
        # and argparse proper stopped too, only earlier / elsewhere (help, a crash of its own)
        # the subgroup choice is parsed in a pass of its own, BEFORE the main parser sees anything: a malformed subgroup
        # option wins over -h/--help (argparse: exit 0) and over whatever else argparse would have stopped at first
        return "subgroup-prepass-error-first"
    return "+".join(clauses) + ":" + case["forest"]


def _group_falsy(obs):
    return any(g["sp"] != g["twin"] and any(v[0] for v in g["over"].values()) for g in obs["groups"])


def _as_mode(case, twin):
    """a parse_known_args answer seen through parse_args (leftovers are an error)"""
    if case["mode"] == "args" and twin[0] == "ok" and twin[2]:
        return ["exit", 2]
    return twin


def _same(twin, sp, obs):
    """sp agrees with this twin on status, leftovers and the plain entries"""
    if twin[0] != "ok" or sp[0] != "ok":
        return twin[:2] == sp[:2]
    pk = [k for k, _, _ in twin[1] if k not in obs["gen"] and k not in _tops(obs)]
    td = {k: (kind, txt) for k, kind, txt in twin[1]}
    sd = {k: (kind, txt) for k, kind, txt in sp[1]}
    return twin[2] == sp[2] and all(td.get(k) == sd.get(k) for k in pk)


def nontrivial(case, obs):
    return bool(case["argv"]) and case["forest"] != "none" and any(d[0] == "arg" for d in case["decls"]) and obs["pre"] is None


def features(case, obs):
    kinds = sorted({(d[3].get("action") or ("nargs" + str(d[3]["nargs"]) if "nargs" in d[3] else "store"))
                    for d in case["decls"] if d[0] == "arg"})
    sp = obs["sp"]
    f = {"forest": case["forest"], "mode": case["mode"], "parents": len(case["parents"]),
         "groups": sum(1 for d in case["decls"] if d[0] == "group"), "mutex": sum(1 for d in case["decls"] if d[0] == "mutex"),
         "positionals": sum(1 for d in case["decls"] if d[0] == "arg" and not d[2][0].startswith(("-", "+"))),
         "set_defaults": sum(1 for d in case["decls"] if d[0] == "defaults"),
         "parser_kw": ",".join(sorted(case["parser_kw"])) or "-", "argv_len": min(len(case["argv"]), 8),
         "outcome": sp[0] + (str(sp[1]) if sp[0] in ("exit", "raise") else ""),
         "twin_outcome": obs["oracle"][0] + (str(obs["oracle"][1]) if obs["oracle"][0] in ("exit", "raise") else ""),
         "setup": "ok" if obs["pre"] is None else "failed"}
    for k in kinds:
        f["has_" + str(k)] = True
    return f


# --------------------------------------------------------------------------------------------------
# Coq emission


def _nval(kind, txt):
    return {"inst": "NInst", "sub": "NSub"}.get(kind) or f"(NV {cstr(txt)})"


def _run(o):
    if o[0] == "ok":
        ns = clist([f"({cstr(k)}, {_nval(kind, txt)})" for k, kind, txt in o[1]])
        return outcome(["ok", f"({ns}, {cstrlist(o[2])})"])
    return outcome(o)


def _err(o):
    return outcome(o)[len("(Err "):-1]


def _acts(xs):
    kind = {"opt": "KOpt", "pos": "KPos", "default": "KDefault", "routed": "KRouted"}
    return clist([f"mkact {cstr(d)} {kind[k]}" for d, k in xs])


def _gover(over, key):
    if key not in over:
        return "GOmitted"
    falsy, txt = over[key]
    return f"(GGiven {cbool(falsy)} {cstr(txt)})"


def to_coq(case, obs):
    ws = []
    for w in obs["forest"]:
        fs = clist([f"mkfield {cstr(f['dest'])} {cbool(f['subgroup'])} {cbool(f['init'])} {cbool(f['cmd'])} "
                    f"{cbool(f['subparser'])} {cbool(f['child'])}" for f in w["fields"]])
        ws.append(f"mkwrap {cstrlist(w['dests'])} {cbool(w['suppress'])} {cbool(w['nested'])} {fs}")
    gs = []
    for g in obs["groups"]:
        gset = lambda t: f"(mkgset {cstr(t[0])} {cstr(t[1])} {cstr(t[2])})"  # noqa: E731
        ov = f"(mkgov {_gover(g['over'], 'prefix_chars')} {_gover(g['over'], 'argument_default')} {_gover(g['over'], 'conflict_handler')})"
        gs.append(f"mkgcase {gset(g['parser'])} {ov} {gset(g['sp'])} {gset(g['twin'])}")
    pre = "None" if obs["pre"] is None else f"(Some {_err(obs['pre'])})"
    inst = "None" if obs["installed"] is None else copt(cbool(obs["installed"]))
    # the four argparse answers are usually one and the same term: bind it once
    runs, names = {}, []
    for key in ("oracle", "ap_first", "ap_none", "ap_late"):
        txt = _run(obs[key])
        if txt not in runs:
            runs[txt] = f"r{len(runs)}"
        names.append(runs[txt])
    lets = "".join(f"let {name} := {txt} in\n  " for txt, name in runs.items())
    streams_agree = not (obs["oracle"][0] == "exit" and obs["sp"][:2] == obs["oracle"][:2] and obs["sp_stream"] != obs["oracle_stream"])
    return (f"({lets}mkcase {cbool(streams_agree)} {cbool(obs['parents_intact'])} {cbool(case['mode'] == 'args')} {pre} {_acts(obs['parents'])} {_acts(obs['plain'])}\n  {clist(ws)}\n  "
            f"{clist([cstrlist(x) for x in obs['fields_obs']])} {cstrlist(obs['gen'])} "
            f"{'None' if obs['defaults_obs'] is None else copt(cstrlist(obs['defaults_obs']))} {inst}\n  "
            f"{' '.join(names)}\n  {_run(obs['sp'])}\n  {clist(gs)})")


def shrink(case):
    argv = case["argv"]
    for i in range(len(argv)):
        yield dict(case, argv=argv[:i] + argv[i + 1:])
    decls = case["decls"]
    for i, d in enumerate(decls):
        if d[0] in ("arg", "defaults"):
            yield dict(case, decls=decls[:i] + decls[i + 1:])
    if len(case["parents"]) > 1:
        for i in range(len(case["parents"])):
            yield dict(case, parents=case["parents"][:i] + case["parents"][i + 1:])
    for i, p in enumerate(case["parents"]):
        if p["cls"] != "std":
            ps = list(case["parents"])
            ps[i] = dict(p, cls="std")
            yield dict(case, parents=ps)
    if case["parser_kw"]:
        yield dict(case, parser_kw={})
    if case["mode"] != "known":
        yield dict(case, mode="known")
    if case["forest"] not in ("none", "single", "collide_plain", "collide_defaults"):
        yield dict(case, forest="single")
    if case["forest"] == "single":
        yield dict(case, forest="none")
