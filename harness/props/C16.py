"""C16 — `--help` is complete, accurate, reproducible and has no side effects (entries of the help; layout not modelled)."""
from __future__ import annotations

import hashlib
import json
import os
import random
import subprocess
import sys

from coqemit import cbool, clist, cnat, copt, cpair, cstr, cstrlist, outcome

import c16_driver as drv

ID = "C16"
FACTS = ["Conflicts", "Help"]
COQ_HEADER = "From SPV Require Import CorrDefs.CorrC16."
COQ_CASE_TYPE = "case"
RULE = ("forests as in C03 (1-3 destinations, depth <= 2 (thorough <= 3), the same class reused at several destinations and depths, "
        "user prefixes) over the names {a, bb, cc, x, a_b, c_d} with aliases of EQUAL length to the name or to each other, aliases "
        "that are other fields' names, single/double-dash aliases, cmd=False and init=False fields, help texts (none, short, long "
        "enough to wrap; given through simple_parsing.field or plain dataclasses metadata), int/str/float/bool/List[int]/None/required "
        "fields; outside defaults differ from the definition's and are FALSY (0, '', 0.0, False, []) in every second draw x "
        "{AUTO, EXPLICIT, NONE} x all 18 (dash variant, generation mode, nested mode) configurations x default source {none, default "
        "instance, set_defaults, constructor config file}; plus ALWAYS_MERGE with one class at 2-3 destinations (one group whose heading "
        "lists the destinations in registration order); every case is run in 8 (thorough 32) FRESH interpreters with "
        "PYTHONHASHSEED = 0..n-1: `--help` stdout/stderr/status, format_help(), the registered actions, probes of every hidden "
        "field's spellings, print_help() followed by a parse against a fresh parse. The help text is parsed into entries by the harness "
        "and compared with the model (under the enumeration orders observed in that interpreter) and the raw text is compared "
        "ACROSS hash seeds. A systematic block covers every configuration x mode on fixed trees with equal-length spellings; the rest "
        "is sampled from VERIF_SEED. Non-trivial = the parser was set up and some exposed field has two spellings of equal length, "
        "or a hidden field, or an outside default.")
TRUSTED = ["harness/c16_driver.py: tolerant help-text parser (entry = line indented by two blanks starting with '-'; wrapped help lines joined; "
           "option strings split on ', '; trailing '(default: X)' split off) and the oracle table (enumeration order of each spelling set, "
           "read from FieldWrapper.option_strings in the same interpreter)",
           "argparse.HelpFormatter layout, wrapping and the usage line are NOT modelled (compared across hash seeds only)",
           "group descriptions (class docstrings) are not modelled; generated classes carry an explicit docstring"]
ASSUMPTIONS = ["leaf fields are int, str, float, bool (names longer than one letter) or List[int]; help texts are whitespace-normalised words without '%', '-' or the temporary token",
               "single destination per wrapper (no ALWAYS_MERGE), no subgroups/subparsers, no positional fields",
               "defaults coming from outside the definition are non-None (None as 'unset' is C06's finding)",
               "config source with an un-rooted file (WITHOUT_ROOT, one destination): no override for a member named like the destination"]
EXHAUSTIVE = {"quick": False, "thorough": False}

NAMES = ["a", "bb", "cc", "x", "a_b", "c_d"]
KIDS = ["a", "bb", "cc", "k_d"]
DESTS = ["a", "bb", "d1"]
ALIAS_POOL = ["dd", "cc", "bb", "-zz", "--ee", "c_d", "a_b", "e_f", "y", "-w", "--a-b"]
HELPS = ["", "", "", "the value", "h1", "number of things to use in the run of the experiment and some more"]
HIDDEN = ["hid", "se_cret"]
DV = {"UNDERSCORE": "DUnderscore", "UNDERSCORE_AND_DASH": "DBoth", "DASH": "DDash"}
GM = {"FLAT": "GFlat", "NESTED": "GNested", "BOTH": "GBoth"}
NM = {"DEFAULT": "NDefault", "WITHOUT_ROOT": "NWithoutRoot"}
CR = {"AUTO": "CRAuto", "EXPLICIT": "CRExplicit", "NONE": "CRNone",
      # a merged case reaches the model as ONE already merged wrapper (hw_more); the merge itself is C11's subject
      "ALWAYS_MERGE": "CRAuto"}
SCRATCH = "/root/scratch/C16/run"
FULL_SEEDS = 2   # hash seeds under which the hidden-field probes and the print_help()/later-parse probes are run as well


# --------------------------------------------------------------------------------------------------
# generation


def mkfield(rng, name, top, equal_len_bias=0.3):
    aliases = []
    r = rng.random()
    if r < equal_len_bias:
        same = [a for a in ALIAS_POOL if len(_spell(a)) == len(_spell(name)) and _spell(a) != _spell(name)]
        if same:
            aliases.append(rng.choice(same))
        if rng.random() < 0.3:
            aliases.append(rng.choice(ALIAS_POOL))
    elif r < equal_len_bias + 0.15:
        aliases = rng.sample(ALIAS_POOL, rng.randint(1, 2))
    aliases = list(dict.fromkeys(aliases))
    d = rng.random()
    if d < 0.3:
        default = ["int", rng.randint(1, 99)]
    elif d < 0.45:
        default = ["str", rng.choice(["q", "abc", "v1"])]
    elif d < 0.55:
        default = ["float", rng.choice(["0.5", "2.25"])]
    elif d < 0.65:
        default = ["list", rng.choice([[64, 64], [7]])]
    elif d < 0.75 and len(name) > 1:
        # (one-letter bool fields get the same negative spelling twice under NESTED/BOTH - C12's subject - so they are left out)
        default = ["bool", rng.choice([True, True, False])]
    elif d < 0.87 or not top:
        default = ["none"]
    else:
        default = ["req"]
    return {"name": name, "aliases": aliases, "cmd": True, "init": True, "help": rng.choice(HELPS), "default": default,
            "via": rng.choice(["sp", "sp", "dc"])}


def _spell(a):
    """the spelling an alias / a name gets on the command line (without prefix)"""
    if a.startswith("-"):
        return a
    return ("-" if len(a) == 1 else "--") + a


def hidden_field(rng, name):
    kind = rng.choice(["cmd", "cmd", "init"])
    return {"name": name, "aliases": [], "cmd": kind != "cmd", "init": kind != "init", "help": rng.choice(["", "secret"]),
            "default": rng.choice([["int", 9], ["str", "hv"]]), "via": "sp" if kind == "cmd" and rng.random() < 0.6 else "dc"}


def rand_tree(rng, depth, width, top):
    nf = rng.randint(0 if depth > 0 else 1, width)
    names = rng.sample(NAMES, nf)
    fields = [mkfield(rng, n, top) for n in names]
    if rng.random() < 0.85:
        # mostly keep aliases from clashing with a sibling (same destination: no prefix can separate them)
        taken = {_spell(n) for n in names}
        for f in fields:
            keep = []
            for a in f["aliases"]:
                if _spell(a) not in taken and _spell(a).replace("_", "-") not in {t.replace("_", "-") for t in taken}:
                    keep.append(a)
                    taken.add(_spell(a))
            f["aliases"] = keep
    if rng.random() < 0.3:
        fields.insert(rng.randint(0, len(fields)), hidden_field(rng, rng.choice(HIDDEN)))
    kids = []
    if depth > 0:
        nk = rng.randint(0 if fields else 1, width)
        avail = [n for n in KIDS if n not in names]
        for kn in rng.sample(avail, min(nk, len(avail))):
            kids.append([kn, rand_tree(rng, depth - 1, width, False)])
    if not any(drv.exposed(f) for f in fields) and not kids:
        fields.append(mkfield(rng, rng.choice([n for n in NAMES if n not in names]), top))
    return {"fields": fields, "kids": kids, "doc": "auto" if rng.random() < 0.2 else "explicit"}


def name_classes(case):
    memo = {}

    def rec(tree):
        for _, sub in tree["kids"]:
            rec(sub)
        key = json.dumps({"fields": tree["fields"], "kids": [[k, s["cls"]] for k, s in tree["kids"]],
                          "doc": tree.get("doc", "explicit")}, sort_keys=True)
        if key not in memo:
            memo[key] = f"K{len(memo) + 1}"
        tree["cls"] = memo[key]

    for _, t, _ in case["dests"]:
        rec(t)
    return case


def exposed_leaves(case, dest=None):
    out = []
    for path, tree in drv.walk(case):
        if dest is not None and path[0] != dest:
            continue
        for f in tree["fields"]:
            if drv.exposed(f):
                out.append((path, f))
    return out


def new_value(rng, f):
    """a value coming from outside the definition, different from the definition's; in every second draw a FALSY one
    (0, "", 0.0, False, [])"""
    k = f["default"][0]
    falsy = rng.random() < 0.5
    if k == "str":
        return ["str", "" if falsy else rng.choice(["zed", "w", "kappa"])]
    if k == "float":
        return ["float", "0.0" if falsy else rng.choice(["1.5", "3.0"])]
    if k == "list":
        return ["list", [] if falsy else rng.choice([[1, 2, 3], [9]])]
    if k == "bool":
        return ["bool", not f["default"][1]]
    return ["int", 0 if falsy else rng.randint(100, 199)]


def add_source(rng, case, source):
    case["source"] = source
    case["over"] = []
    if source == "none":
        return case
    if source == "instance":
        dests = [d for d, _, _ in case["dests"] if rng.random() < 0.7] or [case["dests"][0][0]]
        for d in dests:
            for path, f in exposed_leaves(case, d):
                case["over"].append([".".join(path + [f["name"]]), new_value(rng, f)])
    else:
        lv = exposed_leaves(case)
        k = rng.randint(1, max(1, min(4, len(lv))))
        for path, f in rng.sample(lv, min(k, len(lv))):
            case["over"].append([".".join(path + [f["name"]]), new_value(rng, f)])
    if source == "config" and case["nm"] == "WITHOUT_ROOT" and len(case["dests"]) == 1:
        # the file is then written un-rooted; a member named like the destination itself would, in the
        # print_help()-then-parse probe (set-up done before the file is read, so no re-rooting), be taken for the
        # destination's own entry and crash in set_defaults - a further symptom of the same defect, kept out of the stream
        d0 = case["dests"][0][0]
        case["over"] = [o for o in case["over"] if not o[0].startswith(d0 + "." + d0 + ".") and o[0] != d0 + "." + d0]
        if not case["over"]:
            case["source"] = "none"
    seen = set()
    case["over"] = [o for o in case["over"] if not (o[0] in seen or seen.add(o[0]))]
    return case


def deep(x):
    return json.loads(json.dumps(x))


def merged_case(rng):
    """ConflictResolution.ALWAYS_MERGE: one class (no members of dataclass type) registered at 2-3 destinations - one group
    whose heading lists every destination (merging of different classes through a shared spelling is C11's subject)"""
    def flat_tree(names):
        fields = []
        for nme in names:
            f = mkfield(rng, nme, False, equal_len_bias=0.2)
            if f["default"][0] in ("bool", "list"):
                f["default"] = ["int", rng.randint(1, 99)]
            fields.append(f)
        if rng.random() < 0.3:
            fields.insert(rng.randint(0, len(fields)), hidden_field(rng, rng.choice(HIDDEN)))
        taken = set()
        for f in fields:  # aliases must not clash inside the class
            f["aliases"] = [a for a in f["aliases"] if _spell(a).replace("_", "-") not in taken
                            and not taken.add(_spell(a).replace("_", "-"))
                            and _spell(a).replace("_", "-") not in {_spell(g["name"]).replace("_", "-") for g in fields}]
        return {"fields": fields, "kids": [], "doc": "auto" if rng.random() < 0.15 else "explicit"}

    names = rng.sample(NAMES, rng.randint(1, 3))
    shared = flat_tree(names)
    pool = ["alpha", "beta", "gamma", "d1", "zeta", "eta"]
    dests = rng.sample(pool, rng.randint(2, 3))
    items = [[d, deep(shared), ""] for d in dests]
    c = {"dv": rng.choice(list(DV)), "gm": "FLAT", "nm": "DEFAULT", "mode": "ALWAYS_MERGE", "dests": items}
    return add_source(rng, name_classes(c), "none")


def fixed_trees():
    f = lambda name, aliases=(), help="", default=("int", 1), cmd=True, init=True, via="sp": {  # noqa: E731
        "name": name, "aliases": list(aliases), "cmd": cmd, "init": init, "help": help, "default": list(default), "via": via}
    t1 = {"fields": [f("bb", ["cc"], "the value"), f("x"), f("hid", cmd=False, default=("int", 9)), f("a_b", ["c_d"], default=("str", "q"))],
          "kids": []}
    t2 = {"fields": [f("a_b", help="h1"), f("ni", init=False, via="dc")],
          "kids": [["k_d", {"fields": [f("cc", ["bb"], default=("none",)), f("x", ["y"])], "kids": []}]]}
    t3 = {"fields": [f("cc", default=("float", "0.5")), f("bb", default=("list", [64, 64])), f("a_b", help="h1", default=("bool", True))],
          "kids": []}
    return t1, t2, t3


def gen(tier, seed):
    rng = random.Random(f"C16-{seed}")
    nseeds = 8 if tier == "quick" else 32
    cases = []
    cdir = os.path.join(os.path.dirname(os.path.dirname(os.path.dirname(os.path.abspath(__file__)))), "corpus", "C16")
    if os.path.isdir(cdir):
        for fn in sorted(os.listdir(cdir)):
            if fn.endswith(".json"):
                c = json.load(open(os.path.join(cdir, fn)))
                cases.append(c["case"] if "case" in c else c)
    t1, t2, t3 = fixed_trees()
    layouts = [[["a", t1, ""]], [["a", t2, ""], ["bb", t1, ""]], [["a", t1, ""], ["bb", t1, ""], ["d1", t3, "p_"]]]
    # systematic: every configuration x conflict mode on the fixed layouts, default sources rotating
    srcs = ["none", "instance", "set_defaults", "config"]
    k = 0
    for dv in DV:
        for gm in GM:
            for nm in NM:
                for mode in ("AUTO", "EXPLICIT", "NONE"):
                    for li, lay in enumerate(layouts):
                        if mode == "NONE" and li > 0:
                            continue  # the same class at two destinations always clashes under NONE
                        if tier == "quick" and (k + li) % 2:
                            k += 1
                            continue
                        c = {"dv": dv, "gm": gm, "nm": nm, "mode": mode, "dests": deep(lay)}
                        cases.append(add_source(rng, name_classes(c), srcs[k % 4]))
                        k += 1
    n = 600 if tier == "quick" else 4000
    for _ in range(n):
        big = tier == "thorough" and rng.random() < 0.25
        depth = rng.randint(0, 3 if big else 2)
        width = 3 if big else 2
        nd = rng.randint(1, 3)
        dests = rng.sample(DESTS, nd)
        shared = rand_tree(rng, depth, width, True)
        items = []
        for d in dests:
            t = deep(shared) if rng.random() < 0.5 else rand_tree(rng, rng.randint(0, depth), width, True)
            items.append([d, t, ""])
        r = rng.random()
        if r < 0.1:
            items[rng.randrange(nd)][2] = rng.choice(["p_", "zz."])
        c = {"dv": rng.choice(list(DV)), "gm": rng.choice(["FLAT", "FLAT", "NESTED", "BOTH"]), "nm": rng.choice(list(NM)),
             "mode": rng.choice(["AUTO"] * 6 + ["EXPLICIT"] * 2 + ["NONE"]), "dests": items}
        cases.append(add_source(rng, name_classes(c), rng.choice(["none", "none", "instance", "set_defaults", "config"])))
    for _ in range(36 if tier == "quick" else 400):
        cases.append(merged_case(rng))
    for c in cases:
        c["nseeds"] = nseeds
    return cases


# --------------------------------------------------------------------------------------------------
# implementation side: a sweep of fresh interpreters, one per hash seed, each running the whole shard


def _cfg_file(case):
    doc = {d: drv._over_tree(case, d) for d, _, _ in case["dests"]}
    doc = {d: v for d, v in doc.items() if v}
    if case["nm"] == "WITHOUT_ROOT" and len(case["dests"]) == 1:
        doc = doc.get(case["dests"][0][0], {})
    text = json.dumps(doc, sort_keys=True)
    path = os.path.join(SCRATCH, "cfg_" + hashlib.sha1(text.encode()).hexdigest()[:16] + ".json")
    if not os.path.exists(path):
        tmp = path + f".{os.getpid()}.tmp"
        with open(tmp, "w") as fh:
            fh.write(text)
        os.replace(tmp, path)
    return path


def run_impl(cases):
    if not cases:
        return []
    os.makedirs(SCRATCH, exist_ok=True)
    for c in cases:
        if c["source"] == "config":
            c["_cfg"] = _cfg_file(c)
    nseeds = max(c.get("nseeds", 8) for c in cases)
    tag = f"{os.getpid()}_{hashlib.sha1(json.dumps(cases, sort_keys=True).encode()).hexdigest()[:10]}"
    fin = os.path.join(SCRATCH, f"in_{tag}.json")
    json.dump(cases, open(fin, "w"))
    driver = os.path.join(os.path.dirname(os.path.dirname(os.path.abspath(__file__))), "c16_driver.py")
    per_seed = []
    batch = 4  # interpreters of this shard running at once (check.py runs up to 16 shards in parallel)
    for lo in range(0, nseeds, batch):
        procs = []
        for s in range(lo, min(nseeds, lo + batch)):
            env = dict(os.environ)
            env["PYTHONHASHSEED"] = str(s)
            env["COLUMNS"] = "80"
            env["C16_FULL"] = "1" if s < FULL_SEEDS else "0"
            fout = os.path.join(SCRATCH, f"out_{tag}_{s}.json")
            procs.append((s, fout, subprocess.Popen([sys.executable, driver, fin, fout, SCRATCH], env=env,
                                                    stdout=subprocess.PIPE, stderr=subprocess.STDOUT, text=True)))
        for s, fout, p in procs:
            out, _ = p.communicate(timeout=3000)
            if p.returncode != 0:
                raise RuntimeError(f"C16 driver under PYTHONHASHSEED={s} failed rc={p.returncode}:\n{out[-3000:]}")
            per_seed.append(json.load(open(fout)))
            os.remove(fout)
    os.remove(fin)
    res = []
    for i, case in enumerate(cases):
        case.pop("_cfg", None)
        res.append(merge(case, [per_seed[s][i] for s in range(min(nseeds, case.get("nseeds", 8)))]))
    return res


def _entries_with_dest(sections, opt2dest):
    out = []
    for title, _desc, entries in sections:
        if title in ("options", "optional arguments", "positional arguments"):
            continue
        out.append([title, [[opt2dest.get(opts[0], "?") if opts else "?", opts, default, text] for opts, default, text in entries],
                    " ".join(_desc)])
    return out


def _view(case, r):
    """parse result -> [[dest, value|None]] over the non-required exposed fields, or an outcome"""
    if r is None:
        return None
    if r[0] != "ok":
        return {"err": r[:2]}
    out = []
    for path, f in exposed_leaves(case):
        if f["default"][0] == "req":
            continue
        d = ".".join(path + [f["name"]])
        out.append([d, r[1][d][0] if d in r[1] else "<missing>"])
    return {"ok": out}


def _typed(case, r):
    """the same parse result with the Python type of every value (and of the items of a list)"""
    if r is None or r[0] != "ok":
        return None
    return [[d, r[1][d]] for d in sorted(r[1])]


def _hidden_mentions(case, parsed):
    """hidden fields whose name (either spelling) occurs anywhere in the help text outside the group descriptions:
    usage line, `options:` section, option strings and help texts of every entry"""
    import re

    chunks = [["usage", parsed["usage"]]]
    for title, _desc, entries in parsed["sections"]:
        for opts, default, text in entries:
            chunks.append([f"entry of {title}", " ".join(opts) + " " + (text or "") + " " + (default or "")])
    out = []
    for path, tree in drv.walk(case):
        for f in tree["fields"]:
            if drv.exposed(f):
                continue
            for n in {f["name"], f["name"].replace("_", "-")}:
                for where, text in chunks:
                    if re.search(r"(?<![A-Za-z0-9_])" + re.escape(n) + r"(?![A-Za-z0-9_])", text):
                        out.append([".".join(path + [f["name"]]), where])
    return sorted(map(list, {tuple(x) for x in out}))


def merge(case, seeds):
    texts, variants, keys = [], [], []
    for s, o in enumerate(seeds):
        h = o["help"]
        text = [h[0], h[1] if len(h) > 1 and h[0] != "cre" else None, h[2] if len(h) > 2 else "", h[3] if len(h) > 3 else ""]
        if text not in texts:
            texts.append(text)
        opt2dest = {}
        accepted = []
        docs = [doc for _title, _acts, doc in o["registered"]]
        for _title, acts, _doc in o["registered"]:
            for dest, _aopts, keysof in acts:
                accepted.append([dest, keysof])
                for k in keysof:
                    opt2dest[k] = dest
        stdout, stderr = text[3], text[2]
        if h[0] == "exit":
            stream = "out" if (stdout and not stderr) else ("err" if (stderr and not stdout) else None)
            parsed = drv.parse_help(stdout or stderr)
            groups = _entries_with_dest(parsed["sections"], opt2dest)
            mentions = _hidden_mentions(case, parsed)
        else:
            stream, groups, mentions = None, [], []
        api = None
        if o["api"] is not None:
            api = {"ok": _entries_with_dest(drv.parse_help(o["api_help"])["sections"], opt2dest)} if o["api"] == ["ok"] \
                else {"err": o["api"][:2]}
        v = {"full": o["full"], "end": ["cre"] if h[0] == "cre" else h[:2], "stream": stream, "groups": groups, "accepted": accepted, "action_dests": o["action_dests"],
             "hidden": [[d, all(k == "exit" and c == 2 for _, k, c in probes), probes, reg] for d, probes, reg in o["hidden"]],
             "format_help_same": o["format_help_same"], "api": api, "after": _view(case, o["after"]), "fresh": _view(case, o["fresh"]),
             "oracle": o["oracle"], "docs": docs, "hidden_elsewhere": mentions,
             "after_typed": _typed(case, o["after"]), "fresh_typed": _typed(case, o["fresh"]),
             "fresh_format_help_sections": o["fresh_format_help_sections"]}
        key = json.dumps(v, sort_keys=True)
        if key in keys:
            variants[keys.index(key)]["seeds"].append(s)
        else:
            keys.append(key)
            v["seeds"] = [s]
            variants.append(v)
    return {"ntexts": len(texts), "variants": variants, "text0": texts[0][3][:3000],
            "text1": texts[1][3][:3000] if len(texts) > 1 else None}


# --------------------------------------------------------------------------------------------------
# Python mirror of the spec


def _layered(case):
    return {p: drv.value_text(v) for p, v in case["over"]}


def _shown(eff, helptext):
    """what an entry shows for an effective default: the value, `None` spelled out when there is a help text, nothing"""
    if eff is not None:
        return [eff]
    return ["None"] if helptext else [None, "None"]


def _variant_reasons(case, v):
    """every way in which this observed behaviour violates the property (Python mirror of variant_spec_ok)"""
    if v["end"] == ["cre"]:
        return []
    if v["end"] != ["exit", 0]:
        return [f"--help ended with {v['end']} instead of exit status 0"]
    out = []
    if v["stream"] != "out":
        out.append("--help did not print to stdout only")
    over = _layered(case)
    acc = {d: k for d, k in v["accepted"]}
    hw = drv.help_wrappers(case)
    wr = [(p, t) for p, t, _m in hw]
    want = [t["cls"] + " [" + ", ".join(f"'{x}'" for x in [".".join(p)] + m) + "]" for p, t, m in hw]
    if [g[0] for g in v["groups"]] != want:
        return out + [f"groups {[g[0] for g in v['groups']]} are not one per wrapper, each listing its destinations in "
                      f"registration order: {want}"]
    for (path, tree, more), (_, _entries, desc), doc in zip(hw, v["groups"], v["docs"] + [None] * len(hw)):
        # the group says what documents its dataclass: here always the class docstring (members carry none: no source)
        if doc is not None and desc != " ".join(doc.split()):
            out.append(f"group of {'.'.join(path)} shows the description {desc!r}, its class is documented by {doc!r}")
    for (path, tree, more), (_, entries, _d) in zip(hw, v["groups"]):
        fs = [f for f in tree["fields"] if drv.exposed(f)]
        if len(fs) != len(entries):
            out.append(f"group of {'.'.join(path)}: {len(entries)} entries for {len(fs)} exposed fields")
            continue
        for f, (edest, opts, default, text) in zip(fs, entries):
            d = ".".join(path + [f["name"]])
            if edest != d:
                out.append(f"entry {opts} is not the entry of field {d} (declaration order)")
                continue
            if not opts or len(set(opts)) != len(opts) or set(opts) != set(acc.get(d, [])):
                out.append(f"entry of {d} shows {opts} but the parser accepts {acc.get(d)}")
            eff = over.get(d, drv.merged_text(f["default"], 1 + len(more)))
            if eff is not None and default != eff:
                out.append(f"entry of {d} shows default {default!r}, the effective default is {eff!r}")
            if eff is None and default not in (None, "None"):
                out.append(f"entry of {d} shows default {default!r} although there is none")
            if text != f["help"]:
                out.append(f"entry of {d} shows help {text!r}, declared {f['help']!r}")
    if not v["format_help_same"]:
        out.append("format_help() after --help differs from what --help printed")
    hidden_dests = [".".join(p + [f["name"]]) for p, t in drv.walk(case) for f in t["fields"] if not drv.exposed(f)]
    for d in hidden_dests:
        if d in v["action_dests"]:
            out.append(f"hidden field {d} has an action")
    for d, where in v["hidden_elsewhere"]:
        out.append(f"hidden field {d} is named in the help text outside the descriptions: {where}")
    for p, t in wr:
        for f in t["fields"]:
            if not drv.exposed(f) and any(f["name"] in g[2] for g in v["groups"]):
                out.append(f"hidden field {'.'.join(p + [f['name']])} is named in a group description: "
                           f"{[g[2] for g in v['groups'] if f['name'] in g[2]][0]!r}")
    if not v["full"]:
        return out
    for d, rejected, probes, reg in v["hidden"]:
        if reg:
            out.append(f"hidden field {d} has an action")
        if not rejected:
            out.append(f"hidden field {d} is parseable: {[p for p in probes if not (p[1] == 'exit' and p[2] == 2)]}")
    if v["api"] != {"ok": v["groups"]}:
        out.append("print_help() on a fresh parser lists other entries than --help")
    if v["after"] != v["fresh"]:
        out.append(f"a parse after print_help() returns {v['after']}, a fresh parser returns {v['fresh']}")
    elif v["after_typed"] != v["fresh_typed"]:
        out.append(f"a parse after print_help() returns values of other Python types: {v['after_typed']} vs fresh {v['fresh_typed']}")
    return out


def _stale_config_evidence(case, v):
    """The evidence for the listed finding `print_help() sets the parser up before the constructor's config file is read`:
    print_help() lists exactly the entries of --help EXCEPT that every field the file mentions shows the default it has
    WITHOUT the file, and the later parse returns exactly the fresh result EXCEPT that those fields come back with that
    default.  None = the evidence is there; otherwise what does not fit."""
    if case["source"] != "config":
        return "no-config-file"
    filed = {p: drv.value_text(val) for p, val in case["over"]}
    defn = {".".join(p + [f["name"]]): f for p, f in exposed_leaves(case)}
    api = v["api"]
    if not (isinstance(api, dict) and "ok" in api):
        return "print_help-failed"
    if [g[0] for g in api["ok"]] != [g[0] for g in v["groups"]] or [g[2] for g in api["ok"]] != [g[2] for g in v["groups"]]:
        return "groups-differ"
    for ga, gc in zip(api["ok"], v["groups"]):
        if len(ga[1]) != len(gc[1]):
            return "entry-count-differs"
        for ea, ec in zip(ga[1], gc[1]):
            if [ea[0], ea[1], ea[3]] != [ec[0], ec[1], ec[3]]:
                return "entries-differ-beyond-the-default"
            if ea[2] != ec[2]:
                f = defn.get(ea[0])
                if ea[0] not in filed or f is None:
                    return "default-of-a-field-the-file-does-not-mention"
                if ea[2] not in _shown(drv.value_text(f["default"]), f["help"]):
                    return "default-shown-is-not-the-one-without-the-file"
    a, fr = v["after"], v["fresh"]
    if not (isinstance(a, dict) and "ok" in a and isinstance(fr, dict) and "ok" in fr):
        return "later-parse-failed"
    if [r[0] for r in a["ok"]] != [r[0] for r in fr["ok"]]:
        return "later-parse-other-fields"
    for (d, va), (_d, vf) in zip(a["ok"], fr["ok"]):
        if va != vf:
            if d not in filed:
                return "later-parse-differs-on-a-field-the-file-does-not-mention"
            if vf != filed[d] or va != drv.value_text(defn[d]["default"]):
                return "later-parse-value-is-not-the-one-without-the-file"
    ta, tf = dict(map(tuple, [[d, json.dumps(x)] for d, x in (v["after_typed"] or [])])), \
        dict(map(tuple, [[d, json.dumps(x)] for d, x in (v["fresh_typed"] or [])]))
    for d in ta:
        if ta[d] != tf.get(d) and d not in filed:
            return "later-parse-type-differs-on-a-field-the-file-does-not-mention"
    return None


def _autodoc_evidence(case, v, reason):
    """The evidence for the listed finding `the docstring dataclasses generates is used as description`: the description
    that names the hidden field IS the `__doc__` of that group's class, the class was given no docstring, and the text
    has the generated form `Name(...)`.  None = the evidence is there."""
    wr = [(p, t) for p, t, _m in drv.help_wrappers(case)]
    hidden = {f["name"] for _p, t in wr for f in t["fields"] if not drv.exposed(f)}
    for (_path, tree), (_title, _entries, desc), doc in zip(wr, v["groups"], v["docs"] + [None] * len(wr)):
        if not any(n in desc for n in hidden):
            continue
        if tree.get("doc", "explicit") != "auto":
            return "class-has-its-own-docstring"
        if doc is None or desc != " ".join(doc.split()) or not desc.startswith(tree["cls"] + "("):
            return "not-the-generated-docstring"
        own = {f["name"] for f in tree["fields"] if not drv.exposed(f)}
        if not any(n in desc for n in own):
            return "field-of-another-class"
    return None


def _seed_difference(obs):
    """how the behaviours observed under different hash seeds differ"""
    ends, shapes, sets_ = set(), set(), set()
    for v in obs["variants"]:
        ends.add(json.dumps(v["end"]))
        shapes.add(json.dumps([[g[0], [[e[0], e[2], e[3]] for e in g[1]]] for g in v["groups"]]))
        sets_.add(json.dumps([[g[0], [[e[0], sorted(e[1])] for e in g[1]]] for g in v["groups"]]))
    if len(ends) > 1:
        return "option-sets" if ends <= {json.dumps(["cre"]), json.dumps(["exit", 0])} else "other"
    if len({json.dumps([g[0] for g in v["groups"]]) for v in obs["variants"]}) > 1:
        return "headings"
    if len(shapes) > 1:
        return "other"
    if len(sets_) > 1:
        return "option-sets"
    return "order"


LISTED_SHAPES = ("print_help-before-parse:config-file-defaults-ignored", "hidden-field-in-group-description")


def _reasons(case, obs):
    out = []
    for v in obs["variants"]:
        for r in _variant_reasons(case, v):
            if r not in out:
                out.append(r)
    if obs["ntexts"] != 1:
        k = _seed_difference(obs)
        what = {"order": "the order of equal-length option strings", "option-sets": "the option strings the conflict resolver assigns (or whether it gives up)",
                "headings": "the group headings (destinations of a merged wrapper)", "other": "more than the option strings"}[k]
        out.append(f"--help text differs across PYTHONHASHSEED ({obs['ntexts']} texts over {case.get('nseeds', 8)} seeds): {what}")
    return out


def py_spec(case, obs):
    """the first violation; one whose signature has the precise shape of a listed finding is reported only when the case
    shows nothing else (so that a listed finding never hides another defect in the same case)"""
    rs = _reasons(case, obs)
    for r in rs:
        if signature(case, obs, r) not in LISTED_SHAPES:
            return r
    return rs[0] if rs else None


def signature(case, obs, reason):
    if reason.startswith("--help text differs"):
        return "hashseed:" + {"order": "equal-length-spelling-order", "option-sets": "conflict-resolution-differs",
                              "headings": "group-heading-differs", "other": "other"}[_seed_difference(obs)]
    if reason.startswith(("print_help()", "a parse after")):
        misfit = None
        for v in obs["variants"]:
            if v["full"] and v["end"] == ["exit", 0] and (v["api"] != {"ok": v["groups"]} or v["after"] != v["fresh"]
                                                          or v["after_typed"] != v["fresh_typed"]):
                misfit = misfit or _stale_config_evidence(case, v)
        if misfit is None:
            return "print_help-before-parse:config-file-defaults-ignored"
        return f"print_help-before-parse:{case['source']}:{misfit}"
    if reason.startswith("hidden field") and "group description" in reason:
        misfit = None
        for v in obs["variants"]:
            if v["end"] == ["exit", 0]:
                misfit = misfit or _autodoc_evidence(case, v, reason)
        return "hidden-field-in-group-description" + ("" if misfit is None else ":" + misfit)
    if reason.startswith("coq-spec"):
        return "coq-spec-only"
    kinds = [("shows the description", "group-description-is-not-the-documentation"),
             ("--help ended with", "help-does-not-exit-0"), ("--help did not print", "help-not-on-stdout-only"),
             ("groups ", "groups-not-one-per-destination"), ("group of", "entry-count-differs-from-exposed-fields"),
             ("is not the entry of", "entry-order"), ("but the parser accepts", "option-strings-differ-from-accepted"),
             ("shows default", "default-shown-is-not-effective-default"), ("shows help", "help-text-differs"),
             ("has an action", "hidden-field-has-action"), ("is parseable", "hidden-field-parseable"),
             ("outside the descriptions", "hidden-field-named-outside-descriptions"),
             ("other Python types", "later-parse-value-types-differ"),
             ("format_help()", "format_help-differs-from-help")]
    for pat, k in kinds:
        if pat in reason:
            return "entries:" + k
    return "entries:other"


def _has_tie(case, obs):
    return any(v["oracle"] for v in obs["variants"])


def nontrivial(case, obs):
    ok = any(v["end"] == ["exit", 0] for v in obs["variants"])
    hidden = any(not drv.exposed(f) for _, t in drv.walk(case) for f in t["fields"])
    return ok and (_has_tie(case, obs) or hidden or bool(case["over"]))


def features(case, obs):
    fws = exposed_leaves(case)
    return {"mode": case["mode"], "dv": case["dv"], "gm": case["gm"], "nm": case["nm"], "source": case["source"],
            "ndest": len(case["dests"]), "nexposed": min(len(fws), 10),
            "hidden": sum(1 for _, t in drv.walk(case) for f in t["fields"] if not drv.exposed(f)),
            "falsy_outside_defaults": min(3, sum(1 for _, v in case["over"] if drv.is_falsy(v))),
            "types": "+".join(sorted({f["default"][0] for _, f in fws})),
            "end": "-".join(str(x) for x in obs["variants"][0]["end"]), "ntexts": obs["ntexts"], "nvariants": len(obs["variants"]),
            "tie": _has_tie(case, obs), "autodoc": sum(1 for _, t in drv.walk(case) if t.get("doc") == "auto"),
            "fresh_format_help_lists_fields": any(v["fresh_format_help_sections"] > 1 for v in obs["variants"])}


# --------------------------------------------------------------------------------------------------
# Coq emission.  Coq's cost is dominated by string literals, so every distinct string of a case is bound once
# (`let sK := "..." in`) and referred to by name afterwards.

MAXVAR = {8: 3, 32: 4}


class Names:
    def __init__(self):
        self.tbl, self.tbl2, self.order = {}, {}, []

    def s(self, x):
        assert isinstance(x, str)
        if len(x) <= 1:
            return cstr(x)
        if x not in self.tbl:
            self.tbl[x] = f"s{len(self.tbl)}"
        return self.tbl[x]

    def t(self, text):
        """share a composite sub-term"""
        if len(text) <= 8 or text.startswith("(Err") or text in ("[]", "None"):
            return text  # (polymorphic terms must not be shared between uses at different types)
        if text not in self.tbl2:
            self.tbl2[text] = f"t{len(self.tbl2)}"
            self.order.append((self.tbl2[text], text))
        return self.tbl2[text]

    def ss(self, xs):
        return self.t(clist([self.s(x) for x in xs]))

    def os(self, x):
        return "None" if x is None else f"(Some {self.s(x)})"

    def wrap(self, body):
        return ("(" + "".join(f"let {v} := {cstr(k)} in " for k, v in self.tbl.items())
                + "".join(f"let {v} := {k} in " for v, k in self.order) + body + ")")


def _cmd_meta(f):
    """field.metadata["cmd"] as the class builder in c16_driver sets it: simple_parsing.field always writes the key,
    a plain dataclasses.field only when cmd=False is asked for"""
    if f.get("via", "sp") == "sp":
        return "(Some true)" if f["cmd"] else "(Some false)"
    return "None" if f["cmd"] else "(Some false)"


def _forest(case, n, docs):
    ws = []
    for path, tree, more in drv.help_wrappers(case):
        up = drv.user_prefix(case, path)
        fs = []
        for f in tree["fields"]:
            # (for a merged wrapper the definition default is handed over as the merged action prints it, e.g. `[3, 3, 3]`)
            fs.append(f"(mkhf (mkfw {n.ss(path)} {n.s(f['name'])} {n.s(up)} {n.ss(f['aliases'])} false) {cbool(f['init'])} "
                      f"{_cmd_meta(f)} {n.s(f['help'])} {n.os(drv.merged_text(f['default'], 1 + len(more)))} "
                      f"{cbool(f['default'][0] == 'bool')})")
        ws.append(f"(mkhw {n.s(tree['cls'])} {n.ss(path)} {n.ss(more)} {n.s(docs.get(tree['cls'], drv.DOC.format(tree['cls'])))} {clist(fs)})")
    return clist(ws)


def _groups(gs, n):
    out = []
    for title, entries, desc in gs:
        es = [n.t(f"(mkentry {n.s(d)} {n.ss(opts)} {n.os(df)} {n.s(text)})") for d, opts, df, text in entries]
        out.append(n.t(f"(mkgroup {n.s(title)} {n.s(desc)} {clist(es)})"))
    return n.t(clist(out))


def _res(x, ok):
    if x is None:
        return "(Err CRE)"
    if isinstance(x, dict) and "err" in x:
        return outcome(x["err"])
    return f"(Ok {ok(x['ok'] if isinstance(x, dict) else x)})"


def _err(end):
    if end[0] == "ok":
        return '(Raise "NoExit")'
    t = outcome(end)
    return t[len("(Err "):-1]


def _docs_of(case, obs):
    """class name -> __doc__ as the implementation interpreter reports it (dataclasses writes it at class creation);
    the explicit docstring of the generator when set-up never happened"""
    out = {}
    for v in obs["variants"]:
        for (_p, t, _m), doc in zip(drv.help_wrappers(case), v.get("docs", [])):
            if doc is not None:
                out.setdefault(t["cls"], doc)
    return out


def coq_variants(obs, nseeds=8):
    """the variants handed to Coq: at most MAXVAR, one per distinct help text first (the Python spec judges all of them)"""
    vs = obs["variants"]
    cap = MAXVAR.get(nseeds, 4)
    if len(vs) <= cap:
        return vs
    seen, first, rest = [], [], []
    for v in vs:
        k = json.dumps([v["end"], v["groups"]])
        (rest if k in seen else first).append(v)
        seen.append(k)
    return (first + rest)[:cap]


def to_coq(case, obs):
    n = Names()
    over = clist([cpair(n.s(p), f"(mkdv {n.s(drv.value_text(v))} {cbool(drv.is_falsy(v))})") for p, v in case["over"]])
    pre = over if case["source"] in ("instance", "set_defaults") else "[]"
    cfgf = over if case["source"] == "config" else "[]"
    req = n.ss([".".join(p + [f["name"]]) for p, f in exposed_leaves(case) if f["default"][0] == "req"])
    vs = []
    view = lambda rows: n.t(clist([cpair(n.s(d), n.os(v)) for d, v in rows]))  # noqa: E731
    for v in coq_variants(obs, case.get("nseeds", 8)):
        stream = {"out": "(Some SOut)", "err": "(Some SErr)", None: "None"}[v["stream"]]
        acc = n.t(clist([n.t(cpair(n.s(d), n.ss(k))) for d, k in v["accepted"]]))
        hid = n.t(clist([cpair(n.s(d), cbool(rej)) for d, rej, _, _ in v["hidden"]]))
        api = n.t(_res(v["api"], lambda g: _groups(g, n)))
        vs.append(f"(mkvar {cbool(v['full'] and case['mode'] != 'ALWAYS_MERGE')} {n.t(clist([n.ss(r) for r in v['oracle']]))} {_err(v['end'])} {stream} {_groups(v['groups'], n)} {acc} "
                  f"{n.ss(v['action_dests'])} {hid} {cbool(not v['hidden_elsewhere'])} {cbool(bool(v['format_help_same']))} "
                  f"{cbool(v['after_typed'] == v['fresh_typed'])} {api} "
                  f"{n.t(_res(v['after'], view))} {n.t(_res(v['fresh'], view))})")
    return n.wrap(f"mkcase (mkcfg {DV[case['dv']]} {GM[case['gm']]} {NM[case['nm']]}) {CR[case['mode']]} {_forest(case, n, _docs_of(case, obs))} {pre} {cfgf} "
                  f"{req} {clist(vs)} {cnat(obs['ntexts'])}")


# --------------------------------------------------------------------------------------------------


def shrink(case):
    ds = case["dests"]

    def again(c):
        c = deep(c)
        name_classes(c)
        live = {".".join(p + [f["name"]]) for p, f in exposed_leaves(c)}
        c["over"] = [o for o in c["over"] if o[0] in live]
        if not c["over"]:
            c["source"] = "none"
        return c

    if len(ds) > 1:
        for i in range(len(ds)):
            yield again(dict(case, dests=ds[:i] + ds[i + 1:]))

    def trees(t):
        for j in range(len(t["fields"])):
            t2 = {"fields": t["fields"][:j] + t["fields"][j + 1:], "kids": t["kids"], "doc": t.get("doc", "explicit")}
            if any(drv.exposed(f) for f in t2["fields"]) or t2["kids"]:
                yield t2
        for j in range(len(t["kids"])):
            t2 = {"fields": t["fields"], "kids": t["kids"][:j] + t["kids"][j + 1:], "doc": t.get("doc", "explicit")}
            if any(drv.exposed(f) for f in t2["fields"]) or t2["kids"]:
                yield t2
            for sub in trees(t["kids"][j][1]):
                yield {"fields": t["fields"], "kids": t["kids"][:j] + [[t["kids"][j][0], sub]] + t["kids"][j + 1:], "doc": t.get("doc", "explicit")}
        for j, f in enumerate(t["fields"]):
            for k in range(len(f["aliases"])):
                f2 = dict(f, aliases=f["aliases"][:k] + f["aliases"][k + 1:])
                yield {"fields": t["fields"][:j] + [f2] + t["fields"][j + 1:], "kids": t["kids"], "doc": t.get("doc", "explicit")}
            if f["help"]:
                yield {"fields": t["fields"][:j] + [dict(f, help="")] + t["fields"][j + 1:], "kids": t["kids"], "doc": t.get("doc", "explicit")}

    for i, (d, t, p) in enumerate(ds):
        for t2 in trees(t):
            yield again(dict(case, dests=ds[:i] + [[d, t2, p]] + ds[i + 1:]))
        if p:
            yield again(dict(case, dests=ds[:i] + [[d, t, ""]] + ds[i + 1:]))
    for k, v in (("gm", "FLAT"), ("nm", "DEFAULT"), ("dv", "UNDERSCORE"), ("mode", "AUTO")):
        if case[k] != v:
            yield again(dict(case, **{k: v}))
    if len(case["over"]) > 1:
        for i in range(len(case["over"])):
            if case["source"] != "instance":
                yield again(dict(case, over=case["over"][:i] + case["over"][i + 1:]))
