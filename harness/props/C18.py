"""C18 — replace(): exactly the requested nested changes, nothing else; three input forms; errors; input untouched."""
from __future__ import annotations

import random

from coqemit import cbool, clist, copt, cpair, cstr, outcome

ID = "C18"
FACTS = ["Replace"]
COQ_HEADER = "From SPV Require Import CorrDefs.CorrC18."
COQ_CASE_TYPE = "case"
RULE = ("a family of dataclasses is generated as source text (depth <= 4; frozen and plain; int/str/Optional[int]/List/dict-valued "
        "fields, init=False fields with a default, nested / Optional[...] / Union[...] dataclass members; field names re-used across "
        "levels) and an instance of it is built; an ABSTRACT change set (nested, dot-free) is drawn against that instance: new leaf "
        "values, dict values, whole-member swaps (other Union member, None, fresh instance), nested changes, the empty set, empty "
        "sub-dicts, and - with small probability - an init=False or unknown field at any level; it is RENDERED to what is passed: "
        "per sub-dict nested or dotted (one form per subtree), at top level as `changes_dict` or as keywords.  A malformed stream "
        "(both arguments, prefix conflicts in both orders, empty key components, dotted keys inside a dict value, a non-dataclass "
        "obj) is judged by the model only.  The real simple_parsing.replace is called; obj is deep-copied before and compared "
        "after.  Non-trivial = a non-empty or malformed change set; distinct by full case.")
TRUSTED = ["Model/Replace.v dc_replace = CPython 3.12 dataclasses.replace for classes without __post_init__/InitVar "
           "(tied on every case through the level-by-level reference run with the real dataclasses.replace)"]
ASSUMPTIONS = ["no generated field is called `obj` or `changes_dict` (replace(field_value, **field_changes) would bind them to its own parameters)",
               "no __post_init__, no InitVar; init=False fields have a leaf default",
               "init=False fields are derived state: the frame condition lets them hold either what they held or what the constructor assigns"]

NAMES = ["a", "b", "c", "d", "x", "y", "lr", "name", "opt", "cfg", "w_1"]
MAXDEPTH = 4


# --------------------------------------------------------------------------------------------------
# nodes (JSON-able abstract values)


def leaf(v):
    return {"k": "leaf", "ty": type(v).__name__, "repr": repr(v)}


def dnode(items):
    return {"k": "dict", "items": [[k, v] for k, v in items]}


def rand_leaf(rng, kind=None):
    kind = kind or rng.choice(["int", "int", "str", "none", "list", "bool", "float"])
    if kind == "int":
        return leaf(rng.choice([0, 1, -3, 7, 42, 10 ** 12]))
    if kind == "str":
        return leaf(rng.choice(["", "bob", "a.b", "x y", "level1", "{}"]))
    if kind == "none":
        return leaf(None)
    if kind == "list":
        return leaf(rng.choice([[], [1, 2], [3], ["a", "b"]]))
    if kind == "bool":
        return leaf(rng.choice([True, False]))
    return leaf(rng.choice([0.5, 1e-3, -2.0]))


def rand_dictval(rng, depth=0):
    n = rng.choice([1, 1, 2, 3])
    keys = rng.sample(["x", "y", "k", "a", "b", "z_1"], n)
    items = []
    for k in keys:
        if depth < 2 and rng.random() < 0.3:
            items.append([k, rand_dictval(rng, depth + 1)])
        else:
            items.append([k, rand_leaf(rng)])
    return dnode(items)


# --------------------------------------------------------------------------------------------------
# schema + instance


def gen_schema(rng):
    """classes: {name: {"frozen": bool, "fields": [[fname, kind, extra]]}}, root class C0, children defined after parents in
    the dict but emitted before them in the source."""
    classes = {}
    counter = [0]

    def mk(depth):
        name = f"C{counter[0]}"
        counter[0] += 1
        cls = {"frozen": rng.random() < 0.35, "fields": []}
        classes[name] = cls
        nf = rng.choice([1, 2, 2, 3, 3, 4])
        fnames = rng.sample(NAMES, nf)
        for fn in fnames:
            kinds = ["int", "int", "str", "optint", "list", "dictf", "noninit"]
            if depth < MAXDEPTH:
                kinds += ["dc", "dc", "dc", "optdc", "union"] if depth < 2 else ["dc", "optdc", "union"]
            kind = rng.choice(kinds)
            if depth < 3 and fn == fnames[0] and rng.random() < (0.85 if depth == 1 else 0.5):
                kind = rng.choice(["dc", "dc", "optdc", "union"])     # most families are really nested
            extra = None
            if kind in ("dc", "optdc"):
                extra = [mk(depth + 1)]
            elif kind == "union":
                extra = [mk(depth + 1), mk(depth + 1)]
            elif kind == "noninit":
                extra = rng.choice([3, 7, "dflt"])
            cls["fields"].append([fn, kind, extra])
        return name

    mk(1)
    return classes


ANN = {"int": "int", "str": "str", "optint": "Optional[int]", "list": "List[int]", "dictf": "Dict[str, Any]"}


def schema_source(classes):
    out = ["import dataclasses", "from dataclasses import dataclass, field", "from typing import Any, Dict, List, Optional, Union", ""]
    for name in sorted(classes, key=lambda n: -int(n[1:])):
        c = classes[name]
        out.append("@dataclass(frozen=True)" if c["frozen"] else "@dataclass")
        out.append(f"class {name}:")
        for fn, kind, extra in c["fields"]:
            if kind in ANN:
                out.append(f"    {fn}: {ANN[kind]}")
            elif kind == "noninit":
                out.append(f"    {fn}: {type(extra).__name__} = field(default={extra!r}, init=False)")
            elif kind == "dc":
                out.append(f"    {fn}: {extra[0]}")
            elif kind == "optdc":
                out.append(f"    {fn}: Optional[{extra[0]}]")
            else:
                out.append(f"    {fn}: Union[{extra[0]}, {extra[1]}]")
        out.append("")
    return "\n".join(out)


def gen_instance(rng, classes, name, mutate_noninit=False):
    c = classes[name]
    fields = []
    for fn, kind, extra in c["fields"]:
        if kind == "int":
            fields.append([fn, True, rand_leaf(rng, "int"), None])
        elif kind == "str":
            fields.append([fn, True, rand_leaf(rng, "str"), None])
        elif kind == "optint":
            fields.append([fn, True, rand_leaf(rng, rng.choice(["int", "none"])), None])
        elif kind == "list":
            fields.append([fn, True, rand_leaf(rng, "list"), None])
        elif kind == "dictf":
            fields.append([fn, True, rand_dictval(rng) if rng.random() < 0.85 else dnode([]), None])
        elif kind == "noninit":
            d = leaf(extra)
            cur = d
            if mutate_noninit and not c["frozen"] and rng.random() < 0.5:
                cur = leaf(99)
            fields.append([fn, False, cur, d])
        elif kind == "dc":
            fields.append([fn, True, gen_instance(rng, classes, extra[0], mutate_noninit), None])
        elif kind == "optdc":
            fields.append([fn, True, gen_instance(rng, classes, extra[0], mutate_noninit) if rng.random() < 0.6 else leaf(None), None])
        else:
            fields.append([fn, True, gen_instance(rng, classes, rng.choice(extra), mutate_noninit), None])
    return {"k": "dc", "cls": name, "fields": fields}


# --------------------------------------------------------------------------------------------------
# abstract change sets and their renderings


def gen_changes(rng, classes, node, p_field, p_bad):
    """abstract change set (list of [key, node]) against the dataclass node."""
    c = classes[node["cls"]]
    kinds = {fn: (kind, extra) for fn, kind, extra in c["fields"]}
    items = []
    for fn, init, val, _d in node["fields"]:
        kind, extra = kinds[fn]
        if not init:
            if rng.random() < p_bad:
                items.append([fn, rand_leaf(rng, "int")])
            continue
        if rng.random() >= p_field:
            continue
        if val["k"] == "dc":
            r = rng.random()
            if r < 0.62:
                sub = gen_changes(rng, classes, val, min(0.9, p_field + 0.15), p_bad)
                if not sub and rng.random() < 0.7:
                    sub = gen_changes(rng, classes, val, 1.0, 0.0)
                items.append([fn, dnode(sub)])
            elif r < 0.85:
                pool = extra if kind in ("union", "dc", "optdc") else [val["cls"]]
                items.append([fn, gen_instance(rng, classes, rng.choice(pool))])
            elif r < 0.93:
                items.append([fn, leaf(None)])
            else:
                items.append([fn, rand_dictval(rng) if rng.random() < 0.5 else rand_leaf(rng)])
        elif kind in ("optdc", "dc", "union"):  # currently None
            r = rng.random()
            if r < 0.6:
                items.append([fn, gen_instance(rng, classes, rng.choice(extra))])
            elif r < 0.85:
                items.append([fn, rand_dictval(rng)])   # a dict where no instance is: becomes the value (documented)
            else:
                items.append([fn, leaf(None)])
        elif kind == "dictf":
            r = rng.random()
            items.append([fn, rand_dictval(rng) if r < 0.8 else (dnode([]) if r < 0.9 else rand_leaf(rng))])
        else:
            items.append([fn, val if rng.random() < 0.1 else rand_leaf(rng, None if rng.random() < 0.3 else
                                                                    {"optint": "int"}.get(kind, kind))])
    if rng.random() < p_bad:
        items.append([rng.choice(["zz", "nope", "a_b_c"] + [n for n in NAMES if n not in kinds][:2]), rand_leaf(rng)])
    rng.shuffle(items)
    return items


def render(rng, items, node, p_dot):
    """abstract items -> the items actually passed; each non-empty sub-dict is kept nested or inlined with dotted keys."""
    children = {fn: val for fn, init, val, _d in node["fields"] if init} if node is not None and node["k"] == "dc" else {}
    out = []
    for k, c in items:
        if c["k"] == "dict" and c["items"]:
            child = children.get(k)
            dotted = rng.random() < p_dot
            if child is not None and child["k"] == "dc":
                sub = render(rng, c["items"], child, p_dot)
            elif dotted:
                sub = render_value_dict(rng, c["items"], p_dot)
            else:
                sub = c["items"]      # a dict VALUE that is kept nested is passed literally
            if dotted:
                out += [[k + "." + k2, c2] for k2, c2 in sub]
            else:
                out.append([k, dnode(sub)])
        else:
            out.append([k, c])
    return out


def render_value_dict(rng, items, p_dot):
    """a dict that becomes a VALUE: it may be inlined from the top (keys joined), never dotted underneath a kept dict."""
    out = []
    for k, c in items:
        if c["k"] == "dict" and c["items"] and rng.random() < p_dot:
            out += [[k + "." + k2, c2] for k2, c2 in render_value_dict(rng, c["items"], p_dot)]
        else:
            out.append([k, c])
    return out


def has_dots(items):
    return any("." in k or (c["k"] == "dict" and has_dots(c["items"])) for k, c in items)


def depth_of(node):
    if node["k"] != "dc":
        return 0
    return 1 + max([depth_of(v) for _n, _i, v, _d in node["fields"]] + [0])


def count_dc(node):
    if node["k"] != "dc":
        return 0
    return 1 + sum(count_dc(v) for _n, _i, v, _d in node["fields"])


def malformed(rng, classes, obj, abs_items, passed):
    """variants outside the abstract grammar; returns (kind, obj, cd, kw)."""
    kinds = ["both", "conflict_dict_first", "conflict_dotted_first", "conflict_leaf_first", "conflict_leaf_last",
             "empty_component", "dotted_in_value", "nondc_obj", "emptycd_kw", "nondc_conflict"]
    kind = rng.choice(kinds)
    nested_keys = [(i, k, c) for i, (k, c) in enumerate(abs_items) if c["k"] == "dict" and len(c["items"]) >= 1]
    if kind == "both":
        kw = [[k, c] for k, c in passed[:1]] or [["a", leaf(1)]]
        return kind, obj, passed or [["b", leaf(2)]], kw
    if kind == "emptycd_kw":
        return kind, obj, [], passed
    if kind == "nondc_obj":
        return kind, rng.choice([leaf(5), leaf(None), rand_dictval(rng)]), passed, None
    if kind == "nondc_conflict":
        return kind, leaf("s"), [["a", leaf(1)], ["a.b", leaf(2)]], None
    if kind.startswith("conflict") and nested_keys:
        i, k, c = rng.choice(nested_keys)
        k2, c2 = c["items"][0]
        rest = dnode(c["items"][1:]) if kind in ("conflict_dict_first", "conflict_dotted_first") else leaf(5)
        a, b = [k, rest], [k + "." + k2, c2]
        pair = [a, b] if kind in ("conflict_dict_first", "conflict_leaf_first") else [b, a]
        others = [[kk, cc] for j, (kk, cc) in enumerate(abs_items) if j != i]
        pos = rng.randrange(len(others) + 1)
        return kind, obj, others[:pos] + pair + others[pos:], None
    if kind == "dotted_in_value":
        flds = [fn for fn, init, v, _d in obj["fields"] if init and v["k"] != "dc"]
        if flds:
            return kind, obj, [[rng.choice(flds), dnode([["p.q", leaf(1)], ["r", dnode([["s.t", leaf(2)]])]])]], None
    # empty components
    fn = rng.choice([f[0] for f in obj["fields"]])
    key = rng.choice([fn + "..x", "." + fn, fn + ".", "", ".", fn + "..", ".."])
    return "empty_component", obj, [[key, rand_leaf(rng)]] + [[k, c] for k, c in passed if k != key][:2], None


def gen(tier, seed):
    rng = random.Random(f"C18-{seed}")
    n_schema = 150 if tier == "quick" else 1800
    per = 20
    cases = []
    for _ in range(n_schema):
        while True:
            classes = gen_schema(rng)
            if len(classes) <= 14:
                break
        src = schema_source(classes)
        for j in range(per):
            obj = gen_instance(rng, classes, "C0", mutate_noninit=rng.random() < 0.15)
            r = rng.random()
            p_field = rng.choice([0.25, 0.5, 0.8])
            p_bad = 0.0 if r < 0.7 else rng.choice([0.1, 0.3])
            if j == 0:
                abs_items = []
            else:
                abs_items = gen_changes(rng, classes, obj, p_field, p_bad)
                for _retry in range(3):
                    if abs_items:
                        break
                    abs_items = gen_changes(rng, classes, obj, 0.8, p_bad)
            passed = render(rng, abs_items, obj, rng.choice([0.0, 0.5, 0.5, 1.0]))
            if j >= 2 and rng.random() < 0.14:
                kind, o2, cd, kw = malformed(rng, classes, obj, abs_items, passed)
                cases.append(dict(src=src, obj=o2, cd=cd, kw=kw if kw is not None else [], abs=None, malformed=kind))
                continue
            form = rng.choice(["dict", "kw", "kw"]) if abs_items else rng.choice(["dict", "kw", "none"])
            if form == "dict":
                cd, kw = passed, []
            elif form == "kw":
                cd, kw = None, passed
            else:
                cd, kw = None, []
            cases.append(dict(src=src, obj=obj, cd=cd, kw=kw, abs=abs_items, malformed=None))
    return cases


# --------------------------------------------------------------------------------------------------
# implementation side

_NS_CACHE = {}


def _namespace(src):
    ns = _NS_CACHE.get(src)
    if ns is None:
        if len(_NS_CACHE) > 64:
            _NS_CACHE.clear()
        ns = {}
        exec(compile(src, "<c18>", "exec", dont_inherit=True), ns)
        _NS_CACHE[src] = ns
    return ns


def build(node, ns):
    import ast as _ast

    k = node["k"]
    if k == "leaf":
        return _ast.literal_eval(node["repr"])
    if k == "dict":
        return {key: build(v, ns) for key, v in node["items"]}
    cls = ns[node["cls"]]
    inst = cls(**{fn: build(v, ns) for fn, init, v, _d in node["fields"] if init})
    for fn, init, v, d in node["fields"]:
        if not init and v != d:
            object.__setattr__(inst, fn, build(v, ns))
    return inst


def canon_node(v):
    import dataclasses

    if dataclasses.is_dataclass(v) and not isinstance(v, type):
        fs = []
        for f in dataclasses.fields(v):
            d = None
            if not f.init:
                d = {"k": "leaf", "ty": type(f.default).__name__, "repr": repr(f.default)}
            fs.append([f.name, bool(f.init), canon_node(getattr(v, f.name)), d])
        return {"k": "dc", "cls": type(v).__name__, "fields": fs}
    if type(v) is dict and all(isinstance(k, str) for k in v):
        return {"k": "dict", "items": [[k, canon_node(x)] for k, x in v.items()]}
    return {"k": "leaf", "ty": type(v).__name__, "repr": repr(v)}


def _levelwise(obj, items, ns):
    """the reference of the property: dataclasses.replace applied level by level along the abstract change set."""
    import dataclasses

    if not (dataclasses.is_dataclass(obj) and not isinstance(obj, type)):
        raise TypeError("not a dataclass instance")
    init = {f.name for f in dataclasses.fields(obj) if f.init}
    kw = {}
    for k, c in items:
        child = getattr(obj, k) if k in init else None
        if c["k"] == "dict" and dataclasses.is_dataclass(child) and not isinstance(child, type):
            kw[k] = _levelwise(child, c["items"], ns)
        else:
            kw[k] = build(c, ns)
    return dataclasses.replace(obj, **kw)


def _oc(r):
    if r[0] == "ok":
        return ["ok", canon_node(r[1])]
    if r[0] == "raise":
        return ["raise", r[1]]
    return r[:2]


def run_impl(cases):
    import copy

    from implutil import outcome_of
    import simple_parsing
    from simple_parsing.utils import flatten_join, unflatten_split

    out = []
    for case in cases:
        ns = _namespace(case["src"])
        obj = build(case["obj"], ns)
        before = copy.deepcopy(obj)
        before_node = canon_node(before)
        gen_ok = before_node == case["obj"]
        cd = None if case["cd"] is None else {k: build(v, ns) for k, v in case["cd"]}
        kw = {k: build(v, ns) for k, v in case["kw"]}
        cd_before = copy.deepcopy(cd)
        if cd is None:
            r = outcome_of(lambda: simple_parsing.replace(obj, **kw))
        else:
            r = outcome_of(lambda: simple_parsing.replace(obj, cd, **kw))
        same_type = r[0] == "ok" and type(r[1]) is type(obj)
        is_new = r[0] == "ok" and r[1] is not obj
        py_equal = bool(r[0] == "ok" and r[1] == obj)
        after_node = canon_node(obj)
        unchanged = after_node == before_node and canon_node(before) == before_node
        try:
            unchanged = unchanged and bool(obj == before)
        except Exception:  # noqa: BLE001
            unchanged = False
        changes_unchanged = canon_node(cd) == canon_node(cd_before) if cd is not None else True
        eff = ({k: build(v, ns) for k, v in case["cd"]} if case["cd"] else None) or {k: build(v, ns) for k, v in case["kw"]}
        unflat = _oc(outcome_of(lambda: unflatten_split(eff)))
        flat = ref = None
        if case["abs"] is not None:
            absd = {k: build(v, ns) for k, v in case["abs"]}
            flat = canon_node(flatten_join(absd))
            obj2 = build(case["obj"], ns)
            ref = _oc(outcome_of(lambda: _levelwise(obj2, case["abs"], ns)))
        out.append(dict(obs=_oc(r), msg=(r[2] if r[0] == "raise" else ""), same_type=same_type, is_new=is_new, py_equal=py_equal,
                        input_unchanged=unchanged, changes_unchanged=changes_unchanged, before=before_node, gen_ok=gen_ok,
                        unflat=unflat, flat=flat, ref=ref))
    return out


# --------------------------------------------------------------------------------------------------
# spec (Python mirror of Model/ReplaceSpec.v frame_check and CorrC18.spec_ok)


def _child(node, k):
    if node is None or node["k"] != "dc":
        return None
    for fn, init, v, _d in node["fields"]:
        if fn == k:
            return v if init else None
    return None


def assigns(c, o):
    if c["k"] == "dict" and o is not None and o["k"] == "dc":
        out = []
        for k, x in c["items"]:
            out += [([k] + q, v) for q, v in assigns(x, _child(o, k))]
        return out
    return [([], c)]


def settable(o, q):
    if not q or o is None or o["k"] != "dc":
        return False
    x = _child(o, q[0])
    if x is None:
        return False
    return True if len(q) == 1 else settable(x, q[1:])


def get(v, p):
    for k in p:
        v = _child(v, k)
        if v is None:
            return None
    return v


def all_paths(v):
    if v["k"] != "dc":
        return [[]]
    out = [[]]
    for fn, init, x, _d in v["fields"]:
        if init:
            out += [[fn] + p for p in all_paths(x)]
    return out


def node_same(a, b):
    if a is None or b is None:
        return a is None and b is None
    if a["k"] == "dc" or b["k"] == "dc":
        if a["k"] != b["k"] or a["cls"] != b["cls"] or len(a["fields"]) != len(b["fields"]):
            return False
        for (n1, i1, v1, d1), (n2, i2, v2, d2) in zip(a["fields"], b["fields"]):
            if n1 != n2 or i1 != i2 or d1 != d2:
                return False
            if not i1 and not (v2 == v1 or v2 == d1):
                return False
        return True
    return a == b


def frame_reason(o, abs_items, obs):
    A = assigns(dnode(abs_items), o)
    bad = [q for q, _v in A if not settable(o, q)]
    if bad:
        if obs[0] != "raise":
            return "not-raised", f"change to {'.'.join(bad[0]) or '<root>'} (init=False / unknown field) did not raise: {obs[0]}"
        return None
    if obs[0] != "ok":
        return "raised", f"a valid change set raised {obs[1]}"
    o2 = obs[1]
    for q, v in A:
        if get(o2, q) != v:
            return "addressed-wrong", f"addressed leaf {'.'.join(q)} is {get(o2, q)} instead of {v}"
    for p in all_paths(o) + all_paths(o2):
        if all(p[:len(q)] != q for q, _v in A) and not node_same(get(o, p), get(o2, p)):
            return "other-changed", f"unaddressed node {'.'.join(p) or '<root>'} changed: {get(o, p)} -> {get(o2, p)}"
    return None


def _res_agree(a, b):
    if a[0] == "ok" and b[0] == "ok":
        return a[1] == b[1]
    return a[0] == "raise" and b[0] == "raise"


def _violation(case, obs):
    if not obs["gen_ok"]:
        return "harness-bug", "the built instance does not canonicalise to the generated tree"
    if not obs["input_unchanged"]:
        return "input-mutated", "the object passed to replace() differs from its deep copy taken before the call"
    if obs["obs"][0] == "ok" and not obs["same_type"]:
        return "type-changed", "type(result) is not type(obj)"
    if case["abs"] is None:
        return None
    r = frame_reason(case["obj"], case["abs"], obs["obs"])
    if r:
        return r
    if obs["ref"] is not None and not _res_agree(obs["obs"], obs["ref"]):
        return "ref-differs", f"result differs from dataclasses.replace applied level by level: {obs['obs']} vs {obs['ref']}"
    return None


def py_spec(case, obs):
    v = _violation(case, obs)
    return None if v is None else f"{v[0]}: {v[1]}"[:600]


def _form(case):
    passed = case["cd"] if case["cd"] else case["kw"]
    return ("dict" if case["cd"] else ("kw" if case["kw"] else "none")) + ("+dotted" if has_dots(passed or []) else "")


def signature(case, obs, reason):
    v = _violation(case, obs)
    return f"{v[0] if v else 'coq-spec'}:{_form(case)}:{obs['obs'][0]}"


def nontrivial(case, obs):
    return bool(case["abs"]) or case["malformed"] is not None


def features(case, obs):
    o = case["obj"]
    A = assigns(dnode(case["abs"]), o) if case["abs"] is not None else []
    frozen = "n/a"
    return {"form": _form(case), "depth": depth_of(o), "n_addressed": min(len(A), 6),
            "max_path": max([len(q) for q, _v in A] + [0]),
            "outcome": obs["obs"][0] + (":" + obs["obs"][1] if obs["obs"][0] == "raise" else ""),
            "malformed": case["malformed"] or "no", "frozen_root": ("frozen=True" in case["src"].split("class C0:")[0].splitlines()[-1]),
            "changes_dict_mutated": not obs["changes_unchanged"], "result_is_new": obs["is_new"],
            "bad_target": any(not settable(o, q) for q, _v in A) if case["abs"] is not None else "n/a",
            "noninit_mutated": any(_noninit_mutated(o))}


def _noninit_mutated(node):
    if node["k"] == "dc":
        for _fn, init, v, d in node["fields"]:
            if not init:
                yield v != d
            else:
                yield from _noninit_mutated(v)


# --------------------------------------------------------------------------------------------------
# Coq emission


def cval(node):
    k = node["k"]
    if k == "leaf":
        return f"(VLeaf {cstr(node['ty'])} {cstr(node['repr'])})"
    if k == "dict":
        return f"(VDict {cdict(node['items'])})"
    fs = []
    for fn, init, v, d in node["fields"]:
        kind = "FInit" if init else f"(FNonInit {cstr(d['ty'])} {cstr(d['repr'])})"
        fs.append(f"({cstr(fn)}, {kind}, {cval(v)})")
    return f"(VDc {cstr(node['cls'])} {clist(fs)})"


def cdict(items):
    return clist([cpair(cstr(k), cval(v)) for k, v in items])


def _cres(o, f):
    return outcome(["ok", f(o[1])] if o[0] == "ok" else o)


def to_coq(case, obs):
    cd = "None" if case["cd"] is None else f"(Some {cdict(case['cd'])})"
    ab = "None" if case["abs"] is None else f"(Some {cdict(case['abs'])})"
    flat = "None" if obs["flat"] is None else f"(Some {cdict(obs['flat']['items'])})"
    ref = "None" if obs["ref"] is None else f"(Some {_cres(obs['ref'], cval)})"
    return (f"mkcase {cval(obs['before'])} {cd} {cdict(case['kw'])} {ab} {_cres(obs['obs'], cval)} "
            f"{cbool(obs['same_type'])} {cbool(obs['input_unchanged'])} "
            f"{_cres(obs['unflat'], lambda n: cdict(n['items']))} {flat} {ref}")


def shrink(case):
    if case["abs"] is None:
        for which in ("cd", "kw"):
            items = case[which] or []
            for i in range(len(items)):
                c2 = dict(case)
                c2[which] = items[:i] + items[i + 1:]
                yield c2
        return
    # drop one abstract top-level key together with everything that renders it
    for k, _c in case["abs"]:
        c2 = dict(case)
        c2["abs"] = [[kk, cc] for kk, cc in case["abs"] if kk != k]
        for which in ("cd", "kw"):
            if case[which] is not None:
                c2[which] = [[kk, cc] for kk, cc in case[which] if kk.split(".")[0] != k]
        yield c2
