"""C18 — replace(): exactly the requested nested changes, nothing else; three input forms; errors; input untouched."""
from __future__ import annotations

import random

from coqemit import cbool, clist, copt, cpair, cstr, outcome

ID = "C18"
FACTS = ["Replace"]
COQ_HEADER = "From SPV Require Import CorrDefs.CorrC18."
COQ_CASE_TYPE = "case"
RULE = ("a family of dataclasses is generated as source text (depth <= 4; frozen and plain; int/str/Optional[int]/List/dict-valued "
        "fields, init=False fields with a default, nested / Optional[...] / Union[...] dataclass members; field names re-used across "
        "levels) and an instance of it is built; an ABSTRACT change set (nested, dot-free) is drawn against that instance: new leaf "
        "values, dict values, whole-member swaps (other Union member, None, fresh instance), nested changes, the empty set, empty "
        "sub-dicts, and - with small probability - an init=False or unknown field at any level; it is RENDERED to what is passed: "
        "per sub-dict nested or dotted (one form per subtree), at top level as `changes_dict` or as keywords.  A malformed stream "
        "(both arguments, prefix conflicts in both orders, empty key components, dotted keys inside a dict value, a non-dataclass "
        "obj) is judged by the model only.  The real simple_parsing.replace is called; obj is deep-copied before and compared "
        "after.  Non-trivial = a non-empty or malformed change set; distinct by full case.  replace_subgroups stream: families "
        "of defaulted classes with subgroups() (class, functools.partial and frozen-instance tables), Optional / Union / nested "
        "members, members annotated with a CONTAINER of dataclasses (List[A], Tuple[A, ...], Optional[List[A]]) and now and then "
        "an init=False field; ABSTRACT selections (path -> key | type | instance | None), a member "
        "before the members below it, also child-only selections, unknown names, init=False / plain fields and unknown keys; "
        "rendered flat (dotted), nested (with __key__) or mixed; the static facts the model needs (per field: annotation "
        "holds a dataclass / is Optional, subgroup table, default_factory(); per class: cls()) are observed with the real helpers.")
TRUSTED = ["Model/Replace.v dc_replace = CPython 3.12 dataclasses.replace for classes without __post_init__/InitVar "
           "(tied on every case through the level-by-level reference run with the real dataclasses.replace)"]
ASSUMPTIONS = ["no generated field is called `obj` or `changes_dict` (replace(field_value, **field_changes) would bind them to its own parameters)",
               "no __post_init__, no InitVar; init=False fields have a leaf default",
               "init=False fields are derived state: the frame condition lets them hold either what they held or what the constructor assigns",
               "replace_subgroups: generated instances are well typed - a field annotated with a dataclass (or a Union of them) holds "
               "an instance, only Optional[...] fields hold None (selecting BELOW a member that is not there is the one input class "
               "excluded by C18_subgroups, see C18_subgroups_absent_member_refuted)"]

NAMES = ["a", "b", "c", "d", "x", "y", "lr", "name", "opt", "cfg", "w_1"]
MAXDEPTH = 4


# --------------------------------------------------------------------------------------------------
# nodes (JSON-able abstract values)


def leaf(v):
    return {"k": "leaf", "ty": type(v).__name__, "repr": repr(v)}


def dnode(items):
    return {"k": "dict", "items": [[k, v] for k, v in items]}


def rand_leaf(rng, kind=None):
    kind = kind or rng.choice(["int", "int", "str", "none", "list", "bool", "float"])
    if kind == "int":
        return leaf(rng.choice([0, 1, -3, 7, 42, 10 ** 12]))
    if kind == "str":
        return leaf(rng.choice(["", "bob", "a.b", "x y", "level1", "{}"]))
    if kind == "none":
        return leaf(None)
    if kind == "list":
        return leaf(rng.choice([[], [1, 2], [3], ["a", "b"]]))
    if kind == "bool":
        return leaf(rng.choice([True, False]))
    return leaf(rng.choice([0.5, 1e-3, -2.0]))


def rand_dictval(rng, depth=0, dots=False):
    n = rng.choice([1, 1, 2, 3])
    keys = rng.sample(["x", "y", "k", "a", "b", "z_1"], n)
    if dots and rng.random() < 0.25:
        # a mapping VALUE may have any keys, dotted ones included ({"git.sha": ..}): it is a leaf, never a change set
        # (seeded change C18-07 unflattens such values)
        keys[0] = rng.choice(["g.sha", "a.b", "x.y.z", "lr.", ".k"])
    items = []
    for k in keys:
        if depth < 2 and rng.random() < 0.3:
            items.append([k, rand_dictval(rng, depth + 1, dots)])
        else:
            items.append([k, rand_leaf(rng)])
    return dnode(items)


# --------------------------------------------------------------------------------------------------
# schema + instance


def gen_schema(rng):
    """classes: {name: {"frozen": bool, "fields": [[fname, kind, extra]]}}, root class C0, children defined after parents in
    the dict but emitted before them in the source."""
    classes = {}
    counter = [0]

    def mk(depth):
        name = f"C{counter[0]}"
        counter[0] += 1
        cls = {"frozen": rng.random() < 0.35, "fields": []}
        classes[name] = cls
        nf = rng.choice([1, 2, 2, 3, 3, 4])
        fnames = rng.sample(NAMES, nf)
        for fn in fnames:
            kinds = ["int", "int", "str", "optint", "list", "dictf", "noninit"]
            if depth < MAXDEPTH:
                kinds += ["dc", "dc", "dc", "optdc", "union"] if depth < 2 else ["dc", "optdc", "union"]
            kind = rng.choice(kinds)
            if depth < 3 and fn == fnames[0] and rng.random() < (0.85 if depth == 1 else 0.5):
                kind = rng.choice(["dc", "dc", "optdc", "union"])     # most families are really nested
            extra = None
            if kind in ("dc", "optdc"):
                extra = [mk(depth + 1)]
            elif kind == "union":
                extra = [mk(depth + 1), mk(depth + 1)]
            elif kind == "noninit":
                extra = rng.choice([3, 7, "dflt"])
            cls["fields"].append([fn, kind, extra])
        return name

    mk(1)
    return classes


ANN = {"int": "int", "str": "str", "optint": "Optional[int]", "list": "List[int]", "dictf": "Dict[str, Any]"}


def schema_source(classes):
    out = ["import dataclasses", "from dataclasses import dataclass, field", "from typing import Any, Dict, List, Optional, Union", ""]
    for name in sorted(classes, key=lambda n: -int(n[1:])):
        c = classes[name]
        out.append("@dataclass(frozen=True)" if c["frozen"] else "@dataclass")
        out.append(f"class {name}:")
        for fn, kind, extra in c["fields"]:
            if kind in ANN:
                out.append(f"    {fn}: {ANN[kind]}")
            elif kind == "noninit":
                out.append(f"    {fn}: {type(extra).__name__} = field(default={extra!r}, init=False)")
            elif kind == "dc":
                out.append(f"    {fn}: {extra[0]}")
            elif kind == "optdc":
                out.append(f"    {fn}: Optional[{extra[0]}]")
            else:
                out.append(f"    {fn}: Union[{extra[0]}, {extra[1]}]")
        out.append("")
    return "\n".join(out)


def gen_instance(rng, classes, name, mutate_noninit=False):
    c = classes[name]
    fields = []
    for fn, kind, extra in c["fields"]:
        if kind == "int":
            fields.append([fn, True, rand_leaf(rng, "int"), None])
        elif kind == "str":
            fields.append([fn, True, rand_leaf(rng, "str"), None])
        elif kind == "optint":
            fields.append([fn, True, rand_leaf(rng, rng.choice(["int", "none"])), None])
        elif kind == "list":
            fields.append([fn, True, rand_leaf(rng, "list"), None])
        elif kind == "dictf":
            fields.append([fn, True, rand_dictval(rng, dots=True) if rng.random() < 0.85 else dnode([]), None])
        elif kind == "noninit":
            d = leaf(extra)
            cur = d
            if mutate_noninit and not c["frozen"] and rng.random() < 0.5:
                cur = leaf(99)
            fields.append([fn, False, cur, d])
        elif kind == "dc":
            fields.append([fn, True, gen_instance(rng, classes, extra[0], mutate_noninit), None])
        elif kind == "optdc":
            fields.append([fn, True, gen_instance(rng, classes, extra[0], mutate_noninit) if rng.random() < 0.6 else leaf(None), None])
        else:
            fields.append([fn, True, gen_instance(rng, classes, rng.choice(extra), mutate_noninit), None])
    return {"k": "dc", "cls": name, "fields": fields}


# --------------------------------------------------------------------------------------------------
# abstract change sets and their renderings


def gen_changes(rng, classes, node, p_field, p_bad):
    """abstract change set (list of [key, node]) against the dataclass node."""
    c = classes[node["cls"]]
    kinds = {fn: (kind, extra) for fn, kind, extra in c["fields"]}
    items = []
    for fn, init, val, _d in node["fields"]:
        kind, extra = kinds[fn]
        if not init:
            if rng.random() < p_bad:
                items.append([fn, rand_leaf(rng, "int")])
            continue
        if rng.random() >= p_field:
            continue
        if val["k"] == "dc":
            r = rng.random()
            if r < 0.62:
                sub = gen_changes(rng, classes, val, min(0.9, p_field + 0.15), p_bad)
                if not sub and rng.random() < 0.7:
                    sub = gen_changes(rng, classes, val, 1.0, 0.0)
                items.append([fn, dnode(sub)])
            elif r < 0.85:
                pool = extra if kind in ("union", "dc", "optdc") else [val["cls"]]
                items.append([fn, gen_instance(rng, classes, rng.choice(pool))])
            elif r < 0.93:
                items.append([fn, leaf(None)])
            else:
                items.append([fn, rand_dictval(rng) if rng.random() < 0.5 else rand_leaf(rng)])
        elif kind in ("optdc", "dc", "union"):  # currently None
            r = rng.random()
            if r < 0.6:
                items.append([fn, gen_instance(rng, classes, rng.choice(extra))])
            elif r < 0.85:
                items.append([fn, rand_dictval(rng, dots=True)])   # a dict where no instance is: becomes the value (documented)
            else:
                items.append([fn, leaf(None)])
        elif kind == "dictf":
            r = rng.random()
            items.append([fn, rand_dictval(rng, dots=True) if r < 0.8 else (dnode([]) if r < 0.9 else rand_leaf(rng))])
        else:
            items.append([fn, val if rng.random() < 0.1 else rand_leaf(rng, None if rng.random() < 0.3 else
                                                                    {"optint": "int"}.get(kind, kind))])
    if rng.random() < p_bad:
        items.append([rng.choice(["zz", "nope", "a_b_c"] + [n for n in NAMES if n not in kinds][:2]), rand_leaf(rng)])
    rng.shuffle(items)
    return items


def render(rng, items, node, p_dot):
    """abstract items -> the items actually passed; each non-empty sub-dict is kept nested or inlined with dotted keys."""
    children = {fn: val for fn, init, val, _d in node["fields"] if init} if node is not None and node["k"] == "dc" else {}
    out = []
    for k, c in items:
        if c["k"] == "dict" and c["items"]:
            child = children.get(k)
            dotted = rng.random() < p_dot
            if not (child is not None and child["k"] == "dc") and has_dots(c["items"]):
                dotted = False        # a dict VALUE with dotted keys has no dotted rendering: it is passed literally
            if child is not None and child["k"] == "dc":
                sub = render(rng, c["items"], child, p_dot)
            elif dotted:
                sub = render_value_dict(rng, c["items"], p_dot)
            else:
                sub = c["items"]      # a dict VALUE that is kept nested is passed literally
            if dotted:
                out += [[k + "." + k2, c2] for k2, c2 in sub]
            else:
                out.append([k, dnode(sub)])
        else:
            out.append([k, c])
    return out


def render_value_dict(rng, items, p_dot):
    """a dict that becomes a VALUE: it may be inlined from the top (keys joined), never dotted underneath a kept dict."""
    out = []
    for k, c in items:
        if c["k"] == "dict" and c["items"] and rng.random() < p_dot and not has_dots(c["items"]):
            out += [[k + "." + k2, c2] for k2, c2 in render_value_dict(rng, c["items"], p_dot)]
        else:
            out.append([k, c])
    return out


def has_dots(items):
    return any("." in k or (c["k"] == "dict" and has_dots(c["items"])) for k, c in items)


def depth_of(node):
    if node["k"] != "dc":
        return 0
    return 1 + max([depth_of(v) for _n, _i, v, _d in node["fields"]] + [0])


def count_dc(node):
    if node["k"] != "dc":
        return 0
    return 1 + sum(count_dc(v) for _n, _i, v, _d in node["fields"])


def malformed(rng, classes, obj, abs_items, passed):
    """variants outside the abstract grammar; returns (kind, obj, cd, kw)."""
    kinds = ["both", "conflict_dict_first", "conflict_dotted_first", "conflict_leaf_first", "conflict_leaf_last",
             "empty_component", "dotted_in_value", "nondc_obj", "emptycd_kw", "nondc_conflict"]
    kind = rng.choice(kinds)
    nested_keys = [(i, k, c) for i, (k, c) in enumerate(abs_items) if c["k"] == "dict" and len(c["items"]) >= 1]
    if kind == "both":
        kw = [[k, c] for k, c in passed[:1]] or [["a", leaf(1)]]
        return kind, obj, passed or [["b", leaf(2)]], kw
    if kind == "emptycd_kw":
        return kind, obj, [], passed
    if kind == "nondc_obj":
        return kind, rng.choice([leaf(5), leaf(None), rand_dictval(rng)]), passed, None
    if kind == "nondc_conflict":
        return kind, leaf("s"), [["a", leaf(1)], ["a.b", leaf(2)]], None
    if kind.startswith("conflict") and nested_keys:
        i, k, c = rng.choice(nested_keys)
        k2, c2 = c["items"][0]
        rest = dnode(c["items"][1:]) if kind in ("conflict_dict_first", "conflict_dotted_first") else leaf(5)
        a, b = [k, rest], [k + "." + k2, c2]
        pair = [a, b] if kind in ("conflict_dict_first", "conflict_leaf_first") else [b, a]
        others = [[kk, cc] for j, (kk, cc) in enumerate(abs_items) if j != i]
        pos = rng.randrange(len(others) + 1)
        return kind, obj, others[:pos] + pair + others[pos:], None
    if kind == "dotted_in_value":
        flds = [fn for fn, init, v, _d in obj["fields"] if init and v["k"] != "dc"]
        if flds:
            return kind, obj, [[rng.choice(flds), dnode([["p.q", leaf(1)], ["r", dnode([["s.t", leaf(2)]])]])]], None
    # empty components
    fn = rng.choice([f[0] for f in obj["fields"]])
    key = rng.choice([fn + "..x", "." + fn, fn + ".", "", ".", fn + "..", ".."])
    return "empty_component", obj, [[key, rand_leaf(rng)]] + [[k, c] for k, c in passed if k != key][:2], None


# --------------------------------------------------------------------------------------------------
# replace_subgroups stream: families with subgroup / Optional / Union / nested members, all fields defaulted


def gen_sub_schema(rng):
    """{"leaves": {name: [[fname, pyrepr]]}, "frozen": {...}, "conts": {name: [[fname, kind, extra]]}} ; root is the last container."""
    leaves = {}
    for i in range(rng.choice([2, 3])):
        fs = [[rng.choice(["x", "lr", "w"]), rng.choice([0, 1, 5])]]
        if rng.random() < 0.5:
            fs.append([rng.choice(["s", "name"]), rng.choice(["a", "bob"])])
        leaves[f"L{i}"] = fs
    frozen = {"Z0": [["a", 1], ["b", "bob"]]}
    conts = {}
    n_cont = rng.choice([1, 2, 2, 3])
    for i in range(n_cont):
        name = f"M{i}"
        fields = []
        nf = rng.choice([2, 3, 4, 5]) if i == n_cont - 1 else rng.choice([1, 2, 3])
        used = set()
        for _ in range(nf):
            fn = rng.choice([n for n in ["sub", "ab", "fz", "opt", "un", "nest", "k", "z", "model", "d_2"] if n not in used])
            used.add(fn)
            kinds = ["subg", "subg", "subgf", "opt", "union", "int", "listdc"]
            if i > 0:
                kinds += ["nest", "nest", "nest"]
            if rng.random() < 0.07:
                kinds = ["noninit"]      # a class with an init=False field: fine unless THAT field is selected
            kind = rng.choice(kinds)
            ls = sorted(leaves)
            if kind == "subg":
                a, b = rng.sample(ls, 2)
                if i > 0 and rng.random() < 0.3:
                    a = f"M{rng.randrange(i)}"          # a container as a subgroup member
                table = [[a.lower(), "cls", a], [b.lower(), "cls", b]]
                if a in leaves and rng.random() < 0.4:
                    table.append([a.lower() + "p", "partial", a])
                dflt = rng.choice(["factory", "key"])
                fields.append([fn, kind, {"table": table, "default": dflt}])
            elif kind == "subgf":
                fields.append([fn, kind, None])
            elif kind == "opt":
                fields.append([fn, kind, rng.choice(ls)])
            elif kind == "union":
                fields.append([fn, kind, rng.sample(ls, 2)])
            elif kind == "nest":
                fields.append([fn, kind, f"M{rng.randrange(i)}"])
            elif kind == "int":
                fields.append([fn, kind, rng.choice([3, 5])])
            elif kind == "listdc":   # a CONTAINER of dataclasses: replace_subgroups accepts a selection for it as well
                fields.append([fn, kind, {"cls": rng.choice(ls), "form": rng.choice(["list", "tuple", "optlist"])}])
            else:
                fields.append([fn, kind, 3])
        conts[name] = fields
    return {"leaves": leaves, "frozen": frozen, "conts": conts}


def sub_source(sc):
    out = ["import dataclasses, functools", "from dataclasses import dataclass, field", "from typing import List, Optional, Tuple, Union",
           "from simple_parsing import subgroups", ""]
    for name, fs in sc["leaves"].items():
        out += ["@dataclass", f"class {name}:"] + [f"    {fn}: {type(v).__name__} = {v!r}" for fn, v in fs] + [""]
    for name, fs in sc["frozen"].items():
        out += ["@dataclass(frozen=True)", f"class {name}:"] + [f"    {fn}: {type(v).__name__} = {v!r}" for fn, v in fs] + [""]
    out += ["z_odd = Z0(1, 'odd')", "z_even = Z0(2, 'even')", ""]
    for name, fs in sc["conts"].items():
        out += ["@dataclass", f"class {name}:"]
        for fn, kind, extra in fs:
            if kind == "subg":
                ents = []
                for key, how, cls in extra["table"]:
                    ents.append(f"{key!r}: {cls}" if how == "cls" else f"{key!r}: functools.partial({cls}, {_first_field(sc, cls)}=7)")
                members = sorted({cls for _k, _h, cls in extra["table"]})
                d = f"default_factory={extra['table'][0][2]}" if extra["default"] == "factory" else f"default={extra['table'][1][0]!r}"
                out.append(f"    {fn}: Union[{', '.join(members)}] = subgroups({{{', '.join(ents)}}}, {d})")
            elif kind == "subgf":
                out.append(f"    {fn}: Z0 = subgroups({{'odd': z_odd, 'even': z_even}}, default=z_odd)")
            elif kind == "opt":
                out.append(f"    {fn}: Optional[{extra}] = None")
            elif kind == "union":
                out.append(f"    {fn}: Union[{extra[0]}, {extra[1]}] = field(default_factory={extra[0]})")
            elif kind == "nest":
                out.append(f"    {fn}: {extra} = field(default_factory={extra})")
            elif kind == "int":
                out.append(f"    {fn}: int = {extra}")
            elif kind == "listdc":
                out.append({"list": f"    {fn}: List[{extra['cls']}] = field(default_factory=list)",
                            "tuple": f"    {fn}: Tuple[{extra['cls']}, ...] = ()",
                            "optlist": f"    {fn}: Optional[List[{extra['cls']}]] = None"}[extra["form"]])
            else:
                out.append(f"    {fn}: int = field(default={extra}, init=False)")
        out.append("")
    return "\n".join(out)


def _first_field(sc, cls):
    return sc["leaves"][cls][0][0]


def sub_anns(sc):
    """the annotation written for every (class, field) of the family, in the grammar of Model/Replace.v `ann`."""
    out = []
    for name, fs in list(sc["leaves"].items()) + list(sc["frozen"].items()):
        out += [[name, fn, "other"] for fn, _v in fs]
    for name, fs in sc["conts"].items():
        for fn, kind, extra in fs:
            if kind == "subg":
                members = sorted({c for _k, _h, c in extra["table"]})
                a = "dc" if len(members) == 1 else ["union", ["dc"] * len(members)]
            elif kind in ("subgf", "nest"):
                a = "dc"
            elif kind == "opt":
                a = ["union", ["dc", "none"]]
            elif kind == "union":
                a = ["union", ["dc", "dc"]]
            elif kind == "listdc":
                a = ["union", ["listdc", "none"]] if extra["form"] == "optlist" else "listdc"
            else:
                a = "other"
            out.append([name, fn, a])
    return out


def sub_members(sc, kind, extra):
    """classes a field of that kind may hold."""
    if kind == "subg":
        return sorted({c for _k, _h, c in extra["table"]})
    if kind == "subgf":
        return ["Z0"]
    if kind == "opt":
        return [extra]
    if kind == "union":
        return list(extra)
    if kind == "nest":
        return [extra]
    return []


def sub_instance(rng, sc, cls, p_default=0.5):
    """an instance node of class cls; leaves take non-default values with probability 1-p_default."""
    if cls in sc["leaves"] or cls in sc["frozen"]:
        fs = (sc["leaves"].get(cls) or sc["frozen"].get(cls))
        out = []
        for fn, v in fs:
            nv = v if rng.random() < p_default else (v + rng.choice([10, 20]) if isinstance(v, int) else v + rng.choice(["!", "2"]))
            out.append([fn, True, leaf(nv), None])
        return {"k": "dc", "cls": cls, "fields": out}
    out = []
    for fn, kind, extra in sc["conts"][cls]:
        if kind == "int":
            out.append([fn, True, leaf(extra if rng.random() < p_default else extra + 10), None])
        elif kind == "noninit":
            out.append([fn, False, leaf(extra), leaf(extra)])
        elif kind == "listdc":
            out.append([fn, True, leaf({"list": [], "tuple": (), "optlist": rng.choice([None, []])}[extra["form"]]), None])
        elif kind == "opt":
            out.append([fn, True, leaf(None) if rng.random() < 0.4 else sub_instance(rng, sc, extra, p_default), None])
        else:
            out.append([fn, True, sub_instance(rng, sc, rng.choice(sub_members(sc, kind, extra)), p_default), None])
    return {"k": "dc", "cls": cls, "fields": out}


def sub_pick(rng, sc, kind, extra, p_bad):
    """-> (choice, class of the resulting member or None)"""
    members = sub_members(sc, kind, extra)
    r = rng.random()
    if r < p_bad:
        return rng.choice([{"c": "key", "k": "nokey"}, {"c": "other", "py": "3"}, {"c": "other", "py": "int"}]), None
    if kind == "subg":
        if r < 0.75:
            key, _how, cls = rng.choice(extra["table"])
            return {"c": "key", "k": key}, cls
        if r < 0.88:
            cls = rng.choice(sorted(sc["leaves"]))
            return {"c": "type", "cls": cls}, cls
        if r < 0.96:
            cls = rng.choice(members)
            return {"c": "inst", "node": sub_instance(rng, sc, cls, 0.3)}, cls
        return {"c": "none"}, None
    if kind == "listdc":
        if r < 0.3:
            return {"c": "none"}, None
        cls = extra["cls"] if rng.random() < 0.8 else rng.choice(sorted(sc["leaves"]))
        if r < 0.7:
            return {"c": "type", "cls": cls}, None
        return {"c": "inst", "node": sub_instance(rng, sc, cls, 0.3)}, None
    if kind == "subgf":
        if r < 0.85:
            return {"c": "key", "k": rng.choice(["odd", "even"])}, "Z0"
        return {"c": "type", "cls": "Z0"}, "Z0"
    if r < 0.25:
        return {"c": "none"}, (None if kind == "opt" else members[0])
    cls = rng.choice(members if rng.random() < 0.85 else sorted(sc["leaves"]))
    if r < 0.7:
        return {"c": "type", "cls": cls}, cls
    return {"c": "inst", "node": sub_instance(rng, sc, cls, 0.3)}, cls


def sub_selections(rng, sc, cls, cur, prefix, p_sel, p_bad, p_childonly, depth=0):
    """abstract selections (shallowest first) below a member of class `cls`; `cur` = its current instance node or None when the
    member has just been replaced by a default instance."""
    out = []
    if cls not in sc["conts"]:
        if rng.random() < p_bad:
            out.append([prefix + [rng.choice(["zz", "x"])], {"c": "key", "k": "a"}])
        return out
    curf = {fn: v for fn, _i, v, _d in cur["fields"]} if cur is not None else {}
    for fn, kind, extra in sc["conts"][cls]:
        if kind in ("int", "noninit"):
            if rng.random() < p_bad:
                out.append([prefix + [fn], {"c": "key", "k": "a"}])
            continue
        r = rng.random()
        if r < p_sel:
            ch, mcls = sub_pick(rng, sc, kind, extra, p_bad)
            out.append([prefix + [fn], ch])
            if mcls is not None and depth < 3 and rng.random() < 0.6:
                out += sub_selections(rng, sc, mcls, None, prefix + [fn], p_sel + 0.2, p_bad, 0.0, depth + 1)
        elif r < p_sel + p_childonly and curf.get(fn, {}).get("k") == "dc" and depth < 3:
            out += sub_selections(rng, sc, curf[fn]["cls"], curf[fn], prefix + [fn], 0.7, p_bad, p_childonly, depth + 1)
    if rng.random() < p_bad:
        out.append([prefix + [rng.choice(["zz", "nope"])], {"c": "key", "k": "a"}])
    return out


def choice_sel(ch):
    return {"key": lambda: {"s": "key", "k": ch["k"]}, "type": lambda: {"s": "type", "cls": ch["cls"]},
            "inst": lambda: {"s": "inst", "node": ch["node"]}, "none": lambda: {"s": "none"},
            "other": lambda: {"s": "other", "py": ch.get("py", "3")}}[ch["c"]]()


def render_sel(rng, sels, p_flat):
    """abstract [(path, choice)] -> the selections dict items actually passed (flat dotted keys / nested dicts with __key__)."""
    tops = []
    for p, _c in sels:
        if p[0] not in tops:
            tops.append(p[0])
    items = []
    for t in tops:
        own = [c for p, c in sels if p == [t]]
        deeper = [[p[1:], c] for p, c in sels if p[0] == t and len(p) > 1]
        if not deeper:
            items.append([t, choice_sel(own[0])])
        elif rng.random() < p_flat:
            sub = render_sel(rng, deeper, p_flat)
            part = [[t + "." + k, v] for k, v in sub]
            if own:
                part.insert(rng.randrange(len(part) + 1), [t, choice_sel(own[0])])
            items += part
        else:
            sub = render_sel(rng, deeper, p_flat)
            if own:
                sub.insert(rng.randrange(len(sub) + 1), ["__key__", choice_sel(own[0])])
            items.append([t, {"s": "dict", "items": sub}])
    return items


def gen_sub(rng, n_schema, per):
    cases = []
    for _ in range(n_schema):
        sc = gen_sub_schema(rng)
        src = sub_source(sc)
        anns = sub_anns(sc)
        root = sorted(sc["conts"])[-1]
        for j in range(per):
            obj = sub_instance(rng, sc, root, rng.choice([0.2, 0.5, 1.0]))
            p_bad = 0.0 if rng.random() < 0.75 else 0.15
            if j == 0:
                sels = []
            else:
                sels = sub_selections(rng, sc, root, obj, [], rng.choice([0.3, 0.6]), p_bad, rng.choice([0.0, 0.0, 0.3]))
                for _retry in range(3):
                    if sels:
                        break
                    sels = sub_selections(rng, sc, root, obj, [], 0.8, p_bad, 0.2)
            passed = render_sel(rng, sels, rng.choice([0.0, 0.5, 1.0]))
            sel = passed if (sels or rng.random() < 0.5) else None
            cases.append(dict(kind="sub", src=src, obj=obj, sel=sel, abs=sels, malformed=None, anns=anns))
    return cases


def _corpus():
    import glob
    import json
    import os

    d = os.path.join(os.path.dirname(os.path.dirname(os.path.dirname(os.path.abspath(__file__)))), "corpus", "C18")
    out = []
    for f in sorted(glob.glob(os.path.join(d, "*.json"))):
        c = json.load(open(f))
        out.append(c["case"] if "case" in c else c)
    return out


def gen(tier, seed):
    rng = random.Random(f"C18-{seed}")
    n_schema = 150 if tier == "quick" else 1800
    per = 20
    cases = []
    for _ in range(n_schema):
        while True:
            classes = gen_schema(rng)
            if len(classes) <= 14:
                break
        src = schema_source(classes)
        for j in range(per):
            obj = gen_instance(rng, classes, "C0", mutate_noninit=rng.random() < 0.15)
            r = rng.random()
            p_field = rng.choice([0.25, 0.5, 0.8])
            p_bad = 0.0 if r < 0.7 else rng.choice([0.1, 0.3])
            if j == 0:
                abs_items = []
            else:
                abs_items = gen_changes(rng, classes, obj, p_field, p_bad)
                for _retry in range(3):
                    if abs_items:
                        break
                    abs_items = gen_changes(rng, classes, obj, 0.8, p_bad)
            passed = render(rng, abs_items, obj, rng.choice([0.0, 0.5, 0.5, 1.0]))
            if j >= 2 and rng.random() < 0.14:
                kind, o2, cd, kw = malformed(rng, classes, obj, abs_items, passed)
                cases.append(dict(src=src, obj=o2, cd=cd, kw=kw if kw is not None else [], abs=None, malformed=kind))
                continue
            form = rng.choice(["dict", "kw", "kw"]) if abs_items else rng.choice(["dict", "kw", "none"])
            if form == "dict":
                cd, kw = passed, []
            elif form == "kw":
                cd, kw = None, passed
            else:
                cd, kw = None, []
            cases.append(dict(src=src, obj=obj, cd=cd, kw=kw, abs=abs_items, malformed=None))
    for c in cases:
        c["kind"] = "rep"
    cases += gen_sub(rng, 60 if tier == "quick" else 700, 12)
    return _corpus() + cases


# --------------------------------------------------------------------------------------------------
# implementation side

_NS_CACHE = {}


def _namespace(src):
    ns = _NS_CACHE.get(src)
    if ns is None:
        if len(_NS_CACHE) > 64:
            _NS_CACHE.clear()
        ns = {}
        exec(compile(src, "<c18>", "exec", dont_inherit=True), ns)
        _NS_CACHE[src] = ns
    return ns


def build(node, ns):
    import ast as _ast

    k = node["k"]
    if k == "leaf":
        return _ast.literal_eval(node["repr"])
    if k == "dict":
        return {key: build(v, ns) for key, v in node["items"]}
    cls = ns[node["cls"]]
    inst = cls(**{fn: build(v, ns) for fn, init, v, _d in node["fields"] if init})
    for fn, init, v, d in node["fields"]:
        if not init and v != d:
            object.__setattr__(inst, fn, build(v, ns))
    return inst


def canon_node(v):
    import dataclasses

    if dataclasses.is_dataclass(v) and not isinstance(v, type):
        fs = []
        for f in dataclasses.fields(v):
            d = None
            if not f.init:
                d = {"k": "leaf", "ty": type(f.default).__name__, "repr": repr(f.default)}
            fs.append([f.name, bool(f.init), canon_node(getattr(v, f.name)), d])
        return {"k": "dc", "cls": type(v).__name__, "fields": fs}
    if type(v) is dict and all(isinstance(k, str) for k in v):
        return {"k": "dict", "items": [[k, canon_node(x)] for k, x in v.items()]}
    return {"k": "leaf", "ty": type(v).__name__, "repr": repr(v)}


def _levelwise(obj, items, ns):
    """the reference of the property: dataclasses.replace applied level by level along the abstract change set."""
    import dataclasses

    if not (dataclasses.is_dataclass(obj) and not isinstance(obj, type)):
        raise TypeError("not a dataclass instance")
    init = {f.name for f in dataclasses.fields(obj) if f.init}
    kw = {}
    for k, c in items:
        child = getattr(obj, k) if k in init else None
        if c["k"] == "dict" and dataclasses.is_dataclass(child) and not isinstance(child, type):
            kw[k] = _levelwise(child, c["items"], ns)
        else:
            kw[k] = build(c, ns)
    return dataclasses.replace(obj, **kw)


def _oc(r):
    if r[0] == "ok":
        return ["ok", canon_node(r[1])]
    if r[0] == "raise":
        return ["raise", r[1]]
    return r[:2]


def _setup_failed(case, e):
    err = ["raise", "HarnessSetup:" + type(e).__name__]
    return dict(obs=err, msg=str(e)[:300], same_type=False, is_new=False, py_equal=False, input_unchanged=True,
                changes_unchanged=True, before=case["obj"], gen_ok=True, unflat=(err if case.get("kind") != "sub" else []),
                flat=None, ref=None, tables={"meta": [], "classes": []}, setup_failed=True)


def run_impl(cases):
    import copy

    from implutil import outcome_of
    import simple_parsing
    from simple_parsing.utils import flatten_join, unflatten_split

    out = []
    for case in cases:
        if case.get("kind") == "sub":
            try:
                out.append(run_sub(case))
            except Exception as e:  # noqa: BLE001  (class definitions / instance construction failed)
                out.append(_setup_failed(case, e))
            continue
        try:
            _namespace(case["src"])
            build(case["obj"], _namespace(case["src"]))
        except Exception as e:  # noqa: BLE001
            out.append(_setup_failed(case, e))
            continue
        ns = _namespace(case["src"])
        obj = build(case["obj"], ns)
        before = copy.deepcopy(obj)
        before_node = canon_node(before)
        gen_ok = before_node == case["obj"]
        cd = None if case["cd"] is None else {k: build(v, ns) for k, v in case["cd"]}
        kw = {k: build(v, ns) for k, v in case["kw"]}
        cd_before = copy.deepcopy(cd)
        if cd is None:
            r = outcome_of(lambda: simple_parsing.replace(obj, **kw))
        else:
            r = outcome_of(lambda: simple_parsing.replace(obj, cd, **kw))
        same_type = r[0] == "ok" and type(r[1]) is type(obj)
        is_new = r[0] == "ok" and r[1] is not obj
        py_equal = bool(r[0] == "ok" and r[1] == obj)
        after_node = canon_node(obj)
        unchanged = after_node == before_node and canon_node(before) == before_node
        try:
            unchanged = unchanged and bool(obj == before)
        except Exception:  # noqa: BLE001
            unchanged = False
        changes_unchanged = canon_node(cd) == canon_node(cd_before) if cd is not None else True
        eff = ({k: build(v, ns) for k, v in case["cd"]} if case["cd"] else None) or {k: build(v, ns) for k, v in case["kw"]}
        unflat = _oc(outcome_of(lambda: unflatten_split(eff)))
        flat = ref = None
        if case["abs"] is not None:
            absd = {k: build(v, ns) for k, v in case["abs"]}
            flat = canon_node(flatten_join(absd))
            obj2 = build(case["obj"], ns)
            ref = _oc(outcome_of(lambda: _levelwise(obj2, case["abs"], ns)))
        out.append(dict(obs=_oc(r), msg=(r[2] if r[0] == "raise" else ""), same_type=same_type, is_new=is_new, py_equal=py_equal,
                        input_unchanged=unchanged, changes_unchanged=changes_unchanged, before=before_node, gen_ok=gen_ok,
                        unflat=unflat, flat=flat, ref=ref))
    return out



def build_sel(snode, ns):
    k = snode["s"]
    if k == "key":
        return snode["k"]
    if k == "type":
        return ns[snode["cls"]]
    if k == "inst":
        return build(snode["node"], ns)
    if k == "none":
        return None
    if k == "other":
        return int if snode.get("py") == "int" else 3
    return {key: build_sel(v, ns) for key, v in snode["items"]}


def canon_sel(v):
    import dataclasses
    import inspect

    if isinstance(v, str):
        return {"s": "key", "k": v}
    if v is None:
        return {"s": "none"}
    if inspect.isclass(v) and dataclasses.is_dataclass(v):
        return {"s": "type", "cls": v.__name__}
    if dataclasses.is_dataclass(v):
        return {"s": "inst", "node": canon_node(v)}
    if type(v) is dict:
        return {"s": "dict", "items": [[k, canon_sel(x)] for k, x in v.items()]}
    return {"s": "other"}


_TABLE_CACHE = {}


def observe_tables(src, ns):
    """static facts the model of replace_subgroups takes as inputs, read off the real classes with the real helpers."""
    import dataclasses

    from simple_parsing.annotation_utils.get_field_annotations import get_field_type_from_annotations
    from simple_parsing.utils import contains_dataclass_type_arg, is_dataclass_instance, is_optional

    if src in _TABLE_CACHE:
        return _TABLE_CACHE[src]
    meta, classes = [], []
    for name, cls in ns.items():
        if not (isinstance(cls, type) and dataclasses.is_dataclass(cls)):
            continue
        try:
            classes.append([name, canon_node(cls())])
        except Exception:  # noqa: BLE001
            pass
        for f in dataclasses.fields(cls):
            ann = get_field_type_from_annotations(cls, f.name)
            table = []
            for k, v in (f.metadata.get("subgroups") or {}).items():
                table.append([k, canon_node(v if is_dataclass_instance(v) else v())])
            factory = None
            if f.default_factory is not dataclasses.MISSING:
                factory = canon_node(f.default_factory())
            meta.append([name, f.name, bool(contains_dataclass_type_arg(ann)), bool(is_optional(ann)), table, factory])
    if len(_TABLE_CACHE) > 64:
        _TABLE_CACHE.clear()
    _TABLE_CACHE[src] = {"meta": meta, "classes": classes}
    return _TABLE_CACHE[src]


def run_sub(case):
    import copy

    from implutil import outcome_of
    import simple_parsing
    from simple_parsing.replace import _unflatten_selection_dict

    ns = _namespace(case["src"])
    tables = observe_tables(case["src"], ns)
    obj = build(case["obj"], ns)
    before = copy.deepcopy(obj)
    before_node = canon_node(before)
    mk = (lambda: None) if case["sel"] is None else (lambda: {k: build_sel(v, ns) for k, v in case["sel"]})
    sel = mk()
    r = outcome_of(lambda: simple_parsing.replace_subgroups(obj, sel))
    after_node = canon_node(obj)
    unchanged = after_node == before_node
    try:
        unchanged = unchanged and bool(obj == before)
    except Exception:  # noqa: BLE001
        unchanged = False
    sel_unchanged = canon_sel(sel) == canon_sel(mk()) if sel is not None else True
    unflat = canon_sel(_unflatten_selection_dict(mk(), "__key__", recursive=False))["items"] if case["sel"] is not None else []
    return dict(obs=_oc(r), msg=(r[2] if r[0] == "raise" else ""), same_type=r[0] == "ok" and type(r[1]) is type(obj),
                is_new=r[0] == "ok" and r[1] is not obj, input_unchanged=unchanged, changes_unchanged=sel_unchanged,
                before=before_node, gen_ok=before_node == case["obj"], unflat=unflat, tables=tables)


# --------------------------------------------------------------------------------------------------
# spec (Python mirror of Model/ReplaceSpec.v frame_check and CorrC18.spec_ok)


def _child(node, k):
    if node is None or node["k"] != "dc":
        return None
    for fn, init, v, _d in node["fields"]:
        if fn == k:
            return v if init else None
    return None


def assigns(c, o):
    if c["k"] == "dict" and o is not None and o["k"] == "dc":
        out = []
        for k, x in c["items"]:
            out += [([k] + q, v) for q, v in assigns(x, _child(o, k))]
        return out
    return [([], c)]


def settable(o, q):
    if not q or o is None or o["k"] != "dc":
        return False
    x = _child(o, q[0])
    if x is None:
        return False
    return True if len(q) == 1 else settable(x, q[1:])


def get(v, p):
    for k in p:
        v = _child(v, k)
        if v is None:
            return None
    return v


def all_paths(v):
    if v["k"] != "dc":
        return [[]]
    out = [[]]
    for fn, init, x, _d in v["fields"]:
        if init:
            out += [[fn] + p for p in all_paths(x)]
    return out


def node_same(a, b):
    if a is None or b is None:
        return a is None and b is None
    if a["k"] == "dc" or b["k"] == "dc":
        if a["k"] != b["k"] or a["cls"] != b["cls"] or len(a["fields"]) != len(b["fields"]):
            return False
        for (n1, i1, v1, d1), (n2, i2, v2, d2) in zip(a["fields"], b["fields"]):
            if n1 != n2 or i1 != i2 or d1 != d2:
                return False
            if not i1 and not (v2 == v1 or v2 == d1):
                return False
        return True
    return a == b


def frame_reason(o, abs_items, obs):
    A = assigns(dnode(abs_items), o)
    bad = [q for q, _v in A if not settable(o, q)]
    if bad:
        if obs[0] != "raise":
            return "not-raised", f"change to {'.'.join(bad[0]) or '<root>'} (init=False / unknown field) did not raise: {obs[0]}"
        return None
    if obs[0] != "ok":
        return "raised", f"a valid change set raised {obs[1]}"
    o2 = obs[1]
    for q, v in A:
        if get(o2, q) != v:
            return "addressed-wrong", f"addressed leaf {'.'.join(q)} is {get(o2, q)} instead of {v}"
    for p in all_paths(o) + all_paths(o2):
        if all(p[:len(q)] != q for q, _v in A) and not node_same(get(o, p), get(o2, p)):
            return "other-changed", f"unaddressed node {'.'.join(p) or '<root>'} changed: {get(o, p)} -> {get(o2, p)}"
    return None



# ---- replace_subgroups: Python mirror of expected_sub / sub_check ----


def _set_path(o, p, m):
    if not p:
        return m
    if o is None or o["k"] != "dc":
        return None
    out = []
    hit = False
    for fn, init, v, d in o["fields"]:
        if fn == p[0] and not hit:
            hit = True
            if not init:
                return None
            nv = _set_path(v, p[1:], m)
            if nv is None:
                return None
            out.append([fn, init, nv, d])
        else:
            out.append([fn, init, v, d])
    return {"k": "dc", "cls": o["cls"], "fields": out} if hit else None


def _member_of(tables, cls, name, ch):
    for c, n, has_dc, optional, table, factory in tables["meta"]:
        if c == cls and n == name:
            if not has_dc:
                return None
            if ch["c"] == "key":
                return dict((k, v) for k, v in table).get(ch["k"])
            if ch["c"] == "type":
                return dict((k, v) for k, v in tables["classes"]).get(ch["cls"])
            if ch["c"] == "inst":
                return ch["node"]
            if ch["c"] == "none":
                if table:
                    return None
                return leaf(None) if optional else factory
            return None
    return None


def expected_sub(tables, sels, o):
    for p, ch in sels:
        parent = get(o, p[:-1])
        if parent is None or parent["k"] != "dc" or _child(parent, p[-1]) is None:
            return None
        m = _member_of(tables, parent["cls"], p[-1], ch)
        if m is None:
            return None
        o = _set_path(o, p, m)
        if o is None:
            return None
    return o


def _diff_paths(a, b, pre=()):
    if a == b:
        return []
    if a is None or b is None or a["k"] != "dc" or b["k"] != "dc" or a["cls"] != b["cls"] \
            or [f[0] for f in a["fields"]] != [f[0] for f in b["fields"]]:
        return [list(pre)]
    out = []
    for fa, fb in zip(a["fields"], b["fields"]):
        out += _diff_paths(fa[2], fb[2], pre + (fa[0],))
    return out


def _has_noninit(tables_or_node, node):
    return any(not init or _has_noninit(None, v) for _fn, init, v, _d in node["fields"]) if node["k"] == "dc" else False


def _ann_holds_dc(a):
    return any(_ann_holds_dc(x) for x in a[1]) if isinstance(a, list) else a in ("dc", "listdc")


def _ann_optional(a):
    return isinstance(a, list) and "none" in a[1]


def spec_tables(tables, anns):
    """the spec reads has-a-dataclass / is-Optional off the annotation that was written, not off the helpers' answers."""
    by = {(c, f): a for c, f, a in (anns or [])}
    meta = []
    for c, n, has_dc, optional, table, factory in tables["meta"]:
        if (c, n) in by:
            has_dc, optional = _ann_holds_dc(by[(c, n)]), _ann_optional(by[(c, n)])
        meta.append([c, n, has_dc, optional, table, factory])
    return {"meta": meta, "classes": tables["classes"]}


def _sub_violation(case, obs):
    if not obs["gen_ok"]:
        return "harness-bug", "the built instance does not canonicalise to the generated tree"
    if not obs["input_unchanged"]:
        return "sub-input-mutated", "the object passed to replace_subgroups() differs from its deep copy taken before the call"
    if case["abs"] is None:
        return None
    sels = case["abs"]
    selected = [p for p, _c in sels]
    childonly = [p for p in selected if len(p) > 1 and p[:-1] not in selected]
    stables = spec_tables(obs["tables"], case.get("anns"))
    exp = expected_sub(stables, sels, case["obj"])
    o = obs["obs"]
    if exp is None:
        if o[0] != "raise":
            return "sub-not-raised:" + _why_invalid(stables, sels, case["obj"]), \
                f"a selection that names no member was not rejected ({o[0]})"
        return None
    if o[0] != "ok":
        why = "other"
        if o[1] == "ValueError" and "non-init" in obs["msg"]:
            why = "noninit-field-in-class"
        elif o[1] == "AssertionError" and childonly:
            why = "child-only-selection-on-subgroup-field"
        return f"sub-raised:{o[1]}:{why}", f"valid selections {selected} raised {o[1]}: {obs['msg'][:120]}"
    if o[1] != exp:
        diffs = _diff_paths(exp, o[1])
        outside = [d for d in diffs if not any(d[:len(p)] == p for p in selected)]
        if outside:
            # the listed defect: a selection that addresses a member below an ancestor that is itself not selected makes
            # replace_subgroups() rebuild that ancestor from its default factory (value_of_selection is None), at ANY depth;
            # it is the listed finding only when EVERY unexpected difference lies under such a rebuilt ancestor
            rebuilt = [p[:j] for p in childonly for j in range(1, len(p)) if p[:j] not in selected]
            why = ("child-only-selection-resets-member"
                   if all(any(d[:len(a)] == a for a in rebuilt) for d in outside) else "other")
            return f"sub-other-changed:{why}", f"unselected {'.'.join(outside[0])} changed: expected {get(exp, outside[0])}, observed {get(o[1], outside[0])}"
        return "sub-member-wrong", f"selected member at {'.'.join(diffs[0])}: expected {get(exp, diffs[0])}, observed {get(o[1], diffs[0])}"
    return None


def _why_invalid(tables, sels, o):
    for p, ch in sels:
        parent = get(o, p[:-1])
        if parent is None or parent["k"] != "dc":
            return "below-non-dataclass"
        if not any(fn == p[-1] for fn, _i, _v, _d in parent["fields"]):
            return "unknown-selection-ignored"
        if _child(parent, p[-1]) is None:
            return "noninit-field-selected"
        m = _member_of(tables, parent["cls"], p[-1], ch)
        if m is None:
            return "choice-names-no-member:" + ch["c"]
        o = _set_path(o, p, m)
    return "other"


def _res_agree(a, b):
    if a[0] == "ok" and b[0] == "ok":
        return a[1] == b[1]
    return a[0] == "raise" and b[0] == "raise"


def _violation(case, obs):
    if obs.get("setup_failed"):
        return "setup-failed", f"the generated classes / instance could not be built: {obs['obs'][1]}: {obs['msg']}"
    if case.get("kind") == "sub":
        return _sub_violation(case, obs)
    if not obs["gen_ok"]:
        return "harness-bug", "the built instance does not canonicalise to the generated tree"
    if not obs["input_unchanged"]:
        return "input-mutated", "the object passed to replace() differs from its deep copy taken before the call"
    if obs["obs"][0] == "ok" and not obs["same_type"]:
        return "type-changed", "type(result) is not type(obj)"
    if case["abs"] is None:
        return None
    r = frame_reason(case["obj"], case["abs"], obs["obs"])
    if r:
        return r
    if obs["ref"] is not None and not _res_agree(obs["obs"], obs["ref"]):
        return "ref-differs", f"result differs from dataclasses.replace applied level by level: {obs['obs']} vs {obs['ref']}"
    return None


def py_spec(case, obs):
    v = _violation(case, obs)
    return None if v is None else f"{v[0]}: {v[1]}"[:600]


def _sel_has_dots(items):
    return any("." in k or (v["s"] == "dict" and _sel_has_dots(v["items"])) for k, v in items)


def _form(case):
    if case.get("kind") == "sub":
        if not case["sel"]:
            return "sub-empty"
        nested = any(v["s"] == "dict" for _k, v in case["sel"])
        return "sub-" + ("nested" if nested else "flat") + ("+dotted" if _sel_has_dots(case["sel"]) else "")
    passed = case["cd"] if case["cd"] else case["kw"]
    return ("dict" if case["cd"] else ("kw" if case["kw"] else "none")) + ("+dotted" if has_dots(passed or []) else "")


def signature(case, obs, reason):
    v = _violation(case, obs)
    if case.get("kind") == "sub":
        return (v[0] if v else "sub-coq-spec")
    return f"{v[0] if v else 'coq-spec'}:{_form(case)}:{obs['obs'][0]}"


def nontrivial(case, obs):
    if case.get("kind") == "sub":
        return bool(case["abs"])
    return bool(case["abs"]) or case["malformed"] is not None


def features(case, obs):
    if obs.get("setup_failed"):
        return {"outcome": "setup-failed"}
    if case.get("kind") == "sub":
        sels = case["abs"] or []
        selected = [p for p, _c in sels]
        return {"form": _form(case), "sub_n_selected": min(len(sels), 6), "sub_max_path": max([len(p) for p in selected] + [0]),
                "sub_choices": "+".join(sorted({c["c"] for _p, c in sels})) or "none",
                "sub_child_only": any(len(p) > 1 and p[:-1] not in selected for p in selected),
                "outcome": "sub:" + obs["obs"][0] + (":" + obs["obs"][1] if obs["obs"][0] == "raise" else ""),
                "sub_valid": expected_sub(spec_tables(obs["tables"], case.get("anns")), sels, case["obj"]) is not None,
                "selections_mutated": not obs["changes_unchanged"]}
    o = case["obj"]
    A = assigns(dnode(case["abs"]), o) if case["abs"] is not None else []
    frozen = "n/a"
    return {"form": _form(case), "depth": depth_of(o), "n_addressed": min(len(A), 6),
            "max_path": max([len(q) for q, _v in A] + [0]),
            "outcome": obs["obs"][0] + (":" + obs["obs"][1] if obs["obs"][0] == "raise" else ""),
            "malformed": case["malformed"] or "no", "frozen_root": ("frozen=True" in case["src"].split("class C0:")[0].splitlines()[-1]),
            "changes_dict_mutated": not obs["changes_unchanged"], "result_is_new": obs["is_new"],
            "bad_target": any(not settable(o, q) for q, _v in A) if case["abs"] is not None else "n/a",
            "noninit_mutated": any(_noninit_mutated(o))}


def _noninit_mutated(node):
    if node["k"] == "dc":
        for _fn, init, v, d in node["fields"]:
            if not init:
                yield v != d
            else:
                yield from _noninit_mutated(v)


# --------------------------------------------------------------------------------------------------
# Coq emission


def cval(node):
    k = node["k"]
    if k == "leaf":
        return f"(VLeaf {cstr(node['ty'])} {cstr(node['repr'])})"
    if k == "dict":
        return f"(VDict {cdict(node['items'])})"
    fs = []
    for fn, init, v, d in node["fields"]:
        kind = "FInit" if init else f"(FNonInit {cstr(d['ty'])} {cstr(d['repr'])})"
        fs.append(f"({cstr(fn)}, {kind}, {cval(v)})")
    return f"(VDc {cstr(node['cls'])} {clist(fs)})"


def cdict(items):
    return clist([cpair(cstr(k), cval(v)) for k, v in items])


def _cres(o, f):
    return outcome(["ok", f(o[1])] if o[0] == "ok" else o)



def csel(sn):
    k = sn["s"]
    if k == "key":
        return f"(SKey {cstr(sn['k'])})"
    if k == "type":
        return f"(SType {cstr(sn['cls'])})"
    if k == "inst":
        return f"(SInst {cval(sn['node'])})"
    if k == "none":
        return "SNone"
    if k == "other":
        return "SOther"
    return f"(SDict {csdict(sn['items'])})"


def csdict(items):
    return clist([cpair(cstr(k), csel(v)) for k, v in items])


def cchoice(ch):
    return {"key": lambda: f"(CKey {cstr(ch['k'])})", "type": lambda: f"(CType {cstr(ch['cls'])})",
            "inst": lambda: f"(CInst {cval(ch['node'])})", "none": lambda: "CNone", "other": lambda: "(CKey \"\")"}[ch["c"]]()


def ctables(t):
    metas = []
    for c, n, has_dc, optional, table, factory in t["meta"]:
        fm = (f"(mkfmeta {cbool(has_dc)} {cbool(optional)} {cdict(table)} "
              f"{'None' if factory is None else '(Some ' + cval(factory) + ')'})")
        metas.append(f"({cstr(c)}, {cstr(n)}, {fm})")
    return f"(mktables {clist(metas)} {cdict(t['classes'])})"


def cann(a):
    if isinstance(a, list):
        return f"(AUnion {clist([cann(x) for x in a[1]])})"
    return {"dc": "ADc", "other": "AOther", "none": "ANoneType", "listdc": "AListDc"}[a]


def to_coq_sub(case, obs):
    sel = "None" if case["sel"] is None else f"(Some {csdict(case['sel'])})"
    ab = "None" if case["abs"] is None else \
        "(Some " + clist([cpair(clist([cstr(x) for x in p]), cchoice(c)) for p, c in case["abs"]]) + ")"
    return (f"CSub (mkscase {ctables(obs['tables'])} {cval(obs['before'])} {sel} {ab} {_cres(obs['obs'], cval)} "
            f"{cbool(obs['input_unchanged'])} {csdict(obs['unflat'])} "
            + clist([f"({cstr(c)}, {cstr(f)}, {cann(a)})" for c, f, a in (case.get("anns") or []) if not obs.get("setup_failed")]) + ")")


def to_coq(case, obs):
    if case.get("kind") == "sub":
        return to_coq_sub(case, obs)
    cd = "None" if case["cd"] is None else f"(Some {cdict(case['cd'])})"
    # the abstract (nested) form has dot-free keys at every change-set level by construction, so a dot in it belongs to a
    # mapping VALUE: the Coq spec functions (deep_nf) do not cover those; the model itself does, and model = observed is
    # still evaluated; the Python spec judges the frame
    ab = "None" if case["abs"] is None or has_dots(case["abs"]) else f"(Some {cdict(case['abs'])})"
    flat = "None" if obs["flat"] is None else f"(Some {cdict(obs['flat']['items'])})"
    ref = "None" if obs["ref"] is None else f"(Some {_cres(obs['ref'], cval)})"
    return (f"CRep (mkcase {cval(obs['before'])} {cd} {cdict(case['kw'])} {ab} {_cres(obs['obs'], cval)} "
            f"{cbool(obs['same_type'])} {cbool(obs['input_unchanged'])} "
            f"{_cres(obs['unflat'], lambda n: cdict(n['items']))} {flat} {ref})")


def shrink(case):
    if case.get("kind") == "sub":
        sels = case["abs"] or []
        for i in range(len(sels)):
            p = sels[i][0]
            keep = [[q, c] for j, (q, c) in enumerate(sels) if j != i and q[:len(p)] != p]
            if len(keep) < len(sels):
                c2 = dict(case)
                c2["abs"] = keep
                c2["sel"] = render_sel(random.Random(0), keep, 1.0)
                yield c2
        return
    if case["abs"] is None:
        for which in ("cd", "kw"):
            items = case[which] or []
            for i in range(len(items)):
                c2 = dict(case)
                c2[which] = items[:i] + items[i + 1:]
                yield c2
        return
    # drop one abstract top-level key together with everything that renders it
    for k, _c in case["abs"]:
        c2 = dict(case)
        c2["abs"] = [[kk, cc] for kk, cc in case["abs"] if kk != k]
        for which in ("cd", "kw"):
            if case[which] is not None:
                c2[which] = [[kk, cc] for kk, cc in case[which] if kk.split(".")[0] != k]
        yield c2
