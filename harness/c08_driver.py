"""C08 driver: runs each history in its OWN process.

usage:  c08_driver.py            < spec.json > results.json     (batch; one forked child per job)
        c08_driver.py --one      < job.json  > result.json      (run one job in this brand-new interpreter)
env:    PYTHONPATH puts the repository under test first, PYTHONHASHSEED fixed (set by the caller);
        C08_FRESH=spawn makes the batch mode start a brand-new interpreter per job instead of forking.

Batch mode: the parent imports simple_parsing and NOTHING ELSE happens in it (no parser is ever constructed, no
dataclass is defined); every job then runs in a child forked from that pristine state, i.e. in a process whose
interpreter state is exactly "just imported the library".  The child asserts that the class-level settings still
have their initial values before it starts.

spec = {"classes_src": python source defining the dataclasses, "files": {name: text}, "jobs": [[op, ...], ...]}
op   = ["construct", slot, {"dash":..,"gen":..,"nm":..,"cr":..(optional, AUTO)}, cfgarg] | ["add", slot, class name, dest]
     | ["parse", slot, argv] | ["print_help", slot] | ["format_help", slot]
result per job = list of per-op observations (see run_job)."""
import contextlib
import io
import json
import os
import subprocess
import sys
import tempfile


def declared_enums(tp):
    """the Enum classes a field annotation names (List[E], Optional[E], Tuple[E, E], E)"""
    import enum
    import typing

    if isinstance(tp, type) and issubclass(tp, enum.Enum):
        return [tp]
    out = []
    for a in typing.get_args(tp):
        out += declared_enums(a)
    return out


def rv(v, declared=()):
    import enum

    if isinstance(v, enum.Enum):
        # name AND value AND whether the member belongs to the class THIS dataclass declares
        tag = "" if type(v) in declared else "!foreign"
        return f"enum:{type(v).__module__}.{type(v).__qualname__}.{v.name}={v.value}{tag}"
    if isinstance(v, bool):
        return f"bool:{v}"
    if isinstance(v, int):
        return f"int:{v}"
    if isinstance(v, str):
        return "str:" + v
    if v is None:
        return "none"
    if isinstance(v, tuple):
        return "tuple(" + ",".join(rv(x, declared) for x in v) + ")"
    if isinstance(v, list):
        return "list(" + ",".join(rv(x, declared) for x in v) + ")"
    return "other:" + type(v).__name__


def render_ns(ns, dests, classes=None, seen=None, info=None):
    """dests: [(dest, declared class name)].  classes: the job's namespace (declared class objects by name).
    seen: ids of mutable containers handed out by earlier parses of this process (aliasing probe).
    info: receives `extra` (every other attribute of the namespace) and `aliased` (container fields that ARE objects
    an earlier parse returned)."""
    import dataclasses
    import pathlib

    out = []
    classes = classes or {}
    aliased = []

    def probe(key, v):
        if seen is not None and isinstance(v, (list, dict, set)):
            if id(v) in seen:
                aliased.append(key)
            seen[id(v)] = v          # keeps the object alive, so the id stays unique

    def cls_tag(v, declared):
        # the CLASS of a dataclass instance must be the declared class object, not merely one of the same name
        return "" if declared is None or type(v) is declared else "!not-the-declared-class"

    def walk(prefix, inst):
        for f in dataclasses.fields(inst):
            key = prefix + "." + f.name
            try:
                v = getattr(inst, f.name)
            except AttributeError:
                out.append([key, "unset"])
                continue
            if dataclasses.is_dataclass(v) and not isinstance(v, type):
                nested_ok = (not classes) or type(v) is classes.get(type(v).__name__)
                out.append([key, "dc:" + type(v).__name__ + ("" if nested_ok else "!not-the-declared-class")])
                walk(key, v)
            else:
                probe(key, v)
                out.append([key, rv(v, tuple(declared_enums(f.type)))])

    names = []
    for item in dests:
        dest, cname = item if isinstance(item, (list, tuple)) else (item, None)
        names.append(dest)
        if not hasattr(ns, dest):
            out.append([dest, "missing"])
            continue
        v = getattr(ns, dest)
        if dataclasses.is_dataclass(v) and not isinstance(v, type):
            tag = cls_tag(v, classes.get(cname)) if cname else ""
            if tag:
                out.append([dest, "dc:" + type(v).__name__ + tag])
            walk(dest, v)
        else:
            out.append([dest, rv(v)])
    sg = getattr(ns, "subgroups", None)
    if isinstance(sg, dict):
        for k in sorted(sg):
            out.append(["subgroups:" + k, rv(sg[k])])
    elif sg is not None:
        out.append(["subgroups", rv(sg)])
    def rx(v):
        if isinstance(v, pathlib.PurePath):
            return "path:" + str(v)
        if isinstance(v, (list, tuple)):
            return ("list(" if isinstance(v, list) else "tuple(") + ",".join(rx(x) for x in v) + ")"
        if isinstance(v, dict):
            return "dict(" + ",".join(f"{k}={rx(x)}" for k, x in v.items()) + ")"
        return rv(v)

    # the value of the help-only --config_path argument is part of the result
    if hasattr(ns, "config_path"):
        out.append(["+config_path", rx(ns.config_path)])
    if info is not None:
        info["extra"] = sorted([k, rx(v)] for k, v in vars(ns).items()
                               if k not in names and k not in ("subgroups", "config_path"))
        info["aliased"] = aliased
    return out


LAST_IN_SETUP = [False]
LAST = {"tb": [], "stream": "none"}


def _tb_names(e):
    """function names of the library's frames the exception travelled through, innermost last (which code path raised)"""
    names = []
    tb = e.__traceback__
    while tb is not None:
        fn = tb.tb_frame.f_code.co_filename
        if "simple_parsing" in fn:
            names.append(tb.tb_frame.f_code.co_name)
        tb = tb.tb_next
    return names[-6:]


def _stream(out, err):
    o, e = bool(out.getvalue()), bool(err.getvalue())
    return "both" if o and e else "out" if o else "err" if e else "none"


def _in_setup(e):
    """did the exception travel through ArgumentParser._preprocessing (i.e. did the SET-UP fail)?"""
    tb = e.__traceback__
    while tb is not None:
        if tb.tb_frame.f_code.co_name == "_preprocessing":
            return True
        tb = tb.tb_next
    return False


def outcome(fn):
    out, err = io.StringIO(), io.StringIO()
    LAST_IN_SETUP[0] = False
    LAST["tb"], LAST["stream"] = [], "none"
    try:
        with contextlib.redirect_stdout(out), contextlib.redirect_stderr(err):
            v = fn()
        LAST["stream"] = _stream(out, err)
        return ["ok", v]
    except SystemExit as e:
        LAST_IN_SETUP[0] = _in_setup(e)
        LAST["tb"], LAST["stream"] = _tb_names(e), _stream(out, err)
        code = e.code
        if code is None:
            code = 0
        if not isinstance(code, int):
            code = 1
        return ["exit", code]
    except BaseException as e:  # noqa: BLE001
        LAST_IN_SETUP[0] = _in_setup(e)
        LAST["tb"], LAST["stream"] = _tb_names(e), _stream(out, err)
        return ["raise", type(e).__name__]


def registered(p):
    return sorted(o for o in p._option_string_actions if o not in ("-h", "--help", "--config_path"))


def run_job(spec, ops):
    """Runs in a process that has done nothing but import the library."""
    from simple_parsing import ArgumentParser, ConflictResolution
    from simple_parsing.wrappers.field_wrapper import ArgumentGenerationMode, DashVariant, FieldWrapper, NestedMode

    assert FieldWrapper.add_dash_variants == DashVariant.AUTO
    assert FieldWrapper.argument_generation_mode == ArgumentGenerationMode.FLAT
    assert FieldWrapper.nested_mode == NestedMode.DEFAULT
    ns = {}
    exec(compile(spec["classes_src"], "<c08-classes>", "exec", dont_inherit=True), ns)
    parsers, dests = {}, {}
    seen = {}
    res = []
    for op in ops:
        kind, slot = op[0], op[1]
        if kind == "construct":
            cfg, cfgarg = op[2], op[3]

            def mk():
                return ArgumentParser(add_option_string_dash_variants=DashVariant[cfg["dash"]],
                                      argument_generation_mode=ArgumentGenerationMode[cfg["gen"]],
                                      nested_mode=NestedMode[cfg["nm"]],
                                      conflict_resolution=ConflictResolution[cfg.get("cr", "AUTO")],
                                      **({"add_config_path_arg": True} if cfgarg else {}))

            r = outcome(mk)
            if r[0] == "ok":
                parsers[slot] = r[1]
                dests[slot] = []
                res.append({"r": ["none"]})
            else:
                res.append({"r": r})
            continue
        p = parsers.get(slot)
        if p is None:
            res.append({"r": ["noparser"]})
            continue
        if kind == "add":
            late = bool(p._preprocessing_done)
            r = outcome(lambda: p.add_arguments(ns[op[2]], op[3]) and None)
            if r[0] == "ok":
                dests[slot].append((op[3], op[2]))
                res.append({"r": ["done"], "late": late})
            else:
                res.append({"r": r, "late": late})
        elif kind == "parse":
            done_before = bool(p._preprocessing_done)
            argv = list(op[2])
            ds = list(dests[slot])
            info = {}
            r = outcome(lambda: render_ns(p.parse_args(argv), ds, ns, seen, info))
            res.append({"r": r, "done_before": done_before, "opts": registered(p), "in_setup": LAST_IN_SETUP[0],
                        "done_after": bool(p._preprocessing_done), "tb": LAST["tb"], "stream": LAST["stream"],
                        "extra": info.get("extra", []), "aliased": info.get("aliased", [])})
        elif kind == "print_help":
            r = outcome(lambda: p.print_help() and None)
            res.append({"r": ["done"] if r[0] == "ok" else r, "in_setup": LAST_IN_SETUP[0],
                        "done_after": bool(p._preprocessing_done)})
        elif kind == "format_help":
            r = outcome(lambda: p.format_help() and None)
            res.append({"r": ["done"] if r[0] == "ok" else r})
        else:
            raise ValueError(op)
    return res


def in_workdir(spec, fn):
    with tempfile.TemporaryDirectory(prefix="c08-") as d:
        for name, text in spec["files"].items():
            with open(os.path.join(d, name), "w") as f:
                f.write(text)
        os.chdir(d)
        try:
            return fn()
        finally:
            os.chdir("/")


def batch(spec):
    import simple_parsing  # noqa: F401  (the only thing the parent ever does with the library)

    spawn = os.environ.get("C08_FRESH") == "spawn"

    def go():
        results = []
        for ops in spec["jobs"]:
            if spawn:
                one = dict(spec, jobs=[ops])
                cp = subprocess.run([sys.executable, os.path.abspath(__file__), "--one"], input=json.dumps(one),
                                    capture_output=True, text=True, cwd=os.getcwd())
                if cp.returncode != 0:
                    raise RuntimeError(f"job failed: {cp.stderr[-2000:]}")
                results.append(json.loads(cp.stdout))
                continue
            rfd, wfd = os.pipe()
            pid = os.fork()
            if pid == 0:
                code = 0
                try:
                    os.close(rfd)
                    data = json.dumps(run_job(spec, ops)).encode()
                    with os.fdopen(wfd, "wb") as w:
                        w.write(data)
                except BaseException as e:  # noqa: BLE001
                    code = 3
                    try:
                        os.write(2, f"c08 child failed: {type(e).__name__}: {e}\n".encode())
                    except OSError:
                        pass
                finally:
                    os._exit(code)
            os.close(wfd)
            with os.fdopen(rfd, "rb") as r:
                data = r.read()
            _, status = os.waitpid(pid, 0)
            if status != 0 or not data:
                raise RuntimeError(f"history child exited with status {status} on {ops}")
            results.append(json.loads(data))
        return results

    return in_workdir(spec, go)


def main():
    spec = json.load(sys.stdin)
    if len(sys.argv) > 1 and sys.argv[1] == "--one":
        out = run_job(spec, spec["jobs"][0])  # cwd already holds the files (set by the batch parent)
    else:
        out = batch(spec)
    json.dump(out, sys.stdout)


if __name__ == "__main__":
    main()
