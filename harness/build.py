#!/venv/bin/python
"""build.py <targets...> : regenerate Gen/ + _CoqProject and make the given .vo targets, under the exclusive lock."""
import sys, os
sys.path.insert(0, os.path.dirname(os.path.abspath(__file__)))
import check

targets = sys.argv[1:]
with check.Lock(True):
    fails = check.translate(check.all_fact_modules())
    check.mkproject()
    rc, out, t = check.make(targets, 1800)
if fails:
    print("translator failures:", fails)
print(out[-6000:])
print(f"make rc={rc} ({t:.1f}s)")
sys.exit(rc)
