"""Python ast -> MiniPy (coq/Model/MiniPy.v) syntax, as Coq text.  A syntax-to-syntax dump: every node kind maps to one
constructor; anything outside the fragment raises Unrecognised (fail closed).  Local `def`s are inlined at their call sites
(parameters substituted by the argument expressions, which must be names or constants)."""
from __future__ import annotations

import ast

from .pyast import Unrecognised, clean, cstr, unparse


class Ctx:
    def __init__(self, attr_vars=(), enum_prefixes=(), identity_calls=(), attr_targets=(), prims=None):
        self.attr_vars = set(attr_vars) | set(attr_targets)  # source texts treated as variables, e.g. "self.prefix"
        self.attr_targets = set(attr_targets)    # attributes the method may assign / append to, e.g. "self.negative_option_strings"
        self.enum_prefixes = tuple(enum_prefixes)  # "DashVariant." ... : enum members become string constants
        self.identity_calls = set(identity_calls)  # callables that return their argument, e.g. "DashVariant", "list"
        self.prims = dict(prims or {})           # external pure helpers with a primitive in MiniPy, e.g. "utils.get_nesting_level": "ENestLevel"
        self.local_defs = {}
        self.assigned = []

    def note(self, name):
        if name not in self.assigned:
            self.assigned.append(name)


def one_char(node, what):
    if not (isinstance(node, ast.Constant) and isinstance(node.value, str) and len(node.value) == 1):
        raise Unrecognised(f"{what}: expected a one-character string literal, got {unparse(node)}")
    return node.value


def expr(n, c: Ctx, subst=None) -> str:
    subst = subst or {}
    src = unparse(n)
    if src in c.attr_vars:
        return f"(EVar {cstr(src)})"
    if isinstance(n, ast.Name):
        if n.id in subst:
            return subst[n.id]
        return f"(EVar {cstr(n.id)})"
    if isinstance(n, ast.Attribute) and src.startswith(c.enum_prefixes):
        return f"(EStr {cstr(src)})"
    if isinstance(n, ast.Constant):
        if isinstance(n.value, bool):
            return f"(EBool {'true' if n.value else 'false'})"
        if isinstance(n.value, str):
            return f"(EStr {cstr(n.value)})"
        if isinstance(n.value, int) and 0 <= n.value < 1000:
            return f"(ENat {n.value})"
    if isinstance(n, ast.JoinedStr):
        parts = []
        for v in n.values:
            if isinstance(v, ast.Constant):
                parts.append(f"(EStr {cstr(v.value)})")
            elif isinstance(v, ast.FormattedValue) and v.conversion == -1 and v.format_spec is None:
                parts.append(expr(v.value, c, subst))
            else:
                raise Unrecognised(f"f-string part {unparse(v)}")
        return "(EFmt [" + "; ".join(parts) + "])"
    if isinstance(n, ast.IfExp):
        return f"(ECond {expr(n.test, c, subst)} {expr(n.body, c, subst)} {expr(n.orelse, c, subst)})"
    if isinstance(n, ast.UnaryOp) and isinstance(n.op, ast.Not):
        return f"(ENot {expr(n.operand, c, subst)})"
    if isinstance(n, ast.Compare) and len(n.ops) == 1:
        a, b = expr(n.left, c, subst), expr(n.comparators[0], c, subst)
        if isinstance(n.ops[0], ast.Eq):
            return f"(EEq {a} {b})"
        if isinstance(n.ops[0], ast.In):
            return f"(EIn {a} {b})"
        if isinstance(n.ops[0], ast.NotEq):
            return f"(ENot (EEq {a} {b}))"
    if isinstance(n, ast.List):      # a tuple display is NOT a list (isinstance, ==): outside the fragment
        return "(EList [" + "; ".join(expr(e, c, subst) for e in n.elts) + "])"
    if isinstance(n, ast.Subscript) and isinstance(n.slice, ast.Slice) and n.slice.upper is None and n.slice.step is None \
            and isinstance(n.slice.lower, ast.Constant) and isinstance(n.slice.lower.value, int) and n.slice.lower.value >= 0:
        return f"(ESliceFrom {expr(n.value, c, subst)} {n.slice.lower.value})"
    if isinstance(n, ast.ListComp) and len(n.generators) == 1:
        g = n.generators[0]
        if isinstance(g.target, ast.Name) and not g.is_async and len(g.ifs) <= 1:
            cond = f"(Some {expr(g.ifs[0], c, subst)})" if g.ifs else "None"
            return f"(EComp {expr(n.elt, c, subst)} {cstr(g.target.id)} {expr(g.iter, c, subst)} {cond})"
    if isinstance(n, ast.Call):
        f = n.func
        fsrc = unparse(f)
        if fsrc == "list" and len(n.args) == 1 and not n.keywords and _is_fromkeys(n.args[0]):
            return dedupe(n.args[0], c, subst)      # list(dict.fromkeys(..)): the de-duplicated LIST
        if fsrc in c.identity_calls and len(n.args) == 1 and not n.keywords:
            return expr(n.args[0], c, subst)
        if fsrc == "len" and len(n.args) == 1:
            return f"(ELen {expr(n.args[0], c, subst)})"
        if fsrc == "sorted" and len(n.args) == 1 and len(n.keywords) == 1 and n.keywords[0].arg == "key" and unparse(n.keywords[0].value) == "len":
            return f"(ESortLen {expr(n.args[0], c, subst)})"
        if _is_fromkeys(n):
            return dedupe(n, c, subst)      # a dict read as the list of its keys: fromkeys_check admits it only where that is the same
        if isinstance(f, ast.Attribute):
            m = f.attr
            if m == "replace" and len(n.args) == 2:
                return f"(EReplace {expr(f.value, c, subst)} {cstr(one_char(n.args[0], 'replace'))} {cstr(one_char(n.args[1], 'replace'))})"
            if m == "startswith" and len(n.args) == 1 and isinstance(n.args[0], ast.Constant) and isinstance(n.args[0].value, str):
                return f"(EStartswith {expr(f.value, c, subst)} {cstr(n.args[0].value)})"
            if m == "split" and len(n.args) == 1:
                return f"(ESplit {expr(f.value, c, subst)} {cstr(one_char(n.args[0], 'split'))})"
            if m == "join" and len(n.args) == 1 and isinstance(f.value, ast.Constant) and isinstance(f.value.value, str):
                return f"(EJoin {cstr(f.value.value)} {expr(n.args[0], c, subst)})"
    # ---- second group (BooleanOptionalAction.__init__) ----
    if isinstance(n, ast.Constant) and n.value is None:
        return "ENone"
    if isinstance(n, ast.Compare) and len(n.ops) == 1:
        op, right = n.ops[0], n.comparators[0]
        if isinstance(op, (ast.Is, ast.IsNot)) and isinstance(right, ast.Constant) and right.value is None:
            t = f"(EIsNone {expr(n.left, c, subst)})"
            return t if isinstance(op, ast.Is) else f"(ENot {t})"
        if isinstance(op, ast.NotIn):
            return f"(ENot (EIn {expr(n.left, c, subst)} {expr(right, c, subst)}))"
        if isinstance(op, ast.Gt):
            return f"(EGt {expr(n.left, c, subst)} {expr(right, c, subst)})"
    if isinstance(n, ast.BinOp):
        if isinstance(n.op, ast.Add):
            return f"(EAdd {expr(n.left, c, subst)} {expr(n.right, c, subst)})"
        if isinstance(n.op, ast.Sub):
            return f"(ESub {expr(n.left, c, subst)} {expr(n.right, c, subst)})"
        if isinstance(n.op, ast.Mult):
            if isinstance(n.left, ast.Constant):
                return f"(ERepeat {cstr(one_char(n.left, 'repetition'))} {expr(n.right, c, subst)})"
            return f"(EMul {expr(n.left, c, subst)} {expr(n.right, c, subst)})"
    if isinstance(n, ast.Call) and isinstance(n.func, ast.Attribute) and not n.keywords and len(n.args) == 1:
        if n.func.attr == "lstrip":
            return f"(ELstrip {expr(n.func.value, c, subst)} {cstr(one_char(n.args[0], 'lstrip'))})"
        if n.func.attr == "endswith" and isinstance(n.args[0], ast.Constant) and isinstance(n.args[0].value, str):
            return f"(EEndswith {expr(n.func.value, c, subst)} {cstr(n.args[0].value)})"
    # ---- third group (FieldWrapper.duplicate_if_needed) ----
    if isinstance(n, ast.BoolOp) and len(n.values) >= 2:
        k = "EAnd" if isinstance(n.op, ast.And) else "EOr"
        vs = [expr(v, c, subst) for v in n.values]
        out = vs[-1]
        for v in reversed(vs[:-1]):      # a op b op c evaluates like a op (b op c)
            out = f"({k} {v} {out})"
        return out
    if isinstance(n, ast.Subscript) and isinstance(n.slice, ast.Constant) and isinstance(n.slice.value, int) \
            and not isinstance(n.slice.value, bool) and 0 <= n.slice.value < 1000:
        return f"(EIndex {expr(n.value, c, subst)} {n.slice.value})"
    if isinstance(n, ast.Call) and not n.keywords:
        fsrc = unparse(n.func)
        if fsrc == "isinstance" and len(n.args) == 2:
            cls = n.args[1].elts if isinstance(n.args[1], ast.Tuple) else [n.args[1]]
            if cls and all(isinstance(k, ast.Name) and k.id in ("list", "tuple", "str") for k in cls):
                return f"(EIsInst {expr(n.args[0], c, subst)} [{'; '.join(cstr(k.id) for k in cls)}])"
        if fsrc == "list" and len(n.args) == 1:
            return f"(EToList {expr(n.args[0], c, subst)})"
        if fsrc in c.prims and len(n.args) == 1:
            return f"({c.prims[fsrc]} {expr(n.args[0], c, subst)})"
    raise Unrecognised(f"expression outside the MiniPy fragment: {src[:100]}")


def _is_fromkeys(n):
    return isinstance(n, ast.Call) and unparse(n.func) == "dict.fromkeys" and len(n.args) == 1 and not n.keywords


def dedupe(n, c: Ctx, subst) -> str:
    a = n.args[0]
    if isinstance(a, ast.GeneratorExp) and len(a.generators) == 1:
        g = a.generators[0]
        if isinstance(g.target, ast.Tuple) and len(g.target.elts) == 2 and all(isinstance(e, ast.Name) for e in g.target.elts) \
                and isinstance(g.iter, ast.Call) and unparse(g.iter.func) == "zip" and len(g.iter.args) == 2 and not g.ifs:
            x, y = (e.id for e in g.target.elts)
            return (f"(EDedupe (EComp2 {expr(a.elt, c, subst)} {cstr(x)} {cstr(y)} "
                    f"{expr(g.iter.args[0], c, subst)} {expr(g.iter.args[1], c, subst)}))")
    return f"(EDedupe {expr(a, c, subst)})"


def block(body, c: Ctx, subst=None) -> list[str]:
    out = []
    for s in clean(body):
        out += stmt(s, c, subst)
    return out


def stmt(s, c: Ctx, subst=None) -> list[str]:
    subst = subst or {}
    if isinstance(s, ast.FunctionDef):
        if s.args.defaults or s.args.kwonlyargs or s.args.vararg or s.args.kwarg:
            raise Unrecognised(f"local def {s.name}: only plain positional parameters")
        params = {a.arg for a in s.args.args}
        for n in ast.walk(s):
            if isinstance(n, ast.Return):
                raise Unrecognised(f"local def {s.name}: a return inside an inlined def would leave the enclosing method")
            if isinstance(n, ast.Name) and isinstance(n.ctx, ast.Store) and n.id in params:
                raise Unrecognised(f"local def {s.name}: assigns its parameter {n.id} (inlining substitutes the argument)")
        c.local_defs[s.name] = s
        return []
    if isinstance(s, ast.AnnAssign) and isinstance(s.target, ast.Name) and s.value is not None:
        c.note(s.target.id)
        return [f"SAssign {cstr(s.target.id)} {expr(s.value, c, subst)}"]
    if isinstance(s, ast.Assign) and len(s.targets) == 1 and isinstance(s.targets[0], ast.Name):
        c.note(s.targets[0].id)
        return [f"SAssign {cstr(s.targets[0].id)} {expr(s.value, c, subst)}"]
    if isinstance(s, ast.Return) and s.value is not None:
        return [f"SReturn {expr(s.value, c, subst)}"]
    if isinstance(s, ast.If):
        th = block(s.body, c, subst)
        el = block(s.orelse, c, subst)
        return [f"SIf {expr(s.test, c, subst)} [{'; '.join(th)}] [{'; '.join(el)}]"]
    if isinstance(s, ast.For) and isinstance(s.target, ast.Name) and not s.orelse:
        c.note(s.target.id)
        return [f"SFor {cstr(s.target.id)} {expr(s.iter, c, subst)} [{'; '.join(block(s.body, c, subst))}]"]
    if isinstance(s, ast.Expr) and isinstance(s.value, ast.Call):
        call = s.value
        f = call.func
        if isinstance(f, ast.Attribute) and isinstance(f.value, ast.Name) and len(call.args) == 1 and not call.keywords:
            tgt = f.value.id
            tgt_e = subst.get(tgt)
            if tgt_e is not None:
                raise Unrecognised("mutation of a substituted parameter")
            if f.attr == "append":
                return [f"SAppend {cstr(tgt)} {expr(call.args[0], c, subst)}"]
            if f.attr == "extend":
                return [f"SExtend {cstr(tgt)} {expr(call.args[0], c, subst)}"]
        if isinstance(f, ast.Name) and f.id in c.local_defs and not call.keywords:
            d = c.local_defs[f.id]
            params = [a.arg for a in d.args.args]
            if len(params) != len(call.args):
                raise Unrecognised(f"call of local def {f.id}: arity")
            new = dict(subst)
            for p, a in zip(params, call.args):
                if not isinstance(a, (ast.Name, ast.Constant)):
                    raise Unrecognised(f"call of local def {f.id}: argument {unparse(a)} is not a name or constant")
                new[p] = expr(a, c, subst)
            return block(d.body, c, new)
    # ---- second group (BooleanOptionalAction.__init__) ----
    if isinstance(s, (ast.Assign, ast.AnnAssign)) and getattr(s, "value", None) is not None:
        tgts = s.targets if isinstance(s, ast.Assign) else [s.target]
        if len(tgts) == 1 and isinstance(tgts[0], ast.Attribute) and unparse(tgts[0]) in c.attr_targets:
            c.note(unparse(tgts[0]))
            return [f"SAssign {cstr(unparse(tgts[0]))} {expr(s.value, c, subst)}"]
        if isinstance(s, ast.Assign) and len(tgts) == 1 and isinstance(tgts[0], ast.Tuple) and len(tgts[0].elts) == 3:
            a, m, b = tgts[0].elts
            if isinstance(a, ast.Name) and isinstance(b, ast.Name) and isinstance(m, ast.Starred) and isinstance(m.value, ast.Name) \
                    and not ({a.id, m.value.id, b.id} & set(subst)):
                for x in (a.id, m.value.id, b.id):
                    c.note(x)
                return [f"SUnpack3 {cstr(a.id)} {cstr(m.value.id)} {cstr(b.id)} {expr(s.value, c, subst)}"]
    if isinstance(s, ast.Assert) and (s.msg is None or (isinstance(s.msg, ast.Constant) and isinstance(s.msg.value, str))):
        return [f"SAssert {expr(s.test, c, subst)}"]       # the message is not modelled
    if isinstance(s, ast.Raise) and s.cause is None and isinstance(s.exc, ast.Call) and isinstance(s.exc.func, (ast.Name, ast.Attribute)) \
            and not s.exc.keywords and all(isinstance(a, (ast.Constant, ast.JoinedStr)) for a in s.exc.args):
        for a in s.exc.args:  # the message is not modelled, but it must be a pure string expression of the fragment's variables
            for v in (a.values if isinstance(a, ast.JoinedStr) else []):
                if isinstance(v, ast.FormattedValue) and not isinstance(v.value, (ast.Name, ast.Constant)):
                    expr(v.value, c, subst)   # raises Unrecognised unless it is an expression of the fragment
        cls = s.exc.func.id if isinstance(s.exc.func, ast.Name) else s.exc.func.attr   # utils.SomeError -> "SomeError"
        return [f"SRaise {cstr(cls)}"]
    if isinstance(s, ast.Expr) and isinstance(s.value, ast.Call) and isinstance(s.value.func, ast.Attribute) \
            and unparse(s.value.func.value) in c.attr_targets and len(s.value.args) == 1 and not s.value.keywords:
        tgt = unparse(s.value.func.value)
        if s.value.func.attr == "append":
            return [f"SAppend {cstr(tgt)} {expr(s.value.args[0], c, subst)}"]
        if s.value.func.attr == "extend":
            return [f"SExtend {cstr(tgt)} {expr(s.value.args[0], c, subst)}"]
    raise Unrecognised(f"statement outside the MiniPy fragment: {unparse(s)[:100]}")


# ---- aliasing -------------------------------------------------------------------------------------------------------------
# Python lists are shared references, MiniPy values are copies: `b = a; a.append(1); return b` differs.  The fragment therefore
# only admits lists that are mutated (append / extend) as FLAT ACCUMULATORS: a mutated name is bound only to freshly built lists
# and its object is never stored anywhere else (another name, a list display, an appended element, a call argument); it may be
# read where only its contents are consumed (len, in, ==, slices, +, iteration that does not mutate it, extend's argument,
# join, sorted, list(), conditions) and returned.  Everything else fails closed.
_MUTATORS = ("append", "extend")
_CONSUMING_CALLS = ("len", "sorted", "list", "zip", "dict.fromkeys", "isinstance")


def _vname(node, c: Ctx):
    if isinstance(node, ast.Name):
        return node.id
    if isinstance(node, ast.Attribute) and unparse(node) in c.attr_vars:
        return unparse(node)
    return None


def _fresh_list(v) -> bool:
    if isinstance(v, (ast.List, ast.ListComp)):
        return True
    if isinstance(v, ast.BinOp) and isinstance(v.op, (ast.Add, ast.Mult)):
        return True
    if isinstance(v, ast.Subscript) and isinstance(v.slice, ast.Slice):
        return True
    if isinstance(v, ast.Call):
        f = unparse(v.func)
        return f in ("sorted", "list") or (isinstance(v.func, ast.Attribute) and v.func.attr == "split")
    return False


def alias_check(body, c: Ctx) -> None:
    root = ast.Module(body=list(body), type_ignores=[])
    parent = {}
    for n in ast.walk(root):
        for ch in ast.iter_child_nodes(n):
            parent[ch] = n
    mutated = set()
    for n in ast.walk(root):
        if isinstance(n, ast.Call) and isinstance(n.func, ast.Attribute) and n.func.attr in _MUTATORS:
            t = _vname(n.func.value, c)
            if t is not None:
                mutated.add(t)
    if not mutated:
        return

    def bad(name, why):
        raise Unrecognised(f"aliasing: the list {name} is mutated (append/extend) and {why}")

    def mutates(stmts, name):
        for s in stmts:
            for n in ast.walk(s):
                if isinstance(n, ast.Call) and isinstance(n.func, ast.Attribute) and n.func.attr in _MUTATORS \
                        and _vname(n.func.value, c) == name:
                    return True
        return False

    # bindings of a mutated name: plain assignments of freshly built lists only
    for n in ast.walk(root):
        binds = []
        if isinstance(n, ast.Assign):
            binds = [(t, n.value) for t in n.targets]
        elif isinstance(n, ast.AnnAssign) and n.value is not None:
            binds = [(n.target, n.value)]
        elif isinstance(n, (ast.For, ast.comprehension)):
            binds = [(n.target, None)]
        for t, v in binds:
            direct = _vname(t, c)
            if direct in mutated:
                if v is None or not _fresh_list(v):
                    bad(direct, "is bound to a value that may be shared with another name")
                continue
            for leaf in ast.walk(t):
                nm = _vname(leaf, c) if isinstance(leaf, (ast.Name, ast.Attribute)) else None
                if nm in mutated:
                    bad(nm, "is bound by unpacking / as a loop or comprehension variable")
        if isinstance(n, ast.FunctionDef):
            for a in n.args.args:
                if a.arg in mutated:
                    bad(a.arg, "is a parameter of a local def")

    # uses of a mutated name: only where its contents are consumed
    def consumed(node, name):
        p = parent.get(node)
        if isinstance(p, ast.Attribute):                       # name.method(..)
            return isinstance(parent.get(p), ast.Call) and parent[p].func is p
        if isinstance(p, ast.Call):
            f = unparse(p.func)
            if node in p.args:
                if f in _CONSUMING_CALLS or f in c.prims:
                    return True
                if isinstance(p.func, ast.Attribute) and p.func.attr in ("extend", "join"):
                    return True
            return False
        if isinstance(p, (ast.Compare, ast.UnaryOp, ast.BinOp, ast.FormattedValue, ast.Return)):
            return True
        if isinstance(p, ast.Subscript):
            return p.value is node
        if isinstance(p, ast.comprehension):
            return p.iter is node
        if isinstance(p, ast.For):
            if p.iter is node:
                if mutates(p.body, name):
                    bad(name, "is iterated by a loop whose body mutates it")
                return True
            return False
        if isinstance(p, (ast.If, ast.Assert, ast.While)):
            return p.test is node
        if isinstance(p, ast.IfExp):
            return True if p.test is node else consumed(p, name)
        if isinstance(p, ast.BoolOp):
            return consumed(p, name)
        if isinstance(p, ast.List):                            # a list display that is returned at once: nothing runs afterwards
            return isinstance(parent.get(p), ast.Return)
        return False

    for n in ast.walk(root):
        if isinstance(n, (ast.Name, ast.Attribute)) and isinstance(getattr(n, "ctx", None), ast.Load):
            nm = _vname(n, c)
            if nm in mutated and not (isinstance(parent.get(n), ast.Attribute) and _vname(parent[n], c) in mutated):
                if not consumed(n, nm):
                    bad(nm, f"its object is stored or passed on in `{unparse(parent.get(n))[:60]}`")


def fromkeys_check(body, c: Ctx) -> None:
    """dict.fromkeys(..) is a dict; the interpreter reads it as the list of its distinct keys.  That is the same thing only
    where the dict is merely iterated: as the argument of list / sorted / len / zip / join, as the iterable of a for or a
    comprehension, as the right operand of in - directly or through a name that is bound to nothing else."""
    root = ast.Module(body=list(body), type_ignores=[])
    parent = {}
    for n in ast.walk(root):
        for ch in ast.iter_child_nodes(n):
            parent[ch] = n
    dict_names = set()
    for n in ast.walk(root):
        if isinstance(n, ast.Assign) and _is_fromkeys(n.value) and len(n.targets) == 1 and isinstance(n.targets[0], ast.Name):
            dict_names.add(n.targets[0].id)

    def iterated_only(node):
        p = parent.get(node)
        if isinstance(p, ast.Call) and node in p.args:
            return unparse(p.func) in ("list", "sorted", "len", "zip") or (isinstance(p.func, ast.Attribute) and p.func.attr == "join")
        if isinstance(p, (ast.For, ast.comprehension)):
            return p.iter is node
        if isinstance(p, ast.Compare):
            return len(p.ops) == 1 and isinstance(p.ops[0], (ast.In, ast.NotIn)) and p.comparators[0] is node
        return False

    for n in ast.walk(root):
        if _is_fromkeys(n):
            p = parent.get(n)
            if isinstance(p, ast.Assign) and p.value is n and len(p.targets) == 1 and isinstance(p.targets[0], ast.Name):
                continue
            if not iterated_only(n):
                raise Unrecognised(f"dict.fromkeys(..) used as a value in `{unparse(p)[:60]}`: it is a dict, the interpreter reads it as a list")
        if isinstance(n, ast.Name) and n.id in dict_names:
            if isinstance(n.ctx, ast.Store):
                p = parent.get(n)
                if not (isinstance(p, ast.Assign) and _is_fromkeys(p.value)):
                    raise Unrecognised(f"{n.id} is bound to a dict.fromkeys(..) and to something else")
            elif not iterated_only(n):
                raise Unrecognised(f"{n.id} (a dict.fromkeys(..)) is used as a value in `{unparse(parent.get(n))[:60]}`")


def method_block(fn: ast.FunctionDef, c: Ctx) -> tuple[str, list[str]]:
    alias_check(fn.body, c)
    fromkeys_check(fn.body, c)
    ss = block(fn.body, c)
    return "[" + ";\n   ".join(ss) + "]", list(c.assigned)
